from registry import KERNEL, TIE, HARNESS

PROP = "C03"
SPEC = {
    "manifest": {
        "technique": ("machine-checked proof in Coq (structural induction over configuration trees of any depth with "
                      "sub-configurations, config types and lists of configurations; refinement of the code's key-file "
                      "hand-down to the nearest-ancestor spec; equational characterisation of the serialised secret over an "
                      "abstract cipher) + model/implementation correspondence by vm_compute on real Schema/Config objects, "
                      "real key files and all five formats"),
        "text": ("Fifteen theorems over coq/theories/Secrets.v for ALL trees, key-file assignments and plaintexts: the key file "
                 "the code resolves at any position (own, else the parent's, else ~/.cincokey) equals the nearest ancestor "
                 "naming one; a non-empty secret is written as {method: concrete aes/xor, ciphertext: base64(enc key iv "
                 "plaintext)} under the key of exactly that key file, and the plaintext enters the document through enc "
                 "only; empty secrets are written null and come back unset; the set of key files a dump opens is exactly "
                 "{resolved key file of a non-empty secret} (nothing when all are empty, the default only if a secret resolves "
                 "to it), a load that returns opened only resolved key files of the secrets it set, existing key files are "
                 "never re-created and a path yields the same key in a later session; loading the document into a NEW "
                 "configuration of the same schema given the same root key file returns every plaintext at every position, "
                 "outside the region of the open finding F34 (a key file named by assignment below the root), where the "
                 "faithful model refutes the statement (witness by vm_compute). Tied to core.py / secure_field.py / "
                 "list_field.py by stream secrets: histories of key-file / secret / list assignments and dumps on real "
                 "objects, audit-hooked file opens, plaintext absence in the output bytes, reload in a fresh configuration."),
        "note": ("Trusted: Coq kernel + vm_compute; the correspondence harness; the cipher, base64 and os.urandom enter the "
                 "theorems as Section variables with the inverse laws as hypotheses (C08 proves them for the repository's "
                 "XOR/CBC code) and the correspondence as a toy cipher satisfying those laws (only key-file names, file sets, "
                 "method names and plaintext equality are observed). No axioms (Print Assumptions: closed under the global "
                 "context). That real AES/XOR output does not happen to contain the plaintext is checked on every case, not "
                 "proved."),
        "design_ref": "DESIGN.md section 6 C03"},
    "streams": ["secrets"],
    "witnesses": ["F1", "F15", "F54"],
    "rule": ("deterministic matrix, identical on every run: 3 methods x 9 schema shapes (root only, chains of depth 1/2/4, "
             "config types with and without class-level key file, config type nested under a sub-configuration, list of "
             "schema items, list of config-type items, list below a sub-configuration with nested item sub-configurations) x "
             "root key file {default, named} x 7 scenarios (plain, root re-assigned after a dump, key file assigned on the "
             "deepest sub-configuration, on a list item, class-level key file cleared on an instance, all secrets unset, all "
             "key files pre-existing), formats cycled; then seeded random cases: random schemas (depth <= 4, 1-2 secrets per "
             "configuration, methods xor/aes/best), histories of 2-12 steps (list assignment by maps / Config objects / "
             "append, secret assignment incl. '' and None, key-file assignment or clearing at any configuration incl. items, "
             "intermediate dumps in random formats), random pre-existing key files, final format random. non-trivial = at "
             "least one non-empty secret at the final dump; distinct = distinct (schema, history, files, format). "
             "Secrets inside containers: every configuration (root, nested, list item, config type) may also declare "
             "ListField(SecureField(m)) and DictField(StringField(), SecureField(m)); two matrix shapes (containers at the "
             "root + nested; containers inside items of ListField(schema) / ListField(config type) and below an item's "
             "sub-configuration) and ~30%/20% of random configurations; histories assign lists of 0-3 and maps of 0-3 "
             "plaintexts incl. ''. Key-file names with ~ (root, nested, class-level; existing or created): 81 matrix cases "
             "and ids 6/7 in the random histories. Two configurations A, B of one schema with different root key files: "
             "216 matrix cases = 3 methods x 18 routes of moving Config objects A -> B (sub-configuration by attribute / "
             "item / dotted assignment, at depth 1 and 2; list assignment, b.l[:] = [..], b.l[:] = a.l, b.l = a.l, "
             "b.l = a.l.copy(), b.l[i] = x, append, extend([..]), += [..], insert, extend(a.l), += a.l, b.l = b.l + a.l) "
             "x B root key file {named, default} x moved configuration names its own key file {no, yes}, and every "
             "4th random case (1-3 moves, then further assignments / dumps on B)"),
    "trusted_base": [KERNEL, "Print Assumptions: closed under the global context (no axioms)", TIE, HARNESS,
                     "modelled, not verified: cipher / base64 / utf-8 as abstract functions with dec(enc p) = p and "
                     "unb64(b64 x) = x as hypotheses; os.urandom named by its consumer (key-file path, secret); the file "
                     "system as a map path -> key with well-formed (32 byte) key files only (malformed ones are C07's)",
                     "interpreter facts used: the sys audit event 'open' fires for every open attempt of builtins.open",
                     "the order in which a document's keys are processed is not modelled (file sets, not sequences, are "
                     "compared); a load that raises is observed as 'broken' and its opened files are checked by the direct "
                     "oracle only"],
    "assumptions": ["the constructor route schema(key_filename=K, **saved_tree) is, for the model, load_tree of the document whose "
                    "root-level secrets are plaintext (Secrets.v ctor_doc: Config.__init__ names the key file, then _set_value's "
                    "each keyword; a SecureField keyword is an assignment and refuses an encrypted map, maps under "
                    "sub-configuration keys and lists of maps are loaded as load_tree loads them); it is run on EVERY case in both "
                    "keyword orders and compared with the model (6th component of the observation); Type(**tree) for a "
                    "config type with a class-level key file is checked by the direct oracle only",
                    "plaintext absence is checked on the implementation, not proved (the cipher is abstract in the theorems): "
                    "plaintexts have UTF-8 length 6..12 or (about a third) exactly 32, 33, 40, 64, 65, 100, 200 or 33..200, "
                    "ASCII and with two-byte code points, for every method (42 deterministic cases + random); every 8-byte "
                    "window of every plaintext (head, middle, tail) is searched in the output bytes and every 6-byte window "
                    "in the base64-decoded ciphertext of every {method, ciphertext} value of the written document (parsed "
                    "back by the formatter) and of a second rendering",
                    "moving a configuration object from one configuration into another is modelled (Secrets.v sop2 / "
                    "OMove, definitions only) as placing the sub-tree, own key file included, at the new position; the "
                    "theorems hold for every tree, hence for the result; the source configuration still refers to the moved "
                    "object (aliasing is outside the model) and is not used again by the stream after the first move",
                    "a key-file name containing ~ is just another path for the model; that read and create use the same "
                    "expanded location and that an existing key file is never rewritten is checked by the direct oracle "
                    "(audited opens, bytes before/after) and by the model's read/created sets",
                    "a ListField(SecureField) / DictField(StringField, SecureField) of a configuration is given to the model "
                    "as 3 extra secrets of that configuration named f[0..2] / f[a|b|c] (same key file, same method, one "
                    "key-file context per non-empty item, empty item = null): Secrets.v has no separate container construct, "
                    "the harness flattens the rendered list / map into those slots before the comparison, so the theorems "
                    "apply to items through this reading; the nesting of the items in the document, that every item is a "
                    "{method, ciphertext} map with a concrete method, plaintext absence in the output bytes, key files "
                    "touched = expected and the new-session round trip are checked on the implementation by the direct oracle",
                    "field names of one configuration are distinct and every item of a list was built from the list's item "
                    "field (hypothesis wf; true of every Python dict / ListProxy)",
                    "round trip excludes known_F34 (open finding): a configuration other than the root names its own key "
                    "file by assignment, or a config-type instance's class-level key file was cleared or changed",
                    "the trace theorem for loads speaks of loads that return; for a load that raises the direct oracle "
                    "checks that only key files named by the new session's configuration were touched",
                    "cipher inverse laws are assumed here and proved for the repository's own XOR/PKCS7/CBC code in C08"],
}
