"""stream configops with the direct oracle and generator emphasis of C01 (see s_configops.py)"""
from s_configops import *  # noqa: F401,F403
import s_configops as _base

NAME = "co01"


def generate(rng, tier):
    return _base.generate_for("C01", rng, tier)


def oracle(c, obs):
    return _base.oracle_for("C01", c, obs)
