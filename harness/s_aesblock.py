"""
stream `aesblock` (C08): the AES-256 block function written in Gallina (coq/theories/Aes.v:
`aes256_encrypt_block` / `aes256_decrypt_block`, inverse law proved in AesLemmas.v) against the real
primitive, byte for byte: `cryptography`'s `Cipher(algorithms.AES(key), modes.ECB())` on one 16-byte block,
both directions (`run_aesblock`).  What the theorems of C08 assume about the outside world is reduced to
"`cryptography`'s AES is FIPS-197 AES-256"; this stream samples exactly that statement.

The oracle does not use the model: ECB decrypt(encrypt(b)) = b = encrypt(decrypt(b)); the block results that
cincoconfig's own AesProvider produces (CBC under an all-zero recorded IV: first cipher block = E(b); a crafted
two-block value decrypts to D(b)) are the same bytes; `openssl enc -aes-256-ecb -nopad` agrees (budgeted).
"""
import os
import shutil
import subprocess

from common import g_bytes, Broken

NAME = "aesblock"
IMPORTS = "From Cinco Require Import Base Crypto Aes."
RUN = "run_aesblock"
CASE_TYPE = "(bytes * bytes)"

ZERO16 = bytes(16)
PAD16 = bytes([16]) * 16


def _ecb(key):
    from cryptography.hazmat.backends import default_backend
    from cryptography.hazmat.primitives.ciphers import Cipher, algorithms, modes
    return Cipher(algorithms.AES(key), modes.ECB(), backend=default_backend())


def block_e(key, b):
    e = _ecb(key).encryptor()
    return e.update(b) + e.finalize()


def block_d(key, b):
    d = _ecb(key).decryptor()
    return d.update(b) + d.finalize()


def rb(rng, n):
    return bytes(rng.getrandbits(8) for _ in range(n))


KAT = [
    # FIPS-197 C.3
    ("000102030405060708090a0b0c0d0e0f101112131415161718191a1b1c1d1e1f", "00112233445566778899aabbccddeeff",
     "8ea2b7ca516745bfeafc49904b496089"),
    # NIST SP 800-38A F.1.5
    ("603deb1015ca71be2b73aef0857d77811f352c073b6108d72d9810a30914dff4", "6bc1bee22e409f96e93d7e117393172a",
     "f3eed1bdb5d2a03c064b5a7e3db181f8"),
    ("603deb1015ca71be2b73aef0857d77811f352c073b6108d72d9810a30914dff4", "ae2d8a571e03ac9c9eb76fac45af8e51",
     "591ccb10d410ed26dc5ba74a31362870"),
    ("603deb1015ca71be2b73aef0857d77811f352c073b6108d72d9810a30914dff4", "30c81c46a35ce411e5fbc1191a0a52ef",
     "b6ed21b99ca6f4f9f153e7b1beafed1d"),
    ("603deb1015ca71be2b73aef0857d77811f352c073b6108d72d9810a30914dff4", "f69f2445df4f9b17ad2b417be66c3710",
     "23304b7a39f9f3ff067d8d8f9e24ecc7"),
]


def generate(rng, tier):
    cases = []

    def add(key, block, kind):
        cases.append({"key": bytes(key), "block": bytes(block), "kind": kind})
    # ---- deterministic matrix ----
    for k in (bytes(32), bytes([255]) * 32):
        for b in (ZERO16, bytes([255]) * 16):
            add(k, b, "const")
    for k, p, c in KAT:
        add(bytes.fromhex(k), bytes.fromhex(p), "kat")
        add(bytes.fromhex(k), bytes.fromhex(c), "kat")
    # single-bit keys (every key bit reaches the schedule) and single-bit blocks
    for i in range(256):
        k = bytearray(32)
        k[i // 8] = 0x80 >> (i % 8)
        add(k, ZERO16, "keybit")
    for i in range(128):
        b = bytearray(16)
        b[i // 8] = 0x80 >> (i % 8)
        add(bytes(32), b, "blockbit")
    # every byte value in every state position at once: the whole S-box domain in round 1 under the zero key
    for v in range(256):
        add(bytes(32), bytes([v]) * 16, "bytevalue")
    # ---- random ----
    nrand = 300 if tier == "quick" else 8000
    for _ in range(nrand):
        add(rb(rng, 32), rb(rng, 16), "random")
    return cases


def gcase(c):
    return "(%s, %s)" % (g_bytes(c["key"]), g_bytes(c["block"]))


def _provider_blocks(key, b):
    """E(b) and D(b) as cincoconfig's AesProvider (CBC + PKCS7) computes them, under an all-zero IV"""
    import os as _os
    from cincoconfig.encryption import AesProvider
    real = _os.urandom

    def fake(n):
        if n != 16:
            raise Broken("unexpected os.urandom(%d)" % n)
        return ZERO16
    _os.urandom = fake
    try:
        prov = AesProvider(key)
        e = prov.encrypt(b)[16:32]                                   # first CBC block, IV = 0
        tail = prov.encrypt(bytes(x ^ y for x, y in zip(b, PAD16)))[16:32]   # E(b xor pad): block 2 decrypts to a full pad
        d = prov.decrypt(ZERO16 + b + tail)                          # = D(b) xor 0, padding block stripped
    finally:
        _os.urandom = real
    return bytes(e), bytes(d)


def impl(c):
    try:
        obs = (block_e(c["key"], c["block"]), block_d(c["key"], c["block"]))
    except Exception as e:  # noqa
        return ("err", type(e).__name__)
    try:
        c["_prov"] = _provider_blocks(c["key"], c["block"])
    except Broken:
        raise
    except Exception as e:  # noqa
        c["_prov"] = ("err", type(e).__name__)
    return obs


_OPENSSL = shutil.which("openssl")
_budget = [0]


def openssl_ecb(key, b, decrypt):
    p = subprocess.run([_OPENSSL, "enc", "-aes-256-ecb", "-nopad", "-K", key.hex()] + (["-d"] if decrypt else []),
                       input=b, capture_output=True, timeout=30)
    return p.stdout if p.returncode == 0 else None


def oracle(c, obs):
    bad = []
    if obs[0] == "err":
        return ["AES-ECB primitive failed: %r" % (obs,)]
    e, d = obs
    key, b = c["key"], c["block"]
    if len(e) != 16 or len(d) != 16:
        bad.append("block result is not 16 bytes")
    if block_d(key, e) != b:
        bad.append("AES block decrypt(encrypt(b)) != b")
    if block_e(key, d) != b:
        bad.append("AES block encrypt(decrypt(b)) != b")
    if c.get("_prov") != (e, d):
        bad.append("cincoconfig AesProvider does not compute the AES-256 block function of its key "
                   "(zero-IV CBC block differs from AES-ECB of the same key)")
    for k, p, ct in KAT:
        if key == bytes.fromhex(k) and b == bytes.fromhex(p) and e != bytes.fromhex(ct):
            bad.append("published AES-256 known answer not reproduced")
    if _OPENSSL and _budget[0] < c.get("_openssl_max", 12):
        _budget[0] += 1
        if openssl_ecb(key, b, False) != e or openssl_ecb(key, b, True) != d:
            bad.append("openssl enc -aes-256-ecb disagrees with cryptography's AES-ECB")
    return bad


def tags(c, obs):
    return {c["kind"]}


def nontrivial(c, obs):
    return True
