"""
stream `stubs` (C20): generate_stub(schema | config | config type, class_name) on random schemas over
every built-in field kind, nested schemas, config types, typed lists/dicts, virtual fields and
instance methods with random signatures.  The real text is compared character for character with
Stubs.v (`run_stubs`), and what Python's `ast` module makes of the real text is compared with what the
fragment parser of Stubs.v makes of the model's text.  The direct oracle never looks at the model.

A case is plain data:
  {"target": "schema"|"config"|"type"|"other", "class_name": str|None, "type_name": str,
   "fields": [[key, recipe], ...], "domain": bool}
  recipe = ["f", kind] | ["schema", fields] | ["ct", name] | ["method", "<def source>"]
"""
import ast
import contextlib
import inspect
import io
import keyword

from common import g_str, g_list, g_opt

NAME = "stubs"
IMPORTS = "From Cinco Require Import Base Stubs."
RUN = "run_stubs_hist"
CASE_TYPE = "(target * option str * list (str * fkind) * list (list (str * fkind)))"


# ---------------------------------------------------------------------------------------------
# building the real objects from a recipe
# ---------------------------------------------------------------------------------------------
def _custom_types():
    import cincoconfig  # noqa
    CustomT = type("CustomType", tuple(), {})
    CustomT.__module__ = "a.b.c"
    NoMod = type("NoMod", tuple(), {})
    NoMod.__module__ = None
    return CustomT, NoMod


class Outer:
    """class-nested types: __qualname__ = "Outer.Inner..." differs from __name__"""
    class Inner:
        pass

    class Deep:
        class Leaf:
            pass


def _local_types():
    """types defined by `class` statements inside a function: __qualname__ contains "<locals>" """
    import cincoconfig as cc
    from cincoconfig.core import ConfigType
    inner = cc.Schema()
    inner.port = cc.IntField(default=1)

    class Endpoint(ConfigType):      # function-local config type
        __schema__ = inner

    class Local:                     # function-local annotation / storage class
        pass

    class Holder:                    # function-local class with a nested class
        class Item:
            pass
    inner2 = cc.Schema()
    inner2.url = cc.StringField()

    class NestedCT:
        class Hook(ConfigType):      # config type nested in a (function-local) class
            __schema__ = inner2
    return {"Endpoint": Endpoint, "Local": Local, "LocalItem": Holder.Item, "Hook": NestedCT.Hook}


def _field_builders():
    import cincoconfig as cc
    from cincoconfig.core import Field
    CustomT, NoMod = _custom_types()
    LT = _local_types()

    def sub():
        s = cc.Schema()
        s.q = cc.IntField()
        return s

    def with_st(st):
        f = Field()
        f.storage_type = st
        return f
    return {
        "int": lambda: cc.IntField(), "str": lambda: cc.StringField(), "float": lambda: cc.FloatField(),
        "bool": lambda: cc.BoolField(), "bytes": lambda: cc.BytesField(), "field": lambda: Field(),
        "number_int": lambda: cc.NumberField(int), "number_float": lambda: cc.NumberField(float),
        "port": lambda: cc.PortField(), "ipv4": lambda: cc.IPv4AddressField(), "ipv4net": lambda: cc.IPv4NetworkField(),
        "hostname": lambda: cc.HostnameField(), "filename": lambda: cc.FilenameField(), "url": lambda: cc.UrlField(),
        "loglevel": lambda: cc.LogLevelField(), "appmode": lambda: cc.ApplicationModeField(),
        "include": lambda: cc.IncludeField(), "featureflag": lambda: cc.FeatureFlagField(),
        "challenge": lambda: cc.ChallengeField(), "secure": lambda: cc.SecureField(),
        "list": lambda: cc.ListField(), "list_int": lambda: cc.ListField(cc.IntField()),
        "list_str": lambda: cc.ListField(cc.StringField()), "list_list_int": lambda: cc.ListField(cc.ListField(cc.IntField())),
        "list_dict": lambda: cc.ListField(cc.DictField(cc.StringField(), cc.FloatField())),
        "list_sub": lambda: cc.ListField(sub()), "list_ct": lambda: cc.ListField(cc.make_type(sub(), "Item")),
        "list_challenge": lambda: cc.ListField(cc.ChallengeField()), "list_any": lambda: cc.ListField(Field()),
        "dict": lambda: cc.DictField(), "dict_str_int": lambda: cc.DictField(cc.StringField(), cc.IntField()),
        "dict_str": lambda: cc.DictField(cc.StringField()), "dict_val_bool": lambda: cc.DictField(None, cc.BoolField()),
        "dict_str_listint": lambda: cc.DictField(cc.StringField(), cc.ListField(cc.IntField())),
        "dict_str_listsub": lambda: cc.DictField(cc.StringField(), cc.ListField(sub())),
        "virtual": lambda: cc.VirtualField(lambda c: 1), "virtual_rw": lambda: cc.VirtualField(lambda c: 2, lambda c, v: None),
        "st_str": lambda: with_st("asdf"), "st_empty": lambda: with_st(""), "st_custom": lambda: with_st(CustomT),
        "st_nomod": lambda: with_st(NoMod), "st_optional": lambda: with_st(__import__("typing").Optional[int]),
        # types whose __qualname__ differs from __name__ (a config type class becomes a ConfigTypeField)
        "local_ct": lambda: LT["Endpoint"], "nested_local_ct": lambda: LT["Hook"],
        "st_local": lambda: with_st(LT["Local"]), "st_local_nested": lambda: with_st(LT["LocalItem"]),
        "st_nested": lambda: with_st(Outer.Inner), "st_deep": lambda: with_st(Outer.Deep.Leaf),
        "st_list_nested": lambda: with_st(__import__("typing").List[Outer.Inner]),
        "st_dict_deep": lambda: with_st(__import__("typing").Dict[str, Outer.Deep.Leaf]),
        # region of the open finding F52: a function-local class inside a typing construct
        "list_local_ct": lambda: cc.ListField(LT["Endpoint"]), "list_nested_local_ct": lambda: cc.ListField(LT["Hook"]),
        "dict_str_local": lambda: cc.DictField(cc.StringField(), with_st(LT["Local"])),
        "st_optional_local": lambda: with_st(__import__("typing").Optional[LT["Local"]]),
    }


def _default_builders():
    """kind -> (constructor taking default=..., a valid constant default); challenge / secure fields are left
    out on purpose (their stored form is salted / encrypted per configuration)"""
    import cincoconfig as cc
    from cincoconfig.core import Field

    def sub():
        s = cc.Schema()
        s.q = cc.IntField()
        return s
    return {
        "int": (lambda **kw: cc.IntField(**kw), 5), "str": (lambda **kw: cc.StringField(**kw), "x"),
        "float": (lambda **kw: cc.FloatField(**kw), 1.5), "bool": (lambda **kw: cc.BoolField(**kw), True),
        "bytes": (lambda **kw: cc.BytesField(**kw), b"ab"), "field": (lambda **kw: Field(**kw), "any"),
        "number_int": (lambda **kw: cc.NumberField(int, **kw), 3), "number_float": (lambda **kw: cc.NumberField(float, **kw), 2.5),
        "port": (lambda **kw: cc.PortField(**kw), 8080), "ipv4": (lambda **kw: cc.IPv4AddressField(**kw), "10.0.0.1"),
        "ipv4net": (lambda **kw: cc.IPv4NetworkField(**kw), "10.0.0.0/8"),
        "hostname": (lambda **kw: cc.HostnameField(**kw), "localhost"),
        "filename": (lambda **kw: cc.FilenameField(**kw), "a.txt"), "url": (lambda **kw: cc.UrlField(**kw), "http://a.b/"),
        "loglevel": (lambda **kw: cc.LogLevelField(**kw), "info"),
        "appmode": (lambda **kw: cc.ApplicationModeField(**kw), "production"),
        "include": (lambda **kw: cc.IncludeField(**kw), "inc.json"),
        "featureflag": (lambda **kw: cc.FeatureFlagField(**kw), True),
        "list": (lambda **kw: cc.ListField(**kw), [1, "a"]), "list_int": (lambda **kw: cc.ListField(cc.IntField(), **kw), [1, 2]),
        "list_str": (lambda **kw: cc.ListField(cc.StringField(), **kw), ["a"]),
        "list_list_int": (lambda **kw: cc.ListField(cc.ListField(cc.IntField()), **kw), [[1], []]),
        "list_sub": (lambda **kw: cc.ListField(sub(), **kw), [{"q": 1}]),
        "list_ct": (lambda **kw: cc.ListField(cc.make_type(sub(), "Item"), **kw), [{"q": 2}]),
        "dict": (lambda **kw: cc.DictField(**kw), {"a": 1}),
        "dict_str_int": (lambda **kw: cc.DictField(cc.StringField(), cc.IntField(), **kw), {"a": 1}),
        "dict_str_listint": (lambda **kw: cc.DictField(cc.StringField(), cc.ListField(cc.IntField()), **kw), {"a": [1]}),
    }


DEFAULT_KINDS = ["int", "str", "float", "bool", "bytes", "field", "number_int", "number_float", "port", "ipv4", "ipv4net",
                 "hostname", "filename", "url", "loglevel", "appmode", "include", "featureflag", "list", "list_int",
                 "list_str", "list_list_int", "list_sub", "list_ct", "dict", "dict_str_int", "dict_str_listint"]
DEFAULT_MODES = ["const", "callable", "none"]


def build_field(rec):
    """["f", kind] | ["f", kind, "const"|"callable"|"none"|None] (constructed with default=...) |
    ["f", kind, mode, {"help": text, "name": text}] (constructed with help= / name=)"""
    import copy
    from cincoconfig.core import Field
    mode = rec[2] if len(rec) > 2 else None
    opts = dict(rec[3]) if len(rec) > 3 and rec[3] else {}
    if rec[1] in DEFAULT_KINDS:
        ctor, const = _default_builders()[rec[1]]
        kw = dict(opts)
        if mode == "const":
            kw["default"] = copy.deepcopy(const)
        elif mode == "callable":
            kw["default"] = lambda v=const: copy.deepcopy(v)
        elif mode == "none":
            kw["default"] = None
        return ctor(**kw)
    f = _field_builders()[rec[1]]()
    if isinstance(f, Field):
        # what Field.__init__ does with help= / name= (these builders take no keyword arguments)
        if opts.get("help"):
            f.help = opts["help"].strip() or None
        if "name" in opts:
            f._name = opts["name"]
    return f


FIELD_KINDS_F52 = ["list_local_ct", "list_nested_local_ct", "dict_str_local", "st_optional_local"]
ANNS_F52 = ["Optional[Local]", "List[Endpoint]", "Dict[str, LocalItem]"]
POOL_F52 = [
    "def f(cfg, a: int, b: Optional[Local] = None): pass",
    "def f(cfg, a) -> List[Endpoint]: pass",
]


FIELD_KINDS = ["int", "str", "float", "bool", "bytes", "field", "number_int", "number_float", "port", "ipv4", "ipv4net",
               "hostname", "filename", "url", "loglevel", "appmode", "include", "featureflag", "challenge", "secure",
               "list", "list_int", "list_str", "list_list_int", "list_dict", "list_sub", "list_ct", "list_challenge",
               "list_any", "dict", "dict_str_int", "dict_str", "dict_val_bool", "dict_str_listint", "dict_str_listsub",
               "virtual", "virtual_rw", "st_str", "st_empty", "st_custom", "st_nomod", "st_optional",
               "local_ct", "nested_local_ct", "st_local", "st_local_nested", "st_nested", "st_deep", "st_list_nested",
               "st_dict_deep"]


def _method_ns():
    import typing
    from cincoconfig.core import Config
    import functools
    ns = {"typing": typing, "Config": Config, "Outer": Outer, "functools": functools}
    ns.update(_local_types())
    for n in ("Optional", "List", "Dict", "Callable", "Tuple", "Union", "Sequence", "Literal", "Any", "Set", "Type"):
        ns[n] = getattr(typing, n)
    return ns


def build(fields, dynamic=False):
    """recipe list -> (Schema, {key: function}); ["dschema", fields] is a nested Schema(dynamic=True)"""
    import cincoconfig as cc
    s = cc.Schema(dynamic=True) if dynamic else cc.Schema()
    fns = {}
    for key, rec in fields:
        add_entry(s, fns, key, rec)
    return s, fns


def add_entry(s, fns, key, rec):
    """add (or replace, when the key exists) one entry of a schema"""
    import cincoconfig as cc
    if True:
        if rec[0] == "f":
            s._add_field(key, build_field(rec))
        elif rec[0] in ("schema", "dschema"):
            sub, _ = build(rec[1], dynamic=rec[0] == "dschema")
            s._add_field(key, sub)
        elif rec[0] == "ct":
            sub = cc.Schema()
            sub.n = cc.IntField()
            sub.name = cc.StringField()
            s._add_field(key, cc.make_type(sub, rec[1]))
        elif rec[0] == "method":
            ns = _method_ns()
            exec(rec[1], ns)
            fn = ns["f"]
            cc.instance_method(s, key)(fn)
            fns[key] = fn
        else:
            raise ValueError(rec)
    if rec[0] != "method":
        fns.pop(key, None)


# ---------------------------------------------------------------------------------------------
# describing the real objects to the model (never through stubs.py)
# ---------------------------------------------------------------------------------------------
def d_sty(st):
    if isinstance(st, type):
        return ("class", getattr(st, "__module__", None) or "", st.__name__)
    return ("repr", str(st))


def d_aobj(x):
    from cincoconfig.core import Field, ConfigTypeField, Schema
    if isinstance(x, Field):
        return ("afield", d_sty(x.storage_type))
    if isinstance(x, ConfigTypeField):
        return ("act", d_sty(x.config_type))
    if isinstance(x, Schema):
        return ("aschema",)
    if isinstance(x, type):
        return ("atype", getattr(x, "__module__", None) or "", x.__name__)
    if isinstance(x, str):
        return ("astr", x)
    if x is None:
        return ("anone",)
    if type(x).__module__ in ("typing", "types"):
        return ("atyping", str(x))
    return ("aother",)


def d_argspec(fn):
    sp = inspect.getfullargspec(fn)
    return ("spec", list(sp.args), sp.varargs, sp.varkw, len(sp.defaults or ()), list(sp.kwonlyargs),
            list((sp.kwonlydefaults or {}).keys()), [(k, d_aobj(v)) for k, v in sp.annotations.items()])


def d_fields(schema):
    from cincoconfig.fields import VirtualField, InstanceMethodField
    out = []
    for key, f in schema._fields.items():
        if isinstance(f, VirtualField):
            out.append((key, ("virtual", d_aobj(f))))
        elif isinstance(f, InstanceMethodField):
            out.append((key, ("method", d_argspec(f.method))))
        else:
            out.append((key, ("field", d_aobj(f))))
    return out


def g_sty(d):
    if d[0] == "class":
        return "(SClass %s %s)" % (g_str(d[1]), g_str(d[2]))
    return "(SRepr %s)" % g_str(d[1])


def g_aobj(d):
    t = d[0]
    if t == "afield":
        return "(AField %s)" % g_sty(d[1])
    if t == "act":
        return "(AConfigType %s)" % g_sty(d[1])
    if t == "aschema":
        return "ASchema"
    if t == "atype":
        return "(AType %s %s)" % (g_str(d[1]), g_str(d[2]))
    if t == "astr":
        return "(AStr %s)" % g_str(d[1])
    if t == "anone":
        return "ANone"
    if t == "atyping":
        return "(ATyping %s)" % g_str(d[1])
    return "AOther"


def g_spec(d):
    _, args, va, vk, nd, kwo, kwd, anns = d
    return "(mk_argspec %s %s %s (n_ %d) %s %s %s)" % (
        g_list(args, g_str), g_opt(va, g_str), g_opt(vk, g_str), nd, g_list(kwo, g_str), g_list(kwd, g_str),
        g_list(anns, lambda kv: "(%s,%s)" % (g_str(kv[0]), g_aobj(kv[1]))))


def g_fkind(d):
    if d[0] == "virtual":
        return "(KVirtual %s)" % g_aobj(d[1])
    if d[0] == "method":
        return "(KMethod %s)" % g_spec(d[1])
    return "(KField %s)" % g_aobj(d[1])


def describe(c):
    """model input of a case: (target literal, class_name, described fields); cached under _desc"""
    if "_desc" not in c:
        schema, fns = build(c["fields"], c.get("dynamic", False))
        c["_desc"] = d_fields(schema)
        c["_hist_desc"] = []
        for op in c.get("history") or []:
            add_entry(schema, fns, op[1], op[2])
            c["_hist_desc"].append(d_fields(schema))
    return c["_desc"]


def gcase(c):
    desc = describe(c)
    tgt = {"schema": "TgtSchema", "config": "TgtConfig", "other": "TgtOther",
           "type": "(TgtType %s)" % g_str(c.get("type_name") or "T")}[c["target"]]
    def g_fields(d):
        return g_list(d, lambda kf: "(%s,%s)" % (g_str(kf[0]), g_fkind(kf[1])))
    return "(%s, %s, %s, %s)" % (tgt, g_opt(c["class_name"], g_str), g_fields(desc),
                                 g_list(c.get("_hist_desc") or [], g_fields))


# ---------------------------------------------------------------------------------------------
# running the implementation
# ---------------------------------------------------------------------------------------------
def snap_schema(schema):
    """field table of a schema, nested schemas and config types included (reads _fields only)"""
    from cincoconfig.core import Schema, ConfigTypeField
    out = []
    for k, f in schema._fields.items():
        sub = None
        if isinstance(f, Schema):
            sub = snap_schema(f)
        elif isinstance(f, ConfigTypeField):
            sub = snap_schema(f.config_type.__schema__)
        out.append((k, id(f), type(f).__name__, repr(getattr(f, "storage_type", None)) if not isinstance(f, Schema) else "", sub))
    return out


def seg(text, node):
    return None if node is None else ast.get_source_segment(text, node)


def py_projection(text):
    """what Python's own parser makes of the stub, in the shape of Stubs.o_stub; None if it is not
    a stub of the expected form"""
    try:
        tree = ast.parse(text)
    except SyntaxError:
        return None
    if len(tree.body) != 1 or not isinstance(tree.body[0], ast.ClassDef):
        return None
    cls = tree.body[0]
    attrs, defs = [], []
    for n in cls.body:
        if isinstance(n, ast.AnnAssign) and isinstance(n.target, ast.Name) and n.value is None and not defs:
            attrs.append((n.target.id, seg(text, n.annotation)))
        elif isinstance(n, ast.FunctionDef):
            defs.append(n)
        else:
            return None
    if not defs or defs[0].name != "__init__":
        return None

    def margs(fn):
        a = fn.args
        if a.posonlyargs or a.defaults or any(d is not None for d in a.kw_defaults):
            return None
        if (a.vararg and a.vararg.annotation) or (a.kwarg and a.kwarg.annotation):
            return None
        return (fn.name, [(x.arg, seg(text, x.annotation)) for x in a.args], a.vararg.arg if a.vararg else None,
                [(x.arg, seg(text, x.annotation)) for x in a.kwonlyargs], a.kwarg.arg if a.kwarg else None,
                seg(text, fn.returns))
    init = margs(defs[0])
    if init is None or init[2] is not None or init[3] or init[4] is not None or init[5] is not None:
        return None
    if not init[1] or init[1][0] != ("self", None) or any(t is None for _, t in init[1][1:]):
        return None
    methods = [margs(d) for d in defs[1:]]
    if any(m is None for m in methods):
        return None
    return (cls.name, attrs, init[1][1:], methods)


def sig_of(fn):
    """(positional names, vararg, keyword-only names, kwarg) of the bound function: the signature of
    the function minus its leading config parameter"""
    # the bound function is the callable that was registered (a functools.wraps wrapper, a partial ...):
    # what config.<name>(...) accepts, so wrapper chains are not followed
    ps = list(inspect.signature(fn, follow_wrapped=False).parameters.values())
    if ps and ps[0].kind in (ps[0].POSITIONAL_ONLY, ps[0].POSITIONAL_OR_KEYWORD):
        ps = ps[1:]
    pos = [p.name for p in ps if p.kind in (p.POSITIONAL_ONLY, p.POSITIONAL_OR_KEYWORD)]
    va = [p.name for p in ps if p.kind == p.VAR_POSITIONAL]
    kwo = [p.name for p in ps if p.kind == p.KEYWORD_ONLY]
    vk = [p.name for p in ps if p.kind == p.VAR_KEYWORD]
    return (pos, va[0] if va else None, kwo, vk[0] if vk else None)


def _ident(s):
    return isinstance(s, str) and s.isascii() and s.isidentifier()


def _typestr_fine(t):
    if not t or "\n" in t:
        return False
    try:
        e = ast.parse("(%s)" % t, mode="eval").body
    except SyntaxError:
        return False
    return not isinstance(e, ast.Tuple) or t.strip() == "()"


def preconditions(c, schema):
    from cincoconfig.fields import InstanceMethodField
    from cincoconfig.stubs import get_annotation_typestr
    if not _ident(c["_exp_class"]):
        return False
    for k, f in schema._fields.items():
        if not _ident(k):
            return False
        if isinstance(f, InstanceMethodField):
            sp = inspect.getfullargspec(f.method)
            names = sp.args + sp.kwonlyargs + [x for x in (sp.varargs, sp.varkw) if x] + list(sp.annotations)
            if not sp.args or not all(_ident(n) for n in names):
                return False
            objs = list(sp.annotations.values())
        else:
            objs = [f]
        for o in objs:
            try:
                t = get_annotation_typestr(o)
            except TypeError:
                continue
            if not _typestr_fine(t):
                return False
    return True


def apply_runtime(cfg, ops):
    """fields added to a configuration of a dynamic schema at run time"""
    for op in ops:
        if op[0] == "set":
            cfg[op[1]] = op[2]
        else:
            cfg.load_tree(op[1])


def snap_cfg(cfg, ids=True):
    """the run-time field table of a configuration and of every nested configuration (names, identities)"""
    from cincoconfig.core import Config
    out = [[(k, id(f) if ids else type(f).__name__) for k, f in cfg._fields.items()]]
    for k, v in cfg._data.items():
        if isinstance(v, Config):
            out.append((k, snap_cfg(v, ids)))
    return out


def sub_configs(cfg, prefix=""):
    """(path, nested configuration) for every nested configuration holding run-time fields"""
    from cincoconfig.core import Config
    out = []
    for k, v in cfg._data.items():
        if isinstance(v, Config):
            if v._fields:
                out.append((prefix + k, v))
            out += sub_configs(v, prefix + k + ".")
    return out


def expectations(schema):
    from cincoconfig.fields import VirtualField, InstanceMethodField
    return ([k for k, f in schema._fields.items() if not isinstance(f, InstanceMethodField)],
            [k for k, f in schema._fields.items() if not isinstance(f, (InstanceMethodField, VirtualField))],
            [(k, sig_of(f.method)) for k, f in schema._fields.items() if isinstance(f, InstanceMethodField)])


def fn_snapshot(fns):
    """what a caller can observe of the method functions: signature, annotations, defaults"""
    def attr(fn, n):          # a functools.partial has none of these (plain functions, never Schemas)
        return repr(fn.__dict__.get(n)) if not hasattr(fn, n) else repr(getattr(fn, n))
    return [(k, str(inspect.signature(fn)), str(inspect.signature(fn, follow_wrapped=False)), attr(fn, "__annotations__"),
             attr(fn, "__defaults__"), attr(fn, "__kwdefaults__"), repr(getattr(fn, "__wrapped__", None) is not None),
             repr(inspect.getfullargspec(fn))) for k, fn in fns.items()]


def impl(c):
    import cincoconfig as cc
    from cincoconfig.fields import VirtualField, InstanceMethodField
    from cincoconfig.stubs import generate_stub
    try:
        schema, fns = build(c["fields"], c.get("dynamic", False))
        c["_desc"] = d_fields(schema)
        # expectations, from the real objects, before the call
        c["_exp_attrs"] = [k for k, f in schema._fields.items() if not isinstance(f, InstanceMethodField)]
        c["_exp_init"] = [k for k, f in schema._fields.items() if not isinstance(f, (InstanceMethodField, VirtualField))]
        c["_exp_methods"] = [(k, sig_of(f.method)) for k, f in schema._fields.items() if isinstance(f, InstanceMethodField)]
        c["_f52"] = "<locals>" in repr(c["_desc"])
        c["_noself"] = [k for k, f in schema._fields.items() if isinstance(f, InstanceMethodField)
                        and not inspect.getfullargspec(f.method).args]
        cfg = None
        cfg_rt = None
        if c.get("runtime"):
            # a configuration of the (dynamic) schema that got extra fields at run time
            cfg_rt = schema()
            apply_runtime(cfg_rt, c["runtime"])
        if c["target"] == "schema":
            tgt = schema
        elif c["target"] == "config":
            tgt = cfg = (cfg_rt if cfg_rt is not None else schema())
        elif c["target"] == "type":
            tgt = cc.make_type(schema, c.get("type_name") or "T")
        else:
            tgt = 100
        c["_exp_class"] = c["class_name"] or (c.get("type_name") or "T" if c["target"] == "type" else None)
        before = snap_schema(schema)
        before_cfg = repr(cc.asdict(cfg)) if cfg is not None else None
        fn_before = fn_snapshot(fns)
        rt_before = (snap_cfg(cfg_rt), repr(cfg_rt.to_tree())) if cfg_rt is not None else None
        fresh_before = schema()
        fresh_before = (snap_cfg(fresh_before, ids=False), repr(fresh_before.to_tree()))
    except Exception as e:  # noqa
        c["_setup_error"] = "%s: %s" % (type(e).__name__, e)
        return ("err", "setup")
    buf = io.StringIO()
    try:
        with contextlib.redirect_stdout(buf):
            text = generate_stub(tgt, c["class_name"])
        out = None
    except TypeError:
        out = ("err", "type")
    except IndexError:
        out = ("err", "index")
    except Exception as e:  # noqa
        c["_exc"] = type(e).__name__
        out = ("err", "other")
    first = out if out is not None else text
    # ---- the same process generates again: same target; the schema itself; a Config built from it; a
    # sibling schema and a config type that share the method FUNCTION objects; then the original again.
    # Every generation must satisfy the whole oracle and be character-identical to the first one.
    def gen(target, name):
        try:
            with contextlib.redirect_stdout(buf):
                return generate_stub(target, name)
        except TypeError:
            return ("err", "type")
        except IndexError:
            return ("err", "index")
        except Exception:  # noqa
            return ("err", "other")
    repeats = []          # (label, result, same-shape-as-first?)
    try:
        repeats.append(("same target again", gen(tgt, c["class_name"]), True))
        if c["_exp_class"] and c["target"] != "other":
            repeats.append(("the schema", gen(schema, c["_exp_class"]), True))
            cfg2 = schema()
            repeats.append(("a configuration built from the schema", gen(cfg2, c["_exp_class"]), True))
            if cfg_rt is not None:
                repeats.append(("a configuration holding run-time fields", gen(cfg_rt, c["_exp_class"]), True))
                nested = []
                for path, sc in sub_configs(cfg_rt):
                    ea, ei, em = expectations(sc._schema)
                    nested.append((path, gen(sc, "Sub"), ea, ei, em, "<locals>" in repr(d_fields(sc._schema)),
                                   [k for k, f in sc._schema._fields.items() if isinstance(f, InstanceMethodField)
                                    and not inspect.getfullargspec(f.method).args]))
                c["_nested"] = nested
            sib = cc.Schema()
            for k, fn in fns.items():
                cc.instance_method(sib, k)(fn)
            repeats.append(("a sibling schema sharing the method functions", gen(sib, c["_exp_class"]), False))
            sib2 = cc.Schema()
            for k, fn in fns.items():
                cc.instance_method(sib2, k)(fn)
            repeats.append(("a config type sharing the method functions",
                            gen(cc.make_type(sib2, c["_exp_class"]), None), False))
            repeats.append(("the schema after the siblings", gen(schema, c["_exp_class"]), True))
        repeats.append(("same target, last", gen(tgt, c["class_name"]), True))
    except Exception as e:  # noqa
        c["_setup_error"] = "repeat: %s: %s" % (type(e).__name__, e)
    c["_repeats"] = [(lab, r, same) for lab, r, same in repeats]
    c["_first"] = first
    c["_fn_unchanged"] = fn_snapshot(fns) == fn_before
    c["_stdout"] = buf.getvalue()
    c["_unchanged"] = (snap_schema(schema) == before
                       and (cfg is None or repr(cc.asdict(cfg)) == before_cfg))
    try:
        c["_rt_unchanged"] = cfg_rt is None or (snap_cfg(cfg_rt), repr(cfg_rt.to_tree())) == rt_before
        fresh_after = schema()        # a SECOND configuration built afterwards must not carry the extras
        c["_fresh_same"] = (snap_cfg(fresh_after, ids=False), repr(fresh_after.to_tree())) == fresh_before
    except Exception as e:  # noqa
        c["_rt_unchanged"] = c["_fresh_same"] = False
    if out is not None:
        c["_text"] = None
        return out
    c["_text"] = text
    c["_precond"] = preconditions(c, schema)
    # ---- history: change the schema, generate again: the stub must be the stub of the CURRENT schema ----
    hist_obs, hist = [], []
    c["_hist_desc"] = []
    try:
        for op in c.get("history") or []:
            cfg_old = schema()
            add_entry(schema, fns, op[1], op[2])
            c["_hist_desc"].append(d_fields(schema))
            ea, ei, em = expectations(schema)
            same = gen(tgt, c["class_name"])
            # another Schema OBJECT with the very same field table (a rebuilt recipe is not the same thing:
            # e.g. a replaced ApplicationModeField leaves its helper fields behind)
            fresh_schema = cc.Schema(dynamic=bool(c.get("dynamic")))
            for k_, f_ in schema._fields.items():
                fresh_schema._fields[k_] = f_
            hist.append((op[0] + " " + op[1], same, gen(cfg_old, c["_exp_class"]), gen(schema(), c["_exp_class"]),
                         gen(fresh_schema, c["_exp_class"]), ea, ei, em))
            hist_obs.append(same)
    except Exception as e:  # noqa
        c["_setup_error"] = "history: %s: %s" % (type(e).__name__, e)
    c["_hist"] = hist
    c["_stdout"] = buf.getvalue()
    proj = py_projection(text) if isinstance(text, str) else None
    # last component: do the preconditions of the C20 theorems hold for this case?  Independent of the
    # model: names are ASCII identifiers, every annotation text parses as an expression on its own,
    # and every method has a plain leading positional parameter
    return ("ok", text, proj, buf.getvalue().splitlines(), c.pop("_precond"), hist_obs)


# ---------------------------------------------------------------------------------------------
# direct oracle: the property itself, on the implementation only
# ---------------------------------------------------------------------------------------------
def check_text(text, exp_class, exp_attrs, exp_init, exp_methods):
    """the property clauses about one generated text"""
    bad = []
    if not isinstance(text, str):
        return ["generate_stub did not return a string"]
    try:
        tree = ast.parse(text)
        compile(text, "<stub>", "exec")      # the WHOLE text, also what only the compiler rejects
    except (SyntaxError, ValueError):
        return ["the generated stub is not valid Python"]
    classes = [n for n in tree.body if isinstance(n, ast.ClassDef)]
    if len(classes) != 1 or len(tree.body) != 1:
        return ["the stub does not declare exactly one class"]
    cls = classes[0]
    if cls.name != exp_class:
        bad.append("the class is not named as requested")
    attrs = [n.target.id for n in cls.body if isinstance(n, ast.AnnAssign) and isinstance(n.target, ast.Name)]
    if attrs != exp_attrs:
        bad.append("annotated attributes differ from the non-method fields")
    fns = [n for n in cls.body if isinstance(n, ast.FunctionDef)]
    names = [n.name for n in fns]
    inits = [n for n in fns if n.name == "__init__"]
    if len(inits) != 1:
        bad.append("the stub does not declare exactly one __init__")
    else:
        a = inits[0].args
        got = [x.arg for x in a.posonlyargs + a.args]
        if got != ["self"] + exp_init or a.vararg or a.kwonlyargs or a.kwarg or a.posonlyargs:
            bad.append("__init__ parameters differ from self + the persistent fields")
        if any(x.annotation is None for x in a.args[1:]):
            bad.append("an __init__ parameter has no annotation")
    if sorted(n for n in names if n != "__init__") != sorted(k for k, _ in exp_methods):
        bad.append("the methods of the stub differ from the instance methods of the schema")
    for k, want in exp_methods:
        for n in fns:
            if n.name == k:
                a = n.args
                pos = [x.arg for x in a.args]
                got = (pos[1:], a.vararg.arg if a.vararg else None, [x.arg for x in a.kwonlyargs],
                       a.kwarg.arg if a.kwarg else None)
                if a.posonlyargs or not pos or got != (list(want[0]), want[1], list(want[2]), want[3]):
                    bad.append("method %s: parameter names/kinds differ from the bound function" % k)
    return bad


def oracle(c, obs):
    if "_setup_error" in c:
        return ["harness could not build the case: " + c["_setup_error"]]
    bad = []

    def add(msgs):
        for m in msgs:
            if m not in bad:
                bad.append(m)
    if c.get("_stdout"):
        bad.append("generate_stub wrote to standard output")
    if not c.get("_unchanged"):
        bad.append("generate_stub changed the schema or the configuration")
    if not c.get("_rt_unchanged", True):
        bad.append("generate_stub changed a configuration that holds run-time fields")
    if not c.get("_fresh_same", True):
        bad.append("a configuration built from the schema after generate_stub differs from one built before")
    for path, r, ea, ei, em, f52, noself in c.get("_nested", []):
        if isinstance(r, tuple):
            add(["generate_stub raised for the nested dynamic configuration %s" % path])
        else:
            msgs = check_text(r, "Sub", list(ea), list(ei), [(k, w) for k, w in em])
            # the nested schema itself lies in the region of the open finding F52
            # ... or holds a method in the region of the open finding F45 (both are raised at the root only)
            f45 = ["method %s: parameter names/kinds differ from the bound function" % k for k in noself]
            add([m for m in msgs if not (f52 and m == "the generated stub is not valid Python") and m not in f45])
    for lab, same, t_old, t_new, t_fresh, ea, ei, em in c.get("_hist", []):
        if isinstance(same, tuple) or isinstance(t_fresh, tuple):
            add(["generate_stub raised after the schema was changed (%s)" % lab])
            continue
        if same != t_fresh:
            add(["after a schema change (%s) generate_stub does not return the stub of the current schema" % lab])
        if t_old != same or t_new != same:
            add(["after a schema change (%s) the stubs of the target and of configurations built before / after "
                 "the change differ" % lab])
        add(check_text(same, c["_exp_class"], list(ea), list(ei), [(k, w) for k, w in em]))
    if not c.get("_fn_unchanged", True):
        bad.append("generate_stub changed the signature / annotations / defaults of a method function")
    first = c.get("_first")
    # every further generation in the same process: identical to the first, and the whole oracle again
    for lab, r, same in c.get("_repeats", []):
        if isinstance(r, tuple):
            if not isinstance(first, tuple) or (same and tuple(first) != tuple(r)):
                add(["generating again (%s) raised although the first generation did not" % lab])
            continue
        if same:
            if r != first:
                add(["generating again (%s) does not give the text of the first generation" % lab])
            add(check_text(r, c["_exp_class"], c["_exp_attrs"], c["_exp_init"], c["_exp_methods"]))
        else:
            add(check_text(r, c["_exp_class"], [], [], c["_exp_methods"]))
    if obs[0] == "err":
        if c.get("domain", True):
            bad.append("generate_stub raised (%s) for a schema inside the property's domain" % obs[1])
        return bad
    add(check_text(c["_text"], c["_exp_class"], c["_exp_attrs"], c["_exp_init"], c["_exp_methods"]))
    return bad


def classify(c, msg):
    # F52: a function-local class inside a typing construct is rendered through str() -> "<locals>"
    if c.get("_f52") and (msg == "the generated stub is not valid Python" or msg == "model/implementation disagreement"):
        return "F52"
    # F45: an instance method whose function has no plain leading positional parameter
    if c.get("_noself") and ("parameter names/kinds differ" in msg):
        k = msg.split()[1].rstrip(":")
        if k in c["_noself"]:
            return "F45"
    return None


def tags(c, obs):
    t = {"target=" + c["target"], "outcome=" + obs[0]}
    if not c.get("domain", True):
        t.add("outside-domain")
    nm = 0
    for key, rec in c["fields"]:
        if rec[0] == "f":
            t.add("kind=" + rec[1])
            if len(rec) > 2 and rec[2]:
                t.add("default=" + rec[2])
        elif rec[0] == "method":
            nm += 1
            src = rec[1]
            head = src[:src.rindex(")")]
            if "**" in head:
                t.add("sig:**kw")
            if "*a" in head:
                t.add("sig:*args")
            if ", *, " in head:
                t.add("sig:bare*")
            if "=" in head:
                t.add("sig:default")
            if "->" in src:
                t.add("sig:return")
            if "functools.wraps" in src:
                t.add("sig:wraps")
            if "functools.partial" in src:
                t.add("sig:partial")
            if "[" in src:
                t.add("sig:typing")
        else:
            t.add("kind=" + rec[0])
    t.add("methods=%d" % min(nm, 3))
    t.add("fields=%d" % min(len(c["fields"]) - nm, 4))
    if c.get("_noself"):
        t.add("F45-region")
    if c.get("_f52"):
        t.add("F52-region")
    for op in c.get("history") or []:
        t.add("history:%s-%s" % (op[0], op[2][0]))
    if any(len(rec) > 3 and rec[3] for _, rec in c["fields"] if rec[0] == "f"):
        t.add("help/name")
    if c.get("dynamic"):
        t.add("dynamic-root")
    if c.get("runtime"):
        t.add("runtime-fields=%d" % min(len(c["runtime"]), 3))
        if any(op[0] == "load" for op in c["runtime"]):
            t.add("runtime:load_tree")
        if any(op[0] == "set" and "." in op[1] for op in c["runtime"]):
            t.add("runtime:nested")
    return t


def nontrivial(c, obs):
    return obs[0] == "ok" and len(c["fields"]) > 0


# ---------------------------------------------------------------------------------------------
# generators
# ---------------------------------------------------------------------------------------------
ANNS = ["int", "str", "float", "bool", "bytes", "None", "object", "typing.Any", "Optional[int]", "List[str]",
        "Dict[str, int]", "list[int]", "int | None", "Callable[..., int]", "Callable[[int, str], bool]",
        "Tuple[int, str]", "Tuple[()]", "Union[int, str]", "'Foo'", "'a.b.C'", "Config", "Optional['Foo']",
        "typing.List[typing.Dict[str, typing.Optional[int]]]", "dict[str, list[int]]", "Sequence[int]",
        "Literal['a', 'b']", "Set[int]", "Type[int]", "List", "''",
        # classes whose __qualname__ differs from __name__: function-local, class-nested
        "Local", "Endpoint", "LocalItem", "Hook", "Outer.Inner", "Outer.Deep.Leaf", "List[Outer.Inner]",
        "Optional[Outer.Deep.Leaf]"]

# hand-written pool: every parameter kind, annotated with builtins / typing constructs / not at all,
# with and without a return annotation
POOL = [
    "def f(cfg): pass",
    "def f(cfg) -> None: pass",
    "def f(cfg) -> int: return 1",
    "def f(cfg: Config) -> 'Foo': pass",
    "def f(self): pass",
    "def f(cfg, a): pass",
    "def f(cfg, a, b, c): pass",
    "def f(cfg, a: int): pass",
    "def f(cfg, a: int, b: str = 'x') -> str: pass",
    "def f(cfg, a=1): pass",
    "def f(cfg, a=None, b=2): pass",
    "def f(cfg, a: Optional[int] = None) -> Optional[int]: pass",
    "def f(cfg, a: List[str], b: Dict[str, int]) -> List[int]: pass",
    "def f(cfg, a: list[int], b: int | None = None) -> dict[str, int]: pass",
    "def f(cfg, a: Callable[..., int], b: Tuple[int, str]) -> Callable[[int], str]: pass",
    "def f(cfg, a: 'Foo', b: 'a.b.C' = None) -> 'Foo': pass",
    "def f(cfg, *args): pass",
    "def f(cfg, *args: int): pass",
    "def f(cfg, a, *args) -> None: pass",
    "def f(cfg, a: int = 3, *rest: str) -> int: pass",
    "def f(cfg, **kwargs): pass",
    "def f(cfg, **kw: int) -> None: pass",
    "def f(cfg, a, **kwargs): pass",
    "def f(cfg, *args, **kwargs): pass",
    "def f(cfg, a: int, *args: int, **kwargs: str) -> bool: pass",
    "def f(cfg, *, k): pass",
    "def f(cfg, *, k=1): pass",
    "def f(cfg, *, k: int, j: str = 'x') -> None: pass",
    "def f(cfg, a, *, k): pass",
    "def f(cfg, a: int = 1, *, k: Optional[int] = None) -> int: pass",
    "def f(cfg, *args, k): pass",
    "def f(cfg, *args: int, k: int = 0, j) -> None: pass",
    "def f(cfg, a, *args, k, **kw): pass",
    "def f(cfg, a: int, b: str = None, *args, z=None, **kwargs) -> int: pass",
    "def f(cfg, x: int, y: str = None, *, z=None, **kwargs) -> int: pass",
    "def f(cfg, *, k, **kw): pass",
    "def f(cfg, *, k: Dict[str, List[int]], **kw: Any) -> Dict[str, Any]: pass",
    "def f(cfg, a: Union[int, str], b: Literal['a', 'b'] = 'a') -> Union[int, None]: pass",
    "def f(cfg, a: typing.Any, b: object, c: type) -> typing.Any: pass",
    "def f(cfg, a: Sequence[int], b: Set[str], c: Type[int]) -> Tuple[()]: pass",
    "def f(cfg, a: None, b: bytes = b'') -> bytes: pass",
    "def f(cfg, a: Config, b: Optional['Foo'] = None) -> Config: pass",
    "def f(cfg: 'Config', a: float, b: bool) -> float: pass",
    "def f(cfg, a: '') -> '': pass",
    "def f(cfg, target: Endpoint, retries: int = 3) -> Local: pass",
    "def f(cfg, a: Local, *, k: LocalItem = None) -> Hook: pass",
    "def f(cfg, a: Outer.Inner, b: Outer.Deep.Leaf = None) -> Outer.Inner: pass",
    "def f(cfg, a: List[Outer.Inner], *args, k: Dict[str, Outer.Deep.Leaf]) -> Optional[Outer.Inner]: pass",
]
# region of the open finding F45: no plain leading positional parameter
POOL_F45 = [
    "def f(*args): pass",
    "def f(*args, **kw): pass",
    "def f(*args, k=1): pass",
    "def f(*args: int, k, **kw) -> int: pass",
]
# outside the property's domain: an annotation that is not a type / typing construct / string
POOL_OUT = [
    ("def f(cfg, a: 5): pass", False),                  # TypeError
    ("def f(cfg, a) -> 5: pass", True),                 # the return annotation is dropped, the stub is still complete
    ("def f(cfg, a: int, *, k: 3.5 = 1): pass", False),
]
# soft keywords and builtin-looking names are perfectly valid identifiers / attribute names (hard keywords and
# `self` stay outside the domain)
SOFT_KEYS = ["type", "match", "case", "_", "id", "list", "dict", "str", "int", "object", "property", "print"]
KEYS = ["a", "b", "name", "port", "snake_case", "CamelCase", "x9", "_private", "host", "items", "values", "cls", "args",
        "kwargs", "typing", "cincoconfig", "f0", "f1", "f2", "f3", "f4", "f5", "f6", "f7"] + SOFT_KEYS
MKEYS = ["m0", "m1", "m2", "run", "say_hello", "get", "__call__", "update", "filter", "format", "len", "next"]

# decorated / derived callables registered as instance methods.  The unchanged code inspects the registered
# callable itself (inspect.getfullargspec does not follow __wrapped__): the stub shows the WRAPPER's parameters,
# which is what config.<name>(...) accepts.
_INNER = "def g(cfg, conn, sql: str, limit: int = 10) -> list: return []\n"
DECOS = {
    "passthru": "def deco(func):\n    @functools.wraps(func)\n    def wrapper(cfg, *args, **kwargs): return func(cfg, *args, **kwargs)\n    return wrapper\n",
    "inject": "def deco(func):\n    @functools.wraps(func)\n    def wrapper(cfg, *args, retries=3, **kwargs): return func(cfg, None, *args, **kwargs)\n    return wrapper\n",
    "narrow": "def deco(func):\n    @functools.wraps(func)\n    def wrapper(cfg, sql): return func(cfg, None, sql)\n    return wrapper\n",
    "extra": "def deco(func):\n    @functools.wraps(func)\n    def wrapper(cfg, token: str, *args, **kwargs) -> bool: return func(cfg, *args, **kwargs)\n    return wrapper\n",
    "rename": "def deco(func):\n    @functools.wraps(func)\n    def wrapper(config, query, *, max_rows=10): return func(config, None, query, max_rows)\n    return wrapper\n",
    "twice": "def deco(func):\n    @functools.wraps(func)\n    def w1(cfg, a, b): return func(cfg, a, b)\n    @functools.wraps(w1)\n    def w2(cfg, *, only): return w1(cfg, only, only)\n    return w2\n",
}
WRAP_POOL = [DECOS[d] + _INNER + "f = deco(g)" for d in ("passthru", "inject", "narrow", "extra", "rename", "twice")] + [
    _INNER + "f = functools.partial(g, limit=5)",
    _INNER + "f = functools.partial(g, sql='x', limit=5)",
    _INNER + "f = functools.partial(g, 1)",                 # the configuration lands in the next free parameter
]
# pass-through without a leading positional parameter: region of the open finding F45
WRAP_POOL_F45 = ["def deco(func):\n    @functools.wraps(func)\n    def wrapper(*args, **kwargs): return func(*args, **kwargs)\n    return wrapper\n"
                 + _INNER + "f = deco(g)"]


def rsig(rng, f45=False):
    def ann(p=0.5):
        if rng.random() < 0.008:
            return ": " + rng.choice(ANNS_F52)
        return (": " + rng.choice(ANNS)) if rng.random() < p else ""
    params = []
    if not f45:
        params.append(rng.choice(["cfg", "cfg", "self", "config"]) + (rng.choice(["", ": Config", ": 'Config'"])))
    seen_default = False
    for j in range(rng.choice([0, 0, 1, 1, 2, 3])):
        p = "p%d%s" % (j, ann())
        if seen_default or rng.random() < 0.3:
            seen_default = True
            p += " = " + rng.choice(["None", "1", "'x'", "()"])
        params.append(p)
    star = rng.choice(["", "", "*args", "*"]) if not f45 else "*args"
    kwonly = []
    if star:
        for j in range(rng.choice([0, 1, 1, 2])):
            p = "k%d%s" % (j, ann())
            if rng.random() < 0.4:
                p += " = " + rng.choice(["None", "0"])
            kwonly.append(p)
    if star == "*" and not kwonly:
        star = ""
    if star == "*args":
        star += ann(0.25)
    if star:
        params.append(star)
        params += kwonly
    if rng.random() < 0.35:
        params.append("**kw" + ann(0.25))
    ret = (" -> " + rng.choice(ANNS)) if rng.random() < 0.5 else ""
    return "def f(%s)%s: pass" % (", ".join(params), ret)


def rfields(rng, depth=0, allow_methods=True):
    fields = []
    keys = rng.sample(KEYS, rng.choice([0, 1, 2, 3, 4, 5, 6, 8]))
    mkeys = rng.sample(MKEYS, rng.choice([0, 0, 1, 1, 2, 3])) if allow_methods else []
    allk = keys + mkeys
    rng.shuffle(allk)
    f45 = False
    for k in allk:
        if k in mkeys:
            r = rng.random()
            if r < 0.03:
                src = rng.choice(POOL_F45) if rng.random() < 0.5 else rsig(rng, f45=True)
            elif r < 0.045:
                src = rng.choice(POOL_F52)
            elif r < 0.05:
                src = WRAP_POOL_F45[0]
            elif r < 0.12:
                src = rng.choice(WRAP_POOL)
            elif r < 0.17:
                # a random inner function behind a signature-changing decorator
                src = DECOS[rng.choice(["passthru", "inject", "extra", "rename"])] + rsig(rng).replace("def f(", "def g(", 1) + "\nf = deco(g)"
            elif r < 0.35:
                src = rng.choice(POOL)
            else:
                src = rsig(rng)
            fields.append([k, ["method", src]])
        else:
            r = rng.random()
            if r < 0.08 and depth < 2:
                fields.append([k, [rng.choice(["schema", "schema", "dschema"]),
                                   rfields(rng, depth + 1, allow_methods=rng.random() < 0.3)]])
            elif r < 0.16:
                fields.append([k, ["ct", rng.choice(["CT", "Item", "Endpoint"])]])
            elif r < 0.30:
                fields.append([k, ["f", rng.choice(["virtual", "virtual_rw"])]])
            elif r < 0.31:
                fields.append([k, ["f", rng.choice(FIELD_KINDS_F52)]])
            else:
                kind = rng.choice(FIELD_KINDS)
                rec = ["f", kind]
                if kind in DEFAULT_KINDS and rng.random() < 0.45:
                    rec.append(rng.choice(DEFAULT_MODES))
                if rng.random() < 0.3:
                    rec += [None] * (3 - len(rec)) + [ropts(rng)]
                fields.append([k, rec])
    return fields


def case(fields, target="schema", class_name="Foo", type_name="T", domain=True, dynamic=False, runtime=None,
         history=None):
    c = {"target": target, "class_name": class_name, "type_name": type_name, "fields": fields, "domain": domain}
    if history:
        c["history"] = history
    if dynamic:
        c["dynamic"] = True
    if runtime:
        c["runtime"] = runtime
    return c


HELPS = ["one line", "first line\nsecond line of the first paragraph\n\nsecond paragraph", "short\n\nlong\ntext\n\nthird",
         "# leading hash", "it's \"quoted\"", "back\\slash and a tab\there", "non-ASCII: caf\u00e9 \u2603 \U0001F600",
         'triple \"\"\" quote', "trailing backslash\\", "carriage\rreturn", "form\x0cfeed", "a\nb", "  padded  ",
         "line one \\\nline two", "x: int = 5", "\n\nleading blank lines\nmore"]
NAMES = ["Friendly Name", "n", "name with # hash", "multi\nline name", "caf\u00e9"]
SAFE_CHANGES = [["f", "int"], ["f", "str", "const"], ["f", "list_int"], ["f", "virtual"], ["f", "dict_str_int", "callable"],
                ["ct", "CT"], ["schema", [["q", ["f", "int"]]]], ["dschema", []], ["f", "local_ct"], ["f", "bool", None, {"help": "h"}]]


def ropts(rng):
    o = {}
    if rng.random() < 0.8:
        o["help"] = rng.choice(HELPS)
    if rng.random() < 0.4 or not o:
        o["name"] = rng.choice(NAMES)
    return o


def rhistory(rng, fields):
    ops = []
    keys = [k for k, _ in fields]
    for _ in range(rng.choice([1, 1, 2, 3])):
        rec = ["method", rng.choice(POOL)] if rng.random() < 0.35 else list(rng.choice(SAFE_CHANGES))
        if keys and rng.random() < 0.5:
            k = rng.choice(keys)
            ops.append(["replace", k, rec])
        else:
            k = "h%d" % len(ops)
            ops.append(["add", k, rec])
            keys.append(k)
    return ops


RT_KEYS = ["rt_a", "rt_b", "build_tag", "retries", "zz"]
RT_VALUES = [1, "r1234", [1, 2], {"k": "v"}, None, 2.5, True]


def dynamic_paths(fields, dynamic_root, prefix=""):
    """dotted prefixes of the dynamic (sub-)schemas of a recipe"""
    out = [prefix] if dynamic_root else []
    for k, rec in fields:
        if rec[0] in ("schema", "dschema"):
            out += dynamic_paths(rec[1], rec[0] == "dschema", prefix + k + ".")
    return out


def rruntime(rng, fields, dynamic_root):
    paths = dynamic_paths(fields, dynamic_root)
    ops = []
    if not paths:
        return ops
    for _ in range(rng.choice([1, 1, 2, 3])):
        pre = rng.choice(paths)
        if rng.random() < 0.3:
            tree = {rng.choice(RT_KEYS): rng.choice(RT_VALUES)}
            for part in reversed([x for x in pre.split(".") if x]):
                tree = {part: tree}
            ops.append(["load", tree])
        else:
            ops.append(["set", pre + rng.choice(RT_KEYS), rng.choice(RT_VALUES)])
    return ops


def generate(rng, tier):
    cases = []
    # ---- deterministic matrix --------------------------------------------------------------
    cases.append(case([]))
    for kind in FIELD_KINDS:                                   # every field kind alone, and after a sibling
        cases.append(case([["x", ["f", kind]]]))
    # defaults: every default-capable kind with a constant default before AND after a field without one;
    # callable / None defaults before one; a defaulted field before every other kind of entry; interleavings
    req = ["req", ["f", "str"]]
    for kind in DEFAULT_KINDS:
        cases.append(case([["x", ["f", kind, "const"]], list(req)]))
        cases.append(case([list(req), ["x", ["f", kind, "const"]]]))
        cases.append(case([["x", ["f", kind, "callable"]], list(req)]))
        cases.append(case([["x", ["f", kind, "none"]], list(req)]))
    d1, d2 = ["d1", ["f", "int", "const"]], ["d2", ["f", "list_int", "callable"]]
    for follower in (["sub", ["schema", [["q", ["f", "int", "const"]], ["r", ["f", "str"]]]]], ["dsub", ["dschema", []]],
                     ["ct", ["ct", "CT"]], ["lst", ["f", "list_sub"]], ["lct", ["f", "list_ct"]], ["v", ["f", "virtual"]],
                     ["m", ["method", POOL[28]]], ["ch", ["f", "challenge"]], ["lc", ["f", "local_ct"]]):
        for tgt in ("schema", "config", "type"):
            cases.append(case([list(d1), list(follower)], target=tgt, type_name="WithDefaults"))
        cases.append(case([list(follower), list(d1)]))
        cases.append(case([list(d1), list(follower), list(d2), list(req)]))
    for perm in ([d1, req, d2], [req, d1, d2], [d1, d2, req], [d1, req, d2, ["r2", ["f", "int"]]], [d1, d2],
                 [["n1", ["f", "str", "none"]], d1, req]):
        cases.append(case([list(x) for x in perm]))
    cases.append(case([["sub", ["schema", [["q", ["f", "int"]], ["m", ["method", POOL[7]]]]]]]))
    cases.append(case([["sub", ["schema", []]]]))
    cases.append(case([["ct", ["ct", "CT"]]]))
    for src in POOL:                                           # every pool signature alone
        cases.append(case([["m", ["method", src]]]))
    for src in POOL_F45 + POOL_F52:
        cases.append(case([["m", ["method", src]]]))
    for kind in FIELD_KINDS_F52:
        cases.append(case([["a", ["f", "int"]], ["x", ["f", kind]]]))
    for src, dom in POOL_OUT:
        cases.append(case([["m", ["method", src]]], domain=dom))
    # order of virtual / persistent / method fields
    v, p, m = ["v", ["f", "virtual"]], ["p", ["f", "int"]], ["m", ["method", POOL[8]]]
    p2, m2 = ["p2", ["f", "list_sub"]], ["m2", ["method", POOL[33]]]
    for perm in ([v, p, m], [m, v, p], [p, m, v], [m, p, v], [v, m, p], [p, v, m], [v], [m], [v, m], [m, m2],
                 [p, p2], [v, p, p2, m, m2], [m2, p2, m, p, v]):
        cases.append(case([list(x) for x in perm]))
    # targets and class names
    base = [["a", ["f", "int"]], ["v", ["f", "virtual"]], ["m", ["method", POOL[28]]]]
    for tgt, cn, dom in (("schema", "Thing", True), ("schema", None, False), ("schema", "", False),
                         ("config", "Thing", True), ("config", None, False), ("config", "", False),
                         ("type", None, True), ("type", "Other", True), ("type", "", True),
                         ("other", "Thing", False), ("other", None, False)):
        cases.append(case([list(x) for x in base], target=tgt, class_name=cn, type_name="MyType", domain=dom))
        cases.append(case([], target=tgt, class_name=cn, type_name="Empty", domain=dom))
    # decorated / derived callables as instance methods
    for src in WRAP_POOL + WRAP_POOL_F45:
        cases.append(case([["a", ["f", "int"]], ["m", ["method", src]]]))
        cases.append(case([["m", ["method", src]], ["n", ["method", POOL[8]]]], target="config"))
    # soft keywords / builtin-looking names as field, nested-schema, config-type and method keys
    for k in SOFT_KEYS:
        cases.append(case([[k, ["f", "int", "const"]], ["z", ["f", "str"]]]))
        cases.append(case([["z", ["f", "str"]], [k, ["f", "virtual"]]], target="config"))
        cases.append(case([[k, ["schema", [[k, ["f", "int"]]]]]], target="type", type_name="Soft"))
        cases.append(case([[k, ["method", POOL[28]]], ["z", ["f", "str"]]]))
    cases.append(case([[k, ["f", "int"]] for k in SOFT_KEYS]))
    cases.append(case([[k, ["ct", "CT"]] for k in SOFT_KEYS[:4]]))
    cases.append(case([[k, ["method", POOL[i]]] for i, k in enumerate(SOFT_KEYS)], target="config"))
    # help= / name= texts on every field kind (the first paragraph of help is Field.short_help)
    for i, kind in enumerate(FIELD_KINDS):
        cases.append(case([["x", ["f", kind, None, {"help": HELPS[i % len(HELPS)], "name": NAMES[i % len(NAMES)]}]],
                           ["y", ["f", "int"]]]))
    for h in HELPS:
        cases.append(case([["a", ["f", "str", "const", {"help": h}]], ["v", ["f", "virtual", None, {"help": h}]],
                           ["m", ["method", POOL[8]]]], target="config"))
    for nm in NAMES:
        cases.append(case([["a", ["f", "int", None, {"name": nm}]]]))
    # histories: generate, change the schema, generate again
    hbase = [["a", ["f", "int"]], ["b", ["f", "str", "const"]], ["v", ["f", "virtual"]], ["m", ["method", POOL[8]]]]
    changes = ([["add", "c", ["f", "float"]]], [["replace", "a", ["f", "str"]]], [["replace", "a", ["f", "virtual"]]],
               [["replace", "v", ["f", "list_int"]]], [["add", "m2", ["method", POOL[28]]]],
               [["replace", "m", ["method", POOL[33]]]], [["replace", "m", ["f", "int"]]], [["replace", "a", ["method", POOL[7]]]],
               [["add", "sub", ["schema", [["q", ["f", "int"]]]]]], [["add", "dsub", ["dschema", []]]], [["add", "ct", ["ct", "CT"]]],
               [["replace", "b", ["ct", "CT"]]], [["replace", "b", ["schema", []]]],
               [["add", "c", ["f", "float"]], ["replace", "c", ["f", "bool"]], ["add", "m2", ["method", POOL[16]]]],
               [["add", "h", ["f", "str", None, {"help": "two\nlines"}]]])
    for ch in changes:
        for tgt in ("schema", "config", "type"):
            cases.append(case([list(x) for x in hbase], target=tgt, class_name="Hist", type_name="Hist",
                              history=[list(o) for o in ch]))
    cases.append(case([], history=[["add", "a", ["f", "int"]], ["add", "m", ["method", POOL[0]]]]))
    cases.append(case([list(x) for x in hbase], target="type", class_name=None, type_name="Named",
                      history=[["add", "z", ["f", "int"]]]))
    # dynamic schemas whose configurations got fields at run time (assignment, load_tree; root and nested)
    dyn = [["name", ["f", "str"]], ["port", ["f", "int"]], ["address", ["f", "virtual"]],
           ["db", ["dschema", [["host", ["f", "str"]]]]], ["plain", ["schema", [["q", ["f", "int"]]]]],
           ["m", ["method", POOL[28]]]]
    rts = ([["set", "build_tag", "r1234"], ["set", "retries", 3]],
           [["load", {"rt_a": 1, "port": 8080}]],
           [["set", "db.rt_b", [1, 2]]],
           [["load", {"db": {"zz": {"k": "v"}}}], ["set", "rt_a", None]],
           [["set", "build_tag", "x"], ["set", "db.build_tag", "y"], ["load", {"retries": 1, "db": {"retries": 2}}]])
    for rt in rts:
        for tgt in ("config", "schema", "type"):
            cases.append(case([list(x) for x in dyn], target=tgt, class_name="Service", type_name="Service",
                              dynamic=True, runtime=[list(o) for o in rt]))
    cases.append(case([list(x) for x in dyn], target="config", class_name="Service", dynamic=True))
    cases.append(case([], target="config", class_name="Empty", dynamic=True, runtime=[["set", "rt_a", 1]]))
    cases.append(case([["db", ["dschema", []]]], target="config", class_name="Nested", runtime=[["set", "db.rt_a", 1]]))
    # ---- random ------------------------------------------------------------------------------
    n = 450 if tier == "quick" else 9000
    for _ in range(n):
        r = rng.random()
        tgt = "schema" if r < 0.5 else ("config" if r < 0.75 else "type")
        cn = rng.choice(["Foo", "Thing", "_Cfg", "AppConfig2"])
        if tgt == "type" and rng.random() < 0.5:
            cn = None
        fields = rfields(rng)
        dynamic = rng.random() < 0.3
        runtime = rruntime(rng, fields, dynamic) if rng.random() < 0.8 else None
        history = rhistory(rng, fields) if rng.random() < 0.25 else None
        cases.append(case(fields, target=tgt, class_name=cn, type_name=rng.choice(["T", "AppConfig", "Item"]),
                          dynamic=dynamic, runtime=runtime, history=history))
    for c in cases:
        assert all(k.isidentifier() and not keyword.iskeyword(k) for k, _ in c["fields"])
    return cases
