from registry import KERNEL, TIE, HARNESS
PROP = "C13"
SPEC = {
    "manifest": {
        "technique": ("machine-checked proof in Coq (heap model with a colouring invariant: separation of the reachable sets and a "
                      "frame theorem for all histories and any number of configurations) + model/implementation correspondence "
                      "by vm_compute + identity walk over the real objects"),
        "text": ("Nine theorems in coq/theories/Alias*.v over a heap of mutable objects (list/ListProxy, dict/DictProxy, tuple, "
                 "Config with its own dynamic-field table) in which the schema's default objects live too: for every schema text "
                 "inside the model, every number of configurations built at any time and every history of assignments, loads, "
                 "resets, in-place list/dict mutations at any depth and dynamic-field additions, (sep_inv) nothing reachable from "
                 "one configuration is reachable from another one or from a schema default, (frame_config / frame_defaults) a "
                 "history that does not operate on configuration j writes no location reachable from j, and no history writes a "
                 "location reachable from a default, hence (observe_unchanged) deep snapshots of the other configurations and of "
                 "every default are unchanged to every depth, (dynamic_stays) the Config object of the others, dynamic-field list "
                 "included, is untouched; (combine_pure) the heap version of combine_trees never writes a location that existed "
                 "before the call. sep_refuted_shallow: the same model with the one-level copying of the code before the F30 "
                 "repair has a counterexample; sep_refuted_F46: so has a default holding Config objects (open finding F46), which "
                 "spec_ok excludes (partial_region). The model is tied to core.py / list_field.py / dict_field.py by running the "
                 "same schemas and histories on the implementation and comparing the snapshot of every configuration, every "
                 "default and the field names inside Coq; the property itself is evaluated on the implementation after every "
                 "event (other configurations, asdict, defaults, field table, field objects and options unchanged) and by an "
                 "`is`-identity walk (no mutable container shared between configurations or with a default)."),
        "note": ("Trusted: Coq kernel + vm_compute; the correspondence harness. Recursion over the heap graph (copy_default, "
                 "snapshot, combine_trees) is indexed by a recursion depth like the interpreter's own limit; every theorem "
                 "quantifies over all depths. Field objects are immutable in the model (field set / options unchanged is decided "
                 "on the implementation only). No axioms."),
        "design_ref": "DESIGN.md section 6 C13"},
    "streams": ["alias", "hmerge"],
    "witnesses": ["F30"],
    "rule": ("alias: deterministic matrix (the F30 witness shapes: list of dicts, dict of lists, list of lists, tuples holding "
             "lists, list of configurations of a sub-schema and of a dynamic config type, the same item type in two lists, a "
             "config-type field, nested schema, callable defaults; every assignment / reset / append / setitem / dict-setitem / "
             "dynamic-field target x B built before or after A's mutation; F46 cases) plus seeded random schemas (2-5 fields, "
             "typed and untyped list/dict with literal, callable or no default, item schemas / config types reused, dynamic "
             "schemas) with 1-5 live configurations and histories of 2-9 (thorough: 2-16) operations, mostly on configuration 0, "
             "builds interleaved, cross-configuration assignments (cfg_i.x = value read from cfg_j.x, for scalar fields and typed list/dict fields of scalars, followed by in-place mutations on either side) clones (cfg_j.load_tree(cfg_i.to_tree()) and dumps/loads(json), at the root or a sub-configuration, followed by in-place mutations on either side; a 26-case matrix on a schema of the kinds to_tree copies at every depth, plus 120 (thorough: 2000) random histories on it) callable defaults that hand out ONE template object (default=lambda: TEMPLATE, nested list-of-dicts / dict-of-lists, typed and untyped; the template is observed like a constant default and walked for identity), leaves of every option-carrying built-in class (IntField/FloatField bounds, StringField options, PortField, BoolField, UrlField, SecureField best/xor/aes, ChallengeField, BytesField, FilenameField), loads of documents whose secret was written with another method than the field declares (real key file in the private HOME), an instance method on every schema level (root, sub-schema, item schema, config type) that must return the very configuration object it is called on, for every configuration object after every event, rejected operations whose error is attached to a sub-schema key (scalar / string / list / None assigned or loaded where a sub-configuration is declared: root, nested, list item, config type), to a list / dict field, to a list-of-configurations item or to an undeclared key (60-case matrix + ~7% of random operations); EVERY raised error is rendered (str, repr, ref_path, args, traceback.format_exception, cause/context) before the schema snapshots are compared, document loads with includes (IncludeField with startdir None and set, at the root and in nested schemas; cfg.loads of a json document naming include files written into a per-case temp dir, relative names with the process cwd set into the directory and restored afterwards, and absolute names; configuration i from directory a, configuration j from directory b with the same file names and other contents; model: OpLoad of the tree expected from the documentation, computed with the independent deep merge of s_merge.py; the include keys are reset afterwards so no directory name stays in a configuration), leaves with content-carrying options (StringField with unsorted choices, LogLevelField levels, ApplicationModeField modes, bounds, pattern) offered a value they reject by every route (assignment, load_tree, loads(json), append to / item of a typed list or dict of such leaves: model = no-op, so an accepted value is a disagreement); several list / dict fields over ONE item field object / item schema / config type with whole-value assignment between them (same configuration: any shared item type; another configuration: scalar items) followed by in-place mutations, the stored object must not be the object read; dict.update / |= between the proxies of one typed-dict field in two configurations whose values are typed lists / dicts, followed by in-place mutation of the inner containers on either side, and observers (to_tree, dumps(json), asdict, validate, get_all_fields: must change nothing, model = no-op); non-trivial = at least two configurations and at least one operation that did not raise; "
             "distinct = distinct (schema, history). hmerge: 36-case matrix + random map pairs; non-trivial = a shared key"),
    "trusted_base": [KERNEL, "Print Assumptions: closed under the global context (no axioms)", TIE, HARNESS,
                     "modelled, not verified: validation of scalar items is the identity (generators stay well-typed; "
                     "a failing validation is modelled as 'nothing stored'); _parent/_key/_container links of configurations "
                     "are not in the heap model (they point from a configuration to its owner, never to another configuration); "
                     "Field objects are immutable values of the model",
                     "the recursion depth index of copy_val / snap / hcombine (64 in the correspondence runs)"],
    "assumptions": ["field options: after every event every attribute (__dict__, public and private, containers by identity AND by content: deep copy incl. order, regex by pattern text and flags) of every field "
                    "object of the schema at every level is what it was before; no attribute is exempted as a cache",
                    "a bare Field / AnyField whose callable default returns a template object stores that object itself: observed, "
                    "not counted (C13 speaks of typed fields), never generated",
                    "observed, not counted (caller-made aliasing): A.d = B.d for a typed dict whose values are containers gives A a new "
                    "proxy holding B's inner containers; a list of configurations assigned to another list field of the same item "
                    "schema holds the same Config items (the model reproduces that; generated inside one configuration only)",
                    "argument values handed to the library are fresh (the caller does not insert one object twice: DESIGN.md 3.4)",
                    "schema text inside the model (spec_ok): bare Field defaults are scalars or callables; no Config objects "
                    "inside a default (open finding F46)",
                    "Config objects passed as values (instead of maps) are kept as they are (F29), never generated except via F46",
                    "cross-configuration assignment is generated only where the library copies the whole value (scalars, typed "
                    "list/dict of scalars); in the model it is OpSet with a fresh copy of the value read (xstep, correspondence only). "
                    "Assigning an UNTYPED list/dict read from another configuration stores the same object, and a typed container "
                    "of containers shares its inner items: caller-made aliasing, outside the property (DESIGN.md 3.4)",
                    "clone events (cfg_j.load_tree(cfg_i.to_tree()) or through dumps/loads json) are executed only when every "
                    "current value of the origin is of a kind whose to_tree() is fresh at every depth (run-time harness "
                    "predicate, tag clone-skipped otherwise; model: XClone = load of tree_val, correspondence only). Observed on the "
                    "unchanged tree and NOT counted (to_basic copies one level, the untyped import path keeps identity; "
                    "caller-made aliasing): after b.load_tree(a.to_tree()) b shares with a the inner object of "
                    "(1) DictField(default={'k': [1]}), (2) ListField(default=[[1], {'a': 1}]), "
                    "(3) ListField(DictField(), default=[{'a': [1]}]) (the inner list), (4) ListField(default=[(1, [2])]), "
                    "(5) a bare Field / AnyField holding a list or dict, (6) a dynamic field holding a dict; through "
                    "dumps/loads nothing is shared. A typed list/dict field holding None comes back from such a round trip as "
                    "an empty proxy (C02's normalisation): also skipped"],
}
