from registry import KERNEL, TIE, HARNESS
PROP = "C13"
SPEC = {
    "manifest": {
        "technique": "machine-checked proof in Coq (separation invariant over a heap model, frame theorem for all histories) + model/implementation correspondence by vm_compute + identity walk on the implementation",
        "text": "placeholder",
        "note": "placeholder",
        "design_ref": "DESIGN.md section 6 C13"},
    "streams": ["alias"],
    "witnesses": ["F30"],
    "rule": "placeholder",
    "trusted_base": [KERNEL, "Print Assumptions: closed under the global context (no axioms)", TIE, HARNESS],
    "assumptions": [],
}
