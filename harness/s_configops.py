"""
stream `configops` (C01, C06, C11, C12, C15): random schemas (leaf fields, nested schemas, lists of
configurations, dynamic schemas, feature flags, schema validators) x histories of public operations on
the resulting configuration; after every step the whole configuration (values, default marks, dynamic
fields, object identities) is compared with Config.v (`run_configops`).  Thin per-property modules
(s_co01 ... s_co15) re-export this one with the property's own direct oracle and generator emphasis.

Configuration OBJECTS as operands (`cfg.sub = other`, constructor keyword, `cfg.items.append(other)` / `[i] = other` /
`insert(i, other)`): a case carries the recipe (`Obj`: schema node + operations applied to a fresh configuration of it), the
implementation side builds the object with the real library from the same schema node, the model builds it itself
(Config.detached).  The object is always built from the schema of the slot it is offered to, or offered to a slot that cannot
take a configuration at all (leaf / list field / undeclared key).  NOT generated: an object of a foreign schema offered to a
sub-configuration slot or a list (the code accepts it unchecked -- oracle-only stream `rejects`, finding F29 -- and the model has
no configuration that carries another schema than its slot's), objects stored raw in an AnyField / dynamic key (Unmodelled).
"""
import copy
import itertools

from common import gal, g_str, g_list, g_bool, g_opt, g_z, g_n, Proxy, Broken

NAME = "configops"
IMPORTS = "From Cinco Require Import Base Config ConfigInst."
RUN = "run_configops"
CASE_TYPE = "cocase"

KEYS = ["a", "b", "c", "n", "s", "t", "flag", "x1", "y_2", "name"]
SUBKEYS = ["sub", "inner", "opts", "db"]
LISTKEYS = ["items", "rows"]

# operations whose operand is a configuration OBJECT built on the side (never a plain map):
#   ("setobj", key, Obj, route)  cfg.key = other | root["a.key"] = other        ("appendobj", key, Obj)  cfg.key.append(other)
#   ("setidxobj", key, i, Obj)   cfg.key[i] = other                              ("insertobj", key, i, Obj)  cfg.key.insert(i, other)
#   ("again", kind, key, i, ops) the object offered last was NOT taken (refused, or the walk failed): the caller still holds it,
#                                applies `ops` to it through its own reference and offers that very object again by `kind`
#   ("moveobj", kind, key, i, from)  the configuration found at path `from` below the ROOT (an item of another list over the same
#                                item schema) is offered as it is by `kind`.  A REFUSED offer leaves everything as it was, the
#                                item's own place included (F57), so histories go on after it; an offer that may be ACCEPTED is
#                                the last step of its history (it leaves one object in two lists)
#   ("alias", steps, op)         `op` applied through the reference the caller kept to the object handed over last; `steps` is
#                                where the model finds that object below the addressed configuration (first step) and the rest
#                                of the way to the configuration `op` addresses inside it
OBJ_KINDS = ("setobj", "appendobj", "setidxobj", "insertobj")


class Obj:
    """a configuration built on the side: a fresh configuration of the schema node at static schema path `sp` (keys from the
    root schema; a list node stands for its item schema), to which `ops` are applied in order, failures ignored"""
    def __init__(self, sp, ops=()):
        self.sp = tuple(sp)
        self.ops = list(ops)

    def __deepcopy__(self, memo):
        return self

    def __repr__(self):
        return "Obj(%r, %r)" % (self.sp, self.ops)


def obj_of(o):
    return o[2] if o[0] == "setobj" else o[-1]


def node_by_sp(fields, sp):
    nd, cur = None, fields
    for k in sp:
        nd = dict(cur)[k]
        cur = nd["fields"]
    return nd


# ---------------------------------------------------------------------------------------------
# schema generation (neutral description)
# ---------------------------------------------------------------------------------------------
def rleaf(rng, allow_flag=False):
    r = rng.random()
    required = rng.random() < 0.2
    sensitive = rng.random() < 0.25
    if allow_flag and r < 0.12:
        return {"t": "leaf", "kind": ("flag",), "required": False, "default": rng.choice([True, False, None]), "callable": False,
                "sensitive": False}
    if r < 0.40:
        lo = rng.choice([None, 0, -5, 10])
        hi = rng.choice([None, 100, 20, 10 if lo in (None, 0, -5, 10) else None])
        if lo is not None and hi is not None and lo > hi:
            hi = lo
        dflt = rng.choice([None, lo if lo is not None else 3, 15 if (lo is None or lo <= 15) and (hi is None or hi >= 15) else lo])
        call = dflt is not None and hi is None and rng.random() < 0.3
        return {"t": "leaf", "kind": ("int", lo, hi), "required": required, "default": dflt, "callable": call,
                "sensitive": sensitive}
    if r < 0.72:
        mn = rng.choice([None, None, 1, 3, 0])
        mx = rng.choice([None, None, 8, 5])
        lower = rng.random() < 0.4
        strip = rng.random() < 0.4
        dflt = rng.choice([None, "abcd", "dflt"])
        return {"t": "leaf", "kind": ("str", mn, mx, lower, strip), "required": required, "default": dflt, "callable": False,
                "sensitive": sensitive}
    if r < 0.88:
        return {"t": "leaf", "kind": ("bool",), "required": required, "default": rng.choice([None, True, False]), "callable": False,
                "sensitive": sensitive}
    return {"t": "leaf", "kind": ("any",), "required": required, "default": rng.choice([None, 7, "any", [1, 2]]), "callable": False,
            "sensitive": sensitive}


REJECTS = {"int": [0, 13, 15], "str": ["", "nope", "abc"], "bool": [False], "flag": [], "any": []}


def rfields(rng, depth, vt, allow_flag=False, share=False):
    fields = []
    keys = rng.sample(KEYS, rng.randint(1, 4))
    for k in keys:
        nd = rleaf(rng, allow_flag and k == "flag")
        pool = REJECTS[nd["kind"][0]]
        # a field-level validator must not refuse the declared default (the premise of C01) ...
        pool = [r for r in pool if not (type(r) is type(nd["default"]) and r == nd["default"])]
        if pool and not nd["callable"] and rng.random() < 0.25:
            nd["reject"] = rng.choice(pool)
        if rng.random() < 0.2:
            nd["name"] = "Friendly %s" % k
        fields.append((k, nd))
    if depth > 0:
        for k in rng.sample(SUBKEYS, rng.choice([0, 1, 1, 2])):
            sub_fields = rfields(rng, depth - 1, vt, allow_flag=True, share=share)
            fields.append((k, {"t": "sub", "dyn": rng.random() < 0.15, "vals": rvals(rng, sub_fields, vt), "fields": sub_fields,
                               "ct": rng.random() < 0.3}))
        for k in rng.sample(LISTKEYS, rng.choice([0, 0, 1])):
            item_fields = rfields(rng, max(0, depth - 2), vt)
            nd = {"t": "cfglist", "required": rng.random() < 0.25, "vals": rvals(rng, item_fields, vt),
                  "fields": item_fields, "ct": rng.random() < 0.3}
            if rng.random() < 0.4:
                nd["default"] = rdefault_items(rng, item_fields, vt, nd["vals"])
            fields.append((k, nd))
    rng.shuffle(fields)
    if share:
        # a second list over the SAME item schema object (schema.a = ListField(item); schema.b = ListField(item)): items can be
        # offered from one to the other
        lists = [(k, nd) for k, nd in fields if nd["t"] == "cfglist"]
        if len(lists) == 1 and rng.random() < 0.5:
            k, nd = lists[0]
            k2 = [x for x in LISTKEYS if x != k][0]
            twin = dict(nd, required=False, same_as_sibling=k)
            twin.pop("default", None)
            fields.append((k2, twin))
    return fields


def rdefault_items(rng, item_fields, vt, vals):
    """ListField(schema, default=[maps]) / default=lambda: [maps]: 0-3 maps over the LEAF keys of the item schema that are known
    to load and validate (the premise of C01: declared defaults are themselves valid -- the constructor raises otherwise);
    None when the item schema has a required leaf this generator cannot give a value"""
    maps = []
    for _ in range(rng.choice([0, 1, 2, 2, 3])):
        m = vtree(rng, item_fields)
        if not default_item_ok(item_fields, m, vt, vals):
            return None
        items = list(m.items())
        rng.shuffle(items)
        maps.append(dict(items))
    return {"callable": rng.random() < 0.4, "maps": maps}


def default_item_ok(item_fields, m, vt, vals):
    """independent re-statement: every given value meets its leaf's constraints as it stands, every required leaf ends up set,
    no schema validator of the item schema refuses the result"""
    decl = dict(item_fields)
    for k, nd in item_fields:
        if nd["t"] != "leaf":
            continue
        v = m[k] if k in m else (None if nd["callable"] else nd["default"])
        if k in m and (not leaf_ok(nd, v) or v is None):
            return False
        if nd["required"] and (v is None or v == ""):
            return False
    for k, nd in item_fields:
        if nd["t"] == "leaf" and nd["kind"][0] == "flag" and not (m[k] if k in m else nd["default"]):
            return True           # the item is switched off: its validation is skipped altogether
    if not all(fresh_valid(nd) for k, nd in item_fields if nd["t"] != "leaf"):
        return False              # a nested configuration of the fresh item would not validate
    for n in vals:
        key, badv = dict((a, (b, c)) for a, b, c in vt)[n]
        v = m.get(key, decl[key]["default"] if key in decl else None)
        if v == badv:
            return False
    return True


def fresh_valid(nd):
    """does a freshly built value of this node pass whole-configuration validation (by the declarations alone)"""
    if nd["t"] == "leaf":
        d = nd["default"]
        return not (nd["required"] and (d is None or d == ""))
    if nd["t"] == "cfglist":
        return not nd["required"] or bool((nd.get("default") or {}).get("maps"))
    for k, sub in nd["fields"]:
        if sub["t"] == "leaf" and sub["kind"][0] == "flag" and not sub["default"]:
            return True
    return all(fresh_valid(sub) for k, sub in nd["fields"])


def rvals(rng, fields, vt):
    """maybe register a schema validator on a string field of this schema"""
    strs = [k for k, nd in fields if nd["t"] == "leaf" and nd["kind"][0] == "str"]
    if strs and rng.random() < 0.35:
        n = len(vt)
        vt.append((n, rng.choice(strs), "bad!"))
        return [n]
    return []


# ---------------------------------------------------------------------------------------------
# values
# ---------------------------------------------------------------------------------------------
def rvalue(rng, nd, depth=2):
    """a candidate value for the slot of node nd: mostly valid, some boundary, some wrong"""
    t = nd["t"]
    r = rng.random()
    if t == "leaf":
        kind = nd["kind"]
        if kind[0] == "int":
            lo, hi = kind[1], kind[2]
            pool = [0, 1, 15, 50, -3, 1000]
            for b in (lo, hi):
                if b is not None:
                    pool += [b - 1, b, b + 1]
            if r < 0.6:
                return rng.choice(pool)
            if r < 0.75:
                return str(rng.choice(pool)) if rng.random() < 0.8 else rng.choice(["+4", "-", "", "abc", "1x", "--2"])
            return rng.choice([None, True, False, [1], {"a": 1}, b"x", "abc", 2.5, -0.5, 15.0, 1e10, float("inf"), float("-inf"),
                               float("nan"), 7.9])
        if kind[0] == "str":
            mn, mx = kind[1], kind[2]
            pool = ["abc", "Hello", "", "  pad  ", "x", "abcdefghijkl", "MiXeD", "bad!", " bad! ", "BAD!", "abcde", "ab", "   "]
            if not kind[3]:
                pool += ["café", "Äb"]
            if r < 0.75:
                return rng.choice(pool)
            return rng.choice([None, 5, True, ["a"], {"a": "b"}, b"bytes", 1.5])
        if kind[0] in ("bool", "flag"):
            if r < 0.7:
                return rng.choice([True, False, 0, 1, "yes", "No", "on", "OFF", "t", "f"])
            return rng.choice([None, "maybe", "", 2, 0.0, 1.5, [], {}, [1], b"1"])
        return rng.choice([None, 1, "s", [1, "a"], {"k": 1}, True, 2.5, b"b"])
    if t == "sub":
        if r < 0.8:
            return rtree(rng, nd["fields"], depth, nd["dyn"])
        return rng.choice([None, 5, "str", [], [{"a": 1}], True, {}])
    # cfglist
    if r < 0.7:
        n = rng.choice([0, 1, 2, 3])
        items = [rtree(rng, nd["fields"], depth, False) if rng.random() < 0.9 else rng.choice([5, "s", None, [1]]) for _ in range(n)]
        return tuple(items) if rng.random() < 0.15 else items
    return rng.choice([None, "str", "", 5, 0, {"a": 1}, {}, True, False])


def rtree(rng, fields, depth, dynamic):
    """a map for load_tree / assignment to a (sub)configuration of these fields"""
    tree = {}
    for k, nd in fields:
        if rng.random() < 0.6:
            if nd["t"] != "leaf" and depth <= 0:
                continue
            tree[k] = rvalue(rng, nd, depth - 1)
    if rng.random() < (0.5 if dynamic else 0.06):
        tree[rng.choice(["extra", "zz"])] = rng.choice([1, "v", None, [1], {"q": 1}])
    items = list(tree.items())
    rng.shuffle(items)
    return dict(items)


# ---------------------------------------------------------------------------------------------
# histories.  The generator keeps a rough idea of where configurations live (static schema
# paths; item indices are guesses: a miss is the outcome "nav" on both sides).
# ---------------------------------------------------------------------------------------------
def cfg_paths(fields, prefix=()):
    out = [(prefix, fields, None)]
    for k, nd in fields:
        if nd["t"] == "sub":
            out += cfg_paths(nd["fields"], prefix + (("key", k),))
        elif nd["t"] == "cfglist":
            for i in (0, 1, 2):
                out += cfg_paths(nd["fields"], prefix + (("item", k, i),))
    return out


def rop(rng, case_fields, root_dyn, emphasis):
    paths = cfg_paths(case_fields)
    # shallow paths are more likely to exist
    paths.sort(key=lambda p: len(p[0]))
    ps, fields, _ = paths[min(len(paths) - 1, int(abs(rng.gauss(0, 1.2))))] if rng.random() < 0.7 else rng.choice(paths)
    dyn = root_dyn if not ps else False
    r = rng.random()
    k, nd = rng.choice(fields)
    w = emphasis
    if r < w["set"]:
        if rng.random() < 0.07:
            return (ps, ("set", rng.choice(["extra", "nokey"]), rng.choice([1, "v", {"a": 1}, None]), rng.choice(["attr", "dotted"])))
        return (ps, ("set", k, rvalue(rng, nd), rng.choice(["attr", "dotted"])))
    r -= w["set"]
    if r < w["load"]:
        return (ps, ("load", rtree(rng, fields, 2, dyn), rng.random() < 0.85))
    r -= w["load"]
    if r < w["reset"]:
        return (ps, ("reset", k if rng.random() < 0.93 else "nokey"))
    r -= w["reset"]
    if r < w["validate"]:
        return (ps, ("validate", rng.random() < 0.5))
    r -= w["validate"]
    if r < w.get("loads", 0):
        tree = None
        for _ in range(6):
            cand = untuple(rtree(rng, fields, 2, dyn))
            if doc_tree_ok(cand):
                tree = cand
                break
        if tree is None:
            tree = {}
        return (ps, ("loads", rng.choice(FORMATS), tree, rng.choice(DAMAGE)))
    r -= w.get("loads", 0)
    if r < w.get("obj", 0):
        return robj_op(rng, case_fields, root_dyn, ps, fields)
    lists = [(kk, n2) for kk, n2 in fields if n2["t"] == "cfglist"]
    if not lists:
        return (ps, ("set", k, rvalue(rng, nd), "attr"))
    kk, n2 = rng.choice(lists)
    item = rtree(rng, n2["fields"], 1, False) if rng.random() < 0.85 else rng.choice([5, "s", None, [1]])
    r2 = rng.random()
    if r2 < 0.45:
        return (ps, ("append", kk, item))
    if r2 < 0.7:
        return (ps, ("insert", kk, rng.choice([0, 1, -1, -2, 5, -7, 2]), item))
    return (ps, ("setidx", kk, rng.choice([0, 0, 1, 2, 5]), item))


def vtree(rng, fields):
    """a map that sets every required leaf of `fields` to a plausible valid value (and a few others)"""
    t = {}
    for k, nd in fields:
        if nd["t"] != "leaf" or not (nd["required"] or rng.random() < 0.3):
            continue
        kind = nd["kind"]
        if kind[0] == "int":
            lo, hi = kind[1], kind[2]
            v = lo + 1 if lo is not None and (hi is None or lo + 1 <= hi) else (lo if lo is not None else (min(7, hi) if hi is not None else 7))
        elif kind[0] == "str":
            v = "abcd"[:kind[2]] if kind[2] is not None else "abcd"
        elif kind[0] in ("bool", "flag"):
            v = True
        else:
            v = 1
        t[k] = v
    return t


DETACHED = {"set": 0.6, "load": 0.25, "reset": 0.1, "validate": 0.0, "loads": 0.0, "obj": 0.0}


def rdops(rng, nd):
    """what happens to the object before it is handed over: often its required fields get values, then a few operations"""
    dyn = nd["dyn"] if nd["t"] == "sub" else False
    ops = []
    if rng.random() < 0.6:
        ops.append(((), ("load", vtree(rng, nd["fields"]), False)))
    for _ in range(rng.choice([0, 0, 1, 1, 2])):
        ops.append(rop(rng, nd["fields"], dyn, DETACHED))
    return ops


def dyn_at(case_fields, root_dyn, ps):
    if not ps:
        return root_dyn
    nd = node_by_sp(case_fields, tuple(p[1] for p in ps))
    return nd["dyn"] if nd["t"] == "sub" and ps[-1][0] == "key" else False


def all_cfg_nodes(fields, sp=()):
    out = []
    for k, nd in fields:
        if nd["t"] != "leaf":
            out.append((sp + (k,), nd))
            out += all_cfg_nodes(nd["fields"], sp + (k,))
    return out


def robj_op(rng, case_fields, root_dyn, ps, fields):
    """hand a configuration object to the configuration at ps: mostly to a slot of its own schema, sometimes to a slot that
    cannot take it (leaf field, list field, undeclared key).  Never to an AnyField or a dynamic key (the object would be stored
    raw: outside the value model), never an object of a foreign schema to a sub-configuration slot (see module docstring)."""
    sp = tuple(p[1] for p in ps)
    subs = [(k, nd) for k, nd in fields if nd["t"] == "sub"]
    lists = [(k, nd) for k, nd in fields if nd["t"] == "cfglist"]
    r = rng.random()
    if lists and (r < 0.45 or not subs) and r < 0.88:
        k, nd = rng.choice(lists)
        src = Obj(sp + (k,), rdops(rng, nd))
        r2 = rng.random()
        if r2 < 0.45:
            return (ps, ("appendobj", k, src))
        if r2 < 0.7:
            return (ps, ("insertobj", k, rng.choice([0, 1, -1, -2, 5, -7, 2]), src))
        return (ps, ("setidxobj", k, rng.choice([0, 0, 1, 2, 5]), src))
    if subs and r < 0.88:
        k, nd = rng.choice(subs)
        return (ps, ("setobj", k, Obj(sp + (k,), rdops(rng, nd)), rng.choice(["attr", "dotted"])))
    nodes = all_cfg_nodes(case_fields)
    if not nodes:
        k, nd = rng.choice(fields)
        return (ps, ("set", k, rvalue(rng, nd), "attr"))
    ssp, snd = rng.choice(nodes)
    targets = [k for k, nd in fields if (nd["t"] == "leaf" and nd["kind"][0] != "any") or nd["t"] == "cfglist"]
    if not dyn_at(case_fields, root_dyn, ps):
        targets.append("nokey")
    if not targets:
        k, nd = rng.choice(fields)
        return (ps, ("set", k, rvalue(rng, nd), "attr"))
    return (ps, ("setobj", rng.choice(targets), Obj(ssp, rdops(rng, snd)), rng.choice(["attr", "dotted"])))


EMPHASIS = {
    "C01": {"set": 0.5, "load": 0.2, "reset": 0.05, "validate": 0.02, "loads": 0.06, "obj": 0.07},
    "C06": {"set": 0.45, "load": 0.1, "reset": 0.05, "validate": 0.02, "loads": 0.2, "obj": 0.08},
    "C12": {"set": 0.4, "load": 0.18, "reset": 0.25, "validate": 0.02, "loads": 0.04, "obj": 0.06},
    "C15": {"set": 0.5, "load": 0.25, "reset": 0.0, "validate": 0.02, "loads": 0.08, "obj": 0.07},
    "C11": {"set": 0.2, "load": 0.35, "reset": 0.03, "validate": 0.2, "loads": 0.08, "obj": 0.08},
}
FORMATS = ["json", "yaml", "bson", "pickle", "xml"]
DAMAGE = ["none", "none", "truncate", "empty", "garbage", "wrongroot", "truncate3", "pairs", "pairsjunk", "pairs1"]
PAIR_DAMAGE = ("pairs", "pairsjunk", "pairs1", "pairstuple", "emptylist")
MISSING_INCLUDE = "/nonexistent/cinco-verif-missing-include"      # never exists


def doc_tree_ok(t):
    """trees every format can carry without change: string keys that are XML names, ints / bools / None / ASCII strings"""
    if isinstance(t, dict):
        return all(isinstance(k, str) and k.isidentifier() for k in t) and all(doc_tree_ok(v) for v in t.values())
    if isinstance(t, list):
        return all(doc_tree_ok(v) for v in t)
    if isinstance(t, bool) or t is None:
        return True
    if isinstance(t, int):
        return abs(t) < 2 ** 31
    if isinstance(t, str):
        return all(32 <= ord(ch) < 127 for ch in t) and t == t.strip()
    return False


def untuple(t):
    if isinstance(t, dict):
        return {k: untuple(v) for k, v in t.items()}
    if isinstance(t, (list, tuple)):
        return [untuple(v) for v in t]
    return t


def rcase(rng, prop, nops, objs=False):
    """objs: also hand over configuration objects (operations, constructor keywords); the streams that borrow this generator
    for other purposes (mask, roundtrip) keep the plain alphabet"""
    vt = []
    fields = rfields(rng, rng.choice([0, 1, 2, 2, 3]), vt, share=objs)
    root_dyn = rng.random() < 0.15
    root_vals = rvals(rng, fields, vt)
    kw = {}
    if rng.random() < 0.35:
        picked = rng.sample(fields, min(len(fields), rng.randint(1, 3)))
        if objs:
            # configuration objects first: they are all built before the constructor runs
            for k, nd in picked:
                if nd["t"] == "sub" and rng.random() < 0.5:
                    kw[k] = Obj((k,), rdops(rng, nd))
        for k, nd in picked:
            if k not in kw:
                kw[k] = rvalue(rng, nd)
        if root_dyn and rng.random() < 0.3:
            kw["extra"] = 5
    emph = EMPHASIS[prop] if objs else dict(EMPHASIS[prop], obj=0.0)
    ops = []
    for _ in range(rng.randint(1, nops)):
        op = rop(rng, fields, root_dyn, emph)
        ops.append(op)
        if op[1][0] in OBJ_KINDS[1:] and rng.random() < 0.35:
            # whatever became of the object: if the caller still holds it (refused / never offered) it is offered again, as it
            # is or after its required fields got values; if it was taken this step is outside the model on both sides
            nd = node_by_sp(fields, obj_of(op[1]).sp)
            fix = [((), ("load", vtree(rng, nd["fields"]), False))] if rng.random() < 0.5 else []
            kind = rng.choice(OBJ_KINDS[1:])
            ops.append((op[0], ("again", kind, op[1][1], None if kind == "appendobj" else rng.choice([0, 1, -1, 5]) if kind == "insertobj" else rng.choice([0, 1, 5]), fix)))
        if op[1][0] == "setobj" and not op[0] and dict(fields).get(op[1][1], {}).get("t") == "sub" and rng.random() < 0.4:
            # the caller goes on using its own reference to the object it has just assigned (root level: the slot exists)
            nd = dict(fields)[op[1][1]]
            ips, iop = rop(rng, nd["fields"], nd["dyn"], DETACHED)
            ops.append(((), ("alias", [("key", op[1][1])] + list(ips), iop)))
    twins = [(k, nd) for k, nd in fields if nd["t"] == "cfglist" and nd.get("same_as_sibling")]
    if objs and twins and rng.random() < 0.7:
        # last step: an item of one list is offered to its twin (either direction), often after it was edited in place
        k2, nd = rng.choice(twins)
        a, b = (nd["same_as_sibling"], k2) if rng.random() < 0.5 else (k2, nd["same_as_sibling"])
        j = rng.choice([0, 0, 1, 2])
        if rng.random() < 0.6:
            ips, iop = rop(rng, nd["fields"], False, DETACHED)
            ops.append(((("item", a, j),) + tuple(ips), iop))
        kind = rng.choice(OBJ_KINDS[1:])
        ops.append(((), ("moveobj", kind, b, None if kind == "appendobj" else rng.choice([0, 1, -1, 5]) if kind == "insertobj" else rng.choice([0, 1, 5]),
                         (("item", a, j),))))
    return {"vt": vt, "dyn": root_dyn, "vals": root_vals, "fields": fields, "kw": kw, "ops": ops}


def matrix_cases():
    """one fixed schema with every construct; every single op and every ordered pair over a curated op list"""
    item = [("n", {"t": "leaf", "kind": ("int", 0, 10), "required": True, "default": None, "callable": False, "sensitive": False}),
            ("s", {"t": "leaf", "kind": ("str", None, 5, True, True), "required": False, "default": "d", "callable": False,
                   "sensitive": True})]
    inner = [("flag", {"t": "leaf", "kind": ("flag",), "required": False, "default": True, "callable": False, "sensitive": False}),
             ("t", {"t": "leaf", "kind": ("str", 1, None, False, False), "required": True, "default": "x", "callable": False,
                    "sensitive": False})]
    sub = [("a", {"t": "leaf", "kind": ("int", None, 20), "required": False, "default": 5, "callable": True, "sensitive": False}),
           ("inner", {"t": "sub", "dyn": False, "vals": [0], "fields": inner}),
           ("b", {"t": "leaf", "kind": ("bool",), "required": False, "default": None, "callable": False, "sensitive": False})]
    typed = [("need", {"t": "leaf", "kind": ("int", None, None), "required": True, "default": None, "callable": False, "sensitive": False}),
             ("t", {"t": "leaf", "kind": ("str", None, None, False, False), "required": False, "default": "ok", "callable": False,
                    "sensitive": False})]
    fields_b = [("n", {"t": "leaf", "kind": ("int", 1, 100), "required": False, "default": 3, "callable": False, "sensitive": False}),
                ("typed", {"t": "sub", "dyn": False, "vals": [0], "fields": typed, "ct": True}),
                ("rows", {"t": "cfglist", "required": True, "vals": [], "fields": item, "ct": True})]
    fields = [("n", {"t": "leaf", "kind": ("int", 1, 100), "required": False, "default": 3, "callable": False, "sensitive": False}),
              ("s", {"t": "leaf", "kind": ("str", 2, 6, True, True), "required": True, "default": "abc", "callable": False,
                     "sensitive": True}),
              ("sub", {"t": "sub", "dyn": False, "vals": [], "fields": sub}),
              ("items", {"t": "cfglist", "required": False, "vals": [], "fields": item}),
              ("c", {"t": "leaf", "kind": ("any",), "required": False, "default": None, "callable": False, "sensitive": False}),
              ("z", {"t": "leaf", "kind": ("int", None, None), "required": False, "default": 5, "callable": False, "sensitive": False,
                     "reject": 0, "name": "Pool size"}),
              ("e", {"t": "leaf", "kind": ("str", None, None, False, False), "required": False, "default": "dflt", "callable": False,
                     "sensitive": False, "reject": ""})]
    vt = [(0, "t", "bad!")]
    ops = [
        ((), ("set", "n", 5, "attr")), ((), ("set", "n", "77", "dotted")), ((), ("set", "n", 0, "attr")), ((), ("set", "n", 101, "attr")),
        ((), ("set", "n", True, "attr")), ((), ("set", "n", None, "attr")), ((), ("set", "n", 7.9, "attr")),
        ((), ("set", "z", 0, "attr")), ((), ("set", "z", "0", "dotted")), ((), ("set", "z", 3, "attr")), ((), ("set", "z", None, "attr")),
        ((), ("set", "e", "", "attr")), ((), ("set", "e", "x", "attr")), ((), ("load", {"z": 0}, True)), ((), ("load", {"e": "", "z": 1}, True)),
        ((), ("set", "n", float("inf"), "dotted")), ((), ("set", "n", float("nan"), "attr")), ((), ("set", "n", -0.5, "attr")),
        ((), ("set", "sub", {"a": float("inf")}, "attr")), ((), ("set", "items", [{"n": 1}, {"n": float("-inf")}], "attr")),
        ((), ("load", {"n": float("inf")}, True)), ((), ("set", "s", " HeLLo ", "attr")),
        ((), ("set", "s", "  ", "attr")), ((), ("set", "s", "toolongvalue", "attr")), ((), ("set", "s", 5, "attr")),
        ((), ("set", "s", None, "attr")), ((), ("set", "nokey", 1, "attr")),
        ((), ("set", "sub", {"a": 7, "inner": {"t": "ok"}}, "attr")), ((), ("set", "sub", {"a": 21}, "attr")),
        ((), ("set", "sub", {"inner": {"t": "bad!"}}, "attr")), ((), ("set", "sub", {"inner": {"t": "bad!", "flag": False}}, "attr")),
        ((), ("set", "sub", {"inner": {"flag": False, "t": None}}, "attr")),
        ((), ("set", "sub", {"zz": 1}, "attr")), ((), ("set", "sub", 5, "attr")), ((), ("set", "sub", {}, "attr")),
        ((("key", "sub"),), ("set", "a", 9, "dotted")), ((("key", "sub"),), ("set", "a", 99, "dotted")),
        ((("key", "sub"), ("key", "inner")), ("set", "t", "", "dotted")), ((("key", "sub"), ("key", "inner")), ("set", "t", "bad!", "attr")),
        ((("key", "sub"), ("key", "inner")), ("set", "flag", "off", "attr")),
        ((), ("set", "items", [{"n": 1}, {"n": 2, "s": " AbC "}], "attr")), ((), ("set", "items", [{"n": 1}, {"n": 11}], "attr")),
        ((), ("set", "items", [{"n": 1}, {"s": "x"}], "attr")), ((), ("set", "items", [{"n": 1}, 5], "attr")),
        ((), ("set", "items", "str", "attr")), ((), ("set", "items", None, "attr")), ((), ("set", "items", [], "attr")),
        ((), ("set", "items", ({"n": 3},), "attr")),
        ((), ("append", "items", {"n": 4})), ((), ("append", "items", {"n": 44})), ((), ("append", "items", 7)),
        ((), ("insert", "items", 0, {"n": 5})), ((), ("insert", "items", -1, {"n": 5})), ((), ("insert", "items", -1, {"n": 55})),
        ((), ("insert", "items", 9, {"n": 55})), ((), ("insert", "items", -9, {"n": 3})), ((), ("insert", "items", 1, 7)),
        ((), ("setidx", "items", 0, {"n": 6})), ((), ("setidx", "items", 0, {"n": -1})), ((), ("setidx", "items", 7, {"n": 6})),
        # partially acceptable maps: one key is fine, the other is not (either order), or the required key is missing
        ((), ("setidx", "items", 0, {"s": "zz", "n": -1})), ((), ("setidx", "items", 1, {"n": 4, "s": "TOOLONG"})),
        ((), ("setidx", "items", 0, {"s": "new"})), ((), ("append", "items", {"s": "zz", "n": 44})), ((), ("insert", "items", 0, {"n": 4, "s": 5})),
        ((("item", "items", 0),), ("set", "n", 8, "attr")), ((("item", "items", 1),), ("set", "n", "bad", "attr")),
        ((("item", "items", 0),), ("set", "s", "TOOLONG", "attr")),
        ((), ("load", {"n": 9, "s": "loaded"}, True)), ((), ("load", {"n": 9, "s": None}, True)), ((), ("load", {"s": 1, "n": 2}, True)),
        ((), ("load", {"sub": {"a": 1}, "n": 500}, True)), ((), ("load", {"sub": {"inner": {"t": "bad!"}}}, True)),
        ((), ("load", {"items": [{"n": 1}], "sub": {"b": "yes"}}, True)), ((), ("load", {"items": None}, True)),
        ((), ("load", {"items": "abc"}, True)), ((), ("load", {"items": [{"n": 1}, {"n": 99}]}, True)),
        ((), ("load", {"sub": "x"}, True)), ((), ("load", {"zz": 1}, True)), ((), ("load", {}, True)),
        ((), ("load", {"s": None}, False)), ((("key", "sub"),), ("load", {"a": 2, "b": 0}, True)),
        ((), ("reset", "n")), ((), ("reset", "s")), ((), ("reset", "sub")), ((), ("reset", "items")), ((), ("reset", "nokey")),
        ((("key", "sub"),), ("reset", "a")), ((("key", "sub"),), ("reset", "inner")),
        ((), ("validate", False)), ((), ("validate", True)), ((("key", "sub"),), ("validate", True)),
    ]
    for fmt in FORMATS:
        for dmg in ["none", "truncate", "empty", "garbage", "wrongroot"]:
            ops.append(((), ("loads", fmt, {"n": 9, "s": "loaded", "sub": {"a": 2}}, dmg)))
        ops.append(((), ("loads", fmt, {"n": 500, "s": "x"}, "none")))
        ops.append(((("key", "sub"),), ("loads", fmt, {"a": 3, "inner": {"t": "q"}}, "truncate")))
    base = {"vt": vt, "dyn": False, "vals": [], "fields": fields}
    base_b = {"vt": vt, "dyn": False, "vals": [], "fields": fields_b}
    ops_b = [
        ((), ("set", "typed", {"need": 1}, "attr")), ((), ("set", "typed", {"t": "x"}, "attr")), ((), ("set", "typed", {"need": 2, "t": "bad!"}, "attr")),
        ((("key", "typed"),), ("set", "need", 5, "dotted")), ((("key", "typed"),), ("set", "t", "bad!", "attr")),
        ((), ("load", {"typed": {"need": 3}}, True)), ((), ("load", {"n": 4}, True)), ((), ("reset", "typed")),
        ((), ("set", "rows", [{"n": 1}], "attr")), ((), ("set", "rows", [], "attr")), ((), ("set", "rows", None, "attr")),
        ((), ("load", {"rows": []}, True)), ((), ("load", {"rows": None}, True)), ((), ("load", {"rows": [{"n": 2}]}, True)),
        ((), ("load", {"rows": [{"n": 2}], "typed": {"need": 1}}, True)), ((), ("append", "rows", {"n": 3})), ((), ("reset", "rows")),
    ]
    ops_b += [((), ("validate", False)), ((), ("validate", True))]
    # ---- configuration objects ----
    K = lambda *ks: tuple(("key", k) for k in ks)       # noqa: E731
    S = lambda k, v: ((), ("set", k, v, "attr"))        # noqa: E731
    sub_srcs = [[], [S("a", 9)], [S("a", 99)], [(K("inner"), ("set", "t", "bad!", "attr"))],
                [(K("inner"), ("set", "flag", False, "attr")), (K("inner"), ("set", "t", "bad!", "attr"))],
                [((), ("load", {"a": 2, "b": "yes", "inner": {"t": "q"}}, True))]]
    inner_srcs = [[], [S("t", "zz")], [S("t", "bad!")], [S("flag", "off"), S("t", "bad!")], [S("t", None)]]
    item_srcs = [[], [S("n", 4)], [S("n", 44)], [S("n", 4), S("s", " AbC ")], [S("s", "x")], [S("n", "7"), S("s", "TOOLONG")]]
    obj_ops = []
    for d in sub_srcs:
        obj_ops.append(((), ("setobj", "sub", Obj(("sub",), d), "attr")))
    obj_ops.append(((), ("setobj", "sub", Obj(("sub",), sub_srcs[1]), "dotted")))
    for d in inner_srcs:
        obj_ops.append((K("sub"), ("setobj", "inner", Obj(("sub", "inner"), d), "dotted" if len(d) == 1 else "attr")))
    # a configuration object is not a value for a leaf field, for a list field, for an undeclared key
    for k in ("n", "s", "z", "e", "items", "nokey"):
        obj_ops.append(((), ("setobj", k, Obj(("sub",), sub_srcs[1]), "attr")))
    obj_ops.append(((), ("setobj", "items", Obj(("items",), item_srcs[1]), "dotted")))
    obj_ops.append((K("sub"), ("setobj", "a", Obj(("sub", "inner"), []), "dotted")))
    obj_ops.append((K("sub"), ("setobj", "b", Obj(("items",), item_srcs[1]), "attr")))
    obj_ops.append((K("sub", "inner"), ("setobj", "t", Obj(("sub", "inner"), []), "attr")))
    obj_ops.append((K("sub", "inner"), ("setobj", "flag", Obj(("sub", "inner"), []), "attr")))
    for d in item_srcs:
        obj_ops.append(((), ("appendobj", "items", Obj(("items",), d))))
        obj_ops.append(((), ("insertobj", "items", 0, Obj(("items",), d))))
        obj_ops.append(((), ("setidxobj", "items", 1, Obj(("items",), d))))
    for i in (-1, 1, 9, -9):
        obj_ops.append(((), ("insertobj", "items", i, Obj(("items",), item_srcs[1]))))
        obj_ops.append(((), ("insertobj", "items", i, Obj(("items",), item_srcs[0]))))
    for i in (0, 2, 7):
        obj_ops.append(((), ("setidxobj", "items", i, Obj(("items",), item_srcs[1]))))
        obj_ops.append(((), ("setidxobj", "items", i, Obj(("items",), item_srcs[2]))))
    probes = [((), ("validate", False)), ((), ("validate", True)), (K("sub"), ("validate", False)), ((), ("reset", "sub")),
              ((), ("load", {"n": 9}, True)), ((), ("set", "sub", {"a": 7}, "attr")), (K("sub"), ("set", "a", 8, "dotted")),
              (K("sub", "inner"), ("set", "t", "fine", "attr")), ((("item", "items", 2),), ("set", "n", 8, "attr")),
              ((), ("append", "items", {"n": 4}))]
    # the caller keeps using ITS reference to the object after handing it over: same object, so the configuration moves with it
    aliased = []
    for d in (sub_srcs[0], sub_srcs[3]):
        for inn in (((), ("set", "a", 5, "attr")), ((), ("set", "a", 99, "dotted")), (K("inner"), ("set", "t", "ok now", "attr")),
                      (K("inner"), ("set", "t", "", "dotted")), ((), ("reset", "a")), ((), ("load", {"b": "no"}, True)),
                      ((), ("validate", False)), ((), ("set", "inner", {"t": "new"}, "attr"))):
            aliased.append([((), ("setobj", "sub", Obj(("sub",), d), "attr")), ((), ("alias", [("key", "sub")] + list(inn[0]), inn[1]))])
    for inn in (S("t", "later"), S("t", "bad!"), S("flag", False)):
        aliased.append([(K("sub"), ("setobj", "inner", Obj(("sub", "inner"), []), "attr")),
                        (K("sub"), ("alias", [("key", "inner")] + list(inn[0]), inn[1])), ((), ("validate", True))])
    aliased_items = []          # on a list that already holds two items: the appended object is items[2], the inserted one items[0]
    for inn in (S("n", 9), S("n", 99), S("s", "zz"), ((), ("reset", "n"))):
        aliased_items.append([((), ("appendobj", "items", Obj(("items",), item_srcs[1]))),
                              ((), ("alias", [("item", "items", 2)] + list(inn[0]), inn[1])), ((), ("validate", True))])
        aliased_items.append([((), ("insertobj", "items", 0, Obj(("items",), item_srcs[1]))),
                              ((), ("alias", [("item", "items", 0)] + list(inn[0]), inn[1])), ((), ("validate", True))])
        aliased_items.append([((), ("setidxobj", "items", 1, Obj(("items",), item_srcs[1]))),
                              ((), ("alias", [("item", "items", 1)] + list(inn[0]), inn[1])), ((), ("validate", False))])
    # a refused object is still the caller's: offered again as it is it must be refused again, in the same way; after the caller
    # has repaired it through its own reference it is taken
    A = lambda kind, k, i, dops: ((), ("again", kind, k, i, dops))        # noqa: E731
    unset = ((), ("appendobj", "items", Obj(("items",), [])))
    reoffered = [
        [unset, A("appendobj", "items", None, []), A("appendobj", "items", None, []), ((), ("validate", True))],
        [unset, A("insertobj", "items", 0, []), A("setidxobj", "items", 0, []), A("setidxobj", "items", 9, []), ((), ("validate", True))],
        [unset, A("appendobj", "items", None, [S("n", 44)]), A("appendobj", "items", None, [S("n", 4)]), ((), ("validate", True)),
         A("appendobj", "items", None, [])],
        [((), ("insertobj", "items", 0, Obj(("items",), [S("s", "x")]))), A("insertobj", "items", 1, []), A("insertobj", "items", 1, [S("n", 0)]),
         ((), ("alias", [("item", "items", 1)], ("set", "n", 11, "attr"))), ((), ("validate", False))],
        [((), ("setidxobj", "items", 1, Obj(("items",), []))), A("setidxobj", "items", 1, []), A("setidxobj", "items", 1, [S("n", 3)]),
         ((), ("validate", True))],
        [((), ("setidxobj", "items", 7, Obj(("items",), [S("n", 3)]))), A("setidxobj", "items", 0, []), ((), ("validate", True))],
        [((), ("setobj", "n", Obj(("sub",), [S("a", 9)]), "attr")), A("setobj", "s", None, []), A("setobj", "sub", None, [S("a", 10)]),
         (K("sub"), ("set", "a", 11, "dotted"))],
        [((), ("setobj", "items", Obj(("items",), [S("n", 3)]), "attr")), A("appendobj", "items", None, []), ((), ("validate", True))],
        [(K("sub", "inner"), ("setobj", "t", Obj(("sub", "inner"), [S("t", "bad!")]), "attr")),
         (K("sub"), ("again", "setobj", "inner", None, [])), ((), ("validate", True))],
    ]
    reoffered_b = [
        [((), ("set", "rows", [{"n": 1}], "attr")), ((), ("appendobj", "rows", Obj(("rows",), []))), A("appendobj", "rows", None, []),
         A("insertobj", "rows", 0, [S("n", 2)]), ((), ("validate", True))],
        [((), ("appendobj", "rows", Obj(("rows",), [S("n", 2)]))), ((), ("set", "rows", [{"n": 1}], "attr")), A("appendobj", "rows", None, []),
         ((), ("validate", False))],
    ]
    typed_srcs = [[], [S("need", 5)], [S("need", 5), S("t", "bad!")], [S("need", "x")], [S("t", "bad!")]]
    row_srcs = [[], [S("n", 3)], [S("n", 30)]]
    obj_ops_b = [((), ("setobj", "typed", Obj(("typed",), d), "attr")) for d in typed_srcs]
    obj_ops_b += [((), ("setobj", "typed", Obj(("typed",), typed_srcs[1]), "dotted")), ((), ("setobj", "n", Obj(("typed",), []), "attr")),
                  ((), ("setobj", "rows", Obj(("rows",), row_srcs[1]), "attr")), ((), ("setobj", "typed", Obj(("typed",), typed_srcs[0]), "dotted"))]
    for d in row_srcs:
        obj_ops_b += [((), ("appendobj", "rows", Obj(("rows",), d))), ((), ("insertobj", "rows", 0, Obj(("rows",), d))),
                      ((), ("setidxobj", "rows", 0, Obj(("rows",), d)))]
    probes_b = [((), ("validate", False)), ((), ("validate", True)), ((), ("set", "rows", [{"n": 1}], "attr")), ((), ("reset", "typed")),
                (K("typed"), ("set", "need", 5, "dotted")), ((), ("load", {"typed": {"need": 3}}, True)), ((), ("load", {"n": 4}, True))]
    # ---- lists of configurations with declared default items (constant and callable) ----
    fields_d = [("n", {"t": "leaf", "kind": ("int", 1, 100), "required": False, "default": 3, "callable": True, "sensitive": False}),
                ("items", {"t": "cfglist", "required": False, "vals": [], "fields": item,
                           "default": {"callable": False, "maps": [{"n": 1}, {"s": " AbC ", "n": "2"}]}}),
                ("rows", {"t": "cfglist", "required": True, "vals": [], "fields": item, "ct": True,
                          "default": {"callable": True, "maps": [{"n": 3}]}}),
                ("none", {"t": "cfglist", "required": True, "vals": [], "fields": item, "default": {"callable": False, "maps": []}}),
                ("sub", {"t": "sub", "dyn": False, "vals": [], "fields": [
                    ("a", {"t": "leaf", "kind": ("int", None, 20), "required": False, "default": 5, "callable": True, "sensitive": False}),
                    ("lst", {"t": "cfglist", "required": False, "vals": [0], "fields": inner,
                             "default": {"callable": True, "maps": [{"t": "one"}, {"flag": False, "t": "two"}]}})]})]
    base_d = {"vt": vt, "dyn": False, "vals": [], "fields": fields_d}
    I = lambda k, i: (("item", k, i),)          # noqa: E731,E741
    ops_d = [((), ("validate", False)), ((), ("validate", True)),
             (I("items", 0), ("reset", "n")), (I("items", 1), ("set", "s", "TOOLONG", "attr")), (I("items", 1), ("set", "n", 7, "attr")),
             (I("items", 0), ("load", {"n": None}, False)), (I("items", 0), ("validate", False)),
             ((), ("reset", "items")), ((), ("reset", "rows")), ((), ("reset", "none")), ((), ("reset", "sub")), (K("sub"), ("reset", "lst")),
             ((), ("append", "items", {"n": 4})), ((), ("append", "items", {"n": 44})), ((), ("insert", "rows", 0, {"n": 5})),
             ((), ("append", "none", {"n": 1})), ((), ("setidx", "items", 0, {"n": 6})),
             ((), ("appendobj", "items", Obj(("items",), [S("n", 4)]))), ((), ("appendobj", "rows", Obj(("rows",), []))),
             ((), ("set", "items", [{"n": 7}], "attr")), ((), ("set", "items", None, "attr")), ((), ("set", "rows", [], "attr")),
             ((), ("set", "none", [{"n": 2}], "dotted")), ((), ("load", {"items": [{"n": 9}]}, True)), ((), ("load", {}, True)),
             ((), ("load", {"rows": None}, True)), ((), ("set", "sub", {"a": 1}, "attr")), ((), ("set", "sub", {"lst": []}, "attr")),
             ((), ("setobj", "sub", Obj(("sub",), [S("a", 2)]), "attr")), ((), ("setobj", "sub", Obj(("sub",), [((("item", "lst", 0),), ("set", "t", "bad!", "attr"))]), "attr")),
             (K("sub") + I("lst", 0), ("set", "t", "bad!", "attr")), (K("sub") + I("lst", 1), ("set", "t", "bad!", "attr")),
             (K("sub") + I("lst", 1), ("set", "flag", True, "attr")), (K("sub") + I("lst", 0), ("reset", "t")),
             (I("rows", 0), ("reset", "n")), (I("rows", 0), ("set", "n", 99, "attr")), (K("sub"), ("validate", False))]
    cases = []
    # a dynamic root: several keys added at run time, by assignment and by load, then read back
    dyn_ops = [((), ("set", "extra", 1, "attr")), ((), ("set", "nokey", "v", "dotted")), ((), ("set", "zz", [1], "attr")),
               ((), ("load", {"extra": 5, "zz": "w"}, True)), ((), ("load", {"nokey": None, "n": 7}, True)), ((), ("set", "n", 9, "attr")),
               ((), ("reset", "extra")), ((), ("validate", True))]
    for i1, i2, i3 in itertools.product(range(len(dyn_ops)), repeat=3):
        if len({i1, i2, i3}) >= 2:
            cases.append(dict(base, dyn=True, kw={}, ops=[dyn_ops[i1], dyn_ops[i2], dyn_ops[i3]], kind="matrix-dyn"))
    # a sub-configuration whose feature flag is off, declared BEFORE / BETWEEN / AFTER siblings that fail validation
    def _off(name):
        return (name, {"t": "sub", "dyn": False, "vals": [], "fields": [
            ("enabled", {"t": "leaf", "kind": ("flag",), "required": False, "default": False, "callable": False, "sensitive": False}),
            ("need", {"t": "leaf", "kind": ("int", None, None), "required": True, "default": None, "callable": False, "sensitive": False})]})
    def _need(name):
        return (name, {"t": "leaf", "kind": ("int", None, None), "required": True, "default": None, "callable": False, "sensitive": False})
    def _subneed(name):
        return (name, {"t": "sub", "dyn": False, "vals": [], "fields": [_need("must")]})
    for order in (["off", "need"], ["need", "off"], ["off", "subneed"], ["subneed", "off"], ["off", "off2", "need"], ["ok", "off", "subneed", "need"],
                  ["off", "rows"], ["off", "ok"]):
        fl = []
        for nm in order:
            if nm.startswith("off"):
                fl.append(_off(nm))
            elif nm == "need":
                fl.append(_need("need"))
            elif nm == "subneed":
                fl.append(_subneed("subneed"))
            elif nm == "rows":
                fl.append(("rows", {"t": "cfglist", "required": True, "vals": [], "fields": item}))
            else:
                fl.append(("ok", {"t": "leaf", "kind": ("int", 1, 100), "required": False, "default": 3, "callable": False, "sensitive": False}))
        for tail in ([((), ("validate", False))], [((), ("validate", True))], [((), ("load", {}, True))],
                     [((), ("load", {"off": {"enabled": True}}, True))], [((), ("load", {"off": {"enabled": True, "need": 1}}, True)), ((), ("validate", False))],
                     [((), ("loads", "json", {}, "none"))]):
            cases.append({"vt": [], "dyn": False, "vals": [], "fields": fl, "kw": {}, "ops": list(tail), "kind": "matrix-off"})
    for o in ops_d:
        cases.append(dict(base_d, kw={}, ops=[o], kind="matrix-dflt"))
    for idx, (o1, o2) in enumerate(itertools.product(ops_d, repeat=2)):
        if idx % 3 == 0:
            cases.append(dict(base_d, kw={}, ops=[o1, o2, ((), ("validate", True))], kind="matrix-dflt2"))
    for kwd in ({"items": [{"n": 5}]}, {"rows": [{"n": 1}, {"n": 2}], "sub": {"a": 3}}, {"none": []}, {"sub": Obj(("sub",), [])},
                {"sub": {"lst": [{"t": "k"}]}}, {"n": 9}):
        cases.append(dict(base_d, kw=kwd, ops=[((), ("validate", True)), ((), ("reset", "items")), ((), ("reset", "sub"))], kind="matrix-ctor"))
    # ---- an item that lives in one list offered to another list over the same item schema (always the last step) ----
    fields_m = [("a", {"t": "cfglist", "required": False, "vals": [], "fields": item}),
                ("b", {"t": "cfglist", "required": False, "vals": [], "fields": item, "same_as": ("a",)}),
                ("sub", {"t": "sub", "dyn": False, "vals": [], "fields": [
                    ("x", {"t": "leaf", "kind": ("int", None, None), "required": False, "default": 1, "callable": False, "sensitive": False}),
                    ("c", {"t": "cfglist", "required": True, "vals": [], "fields": item, "same_as": ("a",)})]})]
    base_m = {"vt": [], "dyn": False, "vals": [], "fields": fields_m}
    kw_m = {"a": [{"n": 1}, {"n": 2, "s": "two"}], "b": [{"n": 3}], "sub": {"c": [{"n": 4}]}}
    breaks = [[], [(I("a", 0), ("reset", "n"))], [(I("a", 0), ("set", "s", "zz", "attr")), (I("a", 0), ("reset", "n"))], [(I("a", 1), ("reset", "n")), (I("a", 0), ("set", "s", "zz", "attr"))]]
    for brk in breaks:
        for j in (0, 1, 7):
            for kind, i in (("appendobj", None), ("insertobj", 0), ("insertobj", -1), ("setidxobj", 0), ("setidxobj", 5)):
                cases.append(dict(base_m, kw=kw_m, ops=brk + [((), ("moveobj", kind, "b", i, I("a", j)))], kind="matrix-move"))
            cases.append(dict(base_m, kw=kw_m, ops=brk + [(K("sub"), ("moveobj", "appendobj", "c", None, I("a", j)))], kind="matrix-move"))
            cases.append(dict(base_m, kw=kw_m, ops=brk + [(K("sub"), ("moveobj", "setidxobj", "c", 0, I("a", j)))], kind="matrix-move"))
    for brk in ([], [(K("sub") + I("c", 0), ("reset", "n"))]):
        for kind, i in (("appendobj", None), ("insertobj", 1), ("setidxobj", 1)):
            cases.append(dict(base_m, kw=kw_m, ops=brk + [((), ("moveobj", kind, "a", i, K("sub") + I("c", 0)))], kind="matrix-move"))
            cases.append(dict(base_m, kw=kw_m, ops=brk + [((), ("moveobj", kind, "b", i, K("sub") + I("c", 0)))], kind="matrix-move"))
    cases.append(dict(base_m, kw={"a": [{"n": 1}]}, ops=[(I("a", 0), ("reset", "n")), ((), ("moveobj", "appendobj", "b", None, I("a", 0)))], kind="matrix-move"))
    # after a REFUSED offer the item is still where it was, in every respect: a later rejected assignment on it names its real
    # place, whole-configuration validation names it there, it can be repaired in place and offered again
    after_refusal = [[(I("a", 0), ("set", "s", "TOOLONG", "attr"))], [(I("a", 0), ("set", "n", 99, "dotted"))], [((), ("validate", False))],
                     [((), ("validate", True))], [(I("a", 0), ("validate", False))], [(I("a", 0), ("set", "n", 5, "attr")), ((), ("validate", False))],
                     [(I("a", 0), ("set", "n", 5, "attr")), ((), ("moveobj", "appendobj", "b", None, I("a", 0)))],
                     [((), ("moveobj", "insertobj", "b", 0, I("a", 0))), (I("a", 0), ("set", "s", "TOOLONG", "attr"))],
                     [((), ("reset", "a"))], [((), ("append", "a", {"n": 7})), (I("a", 0), ("set", "n", "bad", "attr"))],
                     [((), ("insert", "a", 0, {"n": 7})), (I("a", 1), ("set", "n", "bad", "attr")), ((), ("validate", True))]]
    for brk in breaks[1:3]:
        for kind, i in (("appendobj", None), ("insertobj", 0), ("setidxobj", 0), ("setidxobj", 5)):
            for tail in after_refusal:
                cases.append(dict(base_m, kw=kw_m, ops=brk + [((), ("moveobj", kind, "b", i, I("a", 0)))] + tail, kind="matrix-move2"))
        for tail in after_refusal[:6]:
            cases.append(dict(base_m, kw=kw_m, ops=brk + [(K("sub"), ("moveobj", "appendobj", "c", None, I("a", 0)))] + tail, kind="matrix-move2"))
    for tail in ([(K("sub") + I("c", 0), ("set", "s", "TOOLONG", "attr"))], [(K("sub") + I("c", 0), ("set", "n", -1, "dotted")), ((), ("validate", True))],
                 [(K("sub"), ("validate", False))]):
        for kind, i in (("appendobj", None), ("setidxobj", 0)):
            cases.append(dict(base_m, kw=kw_m, ops=[(K("sub") + I("c", 0), ("reset", "n")), ((), ("moveobj", kind, "b", i, K("sub") + I("c", 0)))] + tail,
                              kind="matrix-move2"))
    # a refused side-built object goes back to being nobody's: assigned to a sub-configuration slot afterwards it is named there
    # ---- lists whose items are EQUAL to one another and to a blank item (all fields defaulted), plain and config-type items:
    #      a refused map / object must leave the very same item objects at the very same positions ----
    eq_item = [("n", {"t": "leaf", "kind": ("int", 0, 10), "required": False, "default": 3, "callable": False, "sensitive": False}),
               ("s", {"t": "leaf", "kind": ("str", None, 5, False, False), "required": False, "default": "d", "callable": False, "sensitive": False})]
    fields_e = [("rows", {"t": "cfglist", "required": False, "vals": [], "fields": eq_item, "ct": True}),
                ("items", {"t": "cfglist", "required": False, "vals": [], "fields": eq_item})]
    base_e = {"vt": [], "dyn": False, "vals": [], "fields": fields_e}
    refused_items = [{"n": 99}, {"s": "TOOLONG"}, {"n": 4, "s": "TOOLONG"}, {"s": "ok", "n": -1}, {"zz": 1}, 7]
    for lk in ("rows", "items"):
        for kwv in ([{}, {}], [{}, {"n": 5}, {}], [{"n": 5}, {"n": 5}], [{}]):
            for x in refused_items:
                for o in (("append", lk, x), ("insert", lk, 0, x), ("insert", lk, -1, x), ("setidx", lk, 0, x), ("setidx", lk, len(kwv) - 1, x)):
                    cases.append(dict(base_e, kw={lk: kwv}, ops=[((), o), ((), ("validate", True))], kind="matrix-eq"))
            for o in (("appendobj", lk, Obj((lk,), [S("n", 3)])), ("appendobj", lk, Obj((lk,), [])), ("append", lk, {}), ("append", lk, {"n": 3}),
                      ("setidxobj", lk, 0, Obj((lk,), [])), ("insertobj", lk, 0, Obj((lk,), []))):
                cases.append(dict(base_e, kw={lk: kwv}, ops=[((), o), ((), ("append", lk, {"n": 99})), ((), ("validate", True))], kind="matrix-eq"))
    # ---- a list inside a sub-configuration inside a list item: a ready-made item that is refused is named by the full path of
    #      the position it was offered for ----
    srv = [("host", {"t": "leaf", "kind": ("str", 1, None, False, True), "required": True, "default": None, "callable": False, "sensitive": False}),
           ("port", {"t": "leaf", "kind": ("int", 1, 65535), "required": False, "default": 80, "callable": False, "sensitive": False})]
    fields_p = [("pool", {"t": "cfglist", "required": False, "vals": [], "fields": [
        ("name", {"t": "leaf", "kind": ("str", None, None, False, False), "required": False, "default": "p", "callable": False, "sensitive": False}),
        ("grp", {"t": "sub", "dyn": False, "vals": [], "fields": [
            ("servers", {"t": "cfglist", "required": False, "vals": [], "fields": srv}),
            ("spare", {"t": "cfglist", "required": False, "vals": [], "fields": srv, "same_as": ("pool", "grp", "servers")})]})]})]
    base_p = {"vt": [], "dyn": False, "vals": [], "fields": fields_p}
    kw_p = {"pool": [{"name": "one", "grp": {"servers": [{"host": "h1"}], "spare": [{"host": "s1"}, {"host": "s2", "port": 81}]}}, {"name": "two", "grp": {"servers": []}}]}
    G = lambda j: (("item", "pool", j), ("key", "grp"))          # noqa: E731
    SP = ("pool", "grp", "servers")
    for j in (0, 1):
        for d in ([], [S("port", 99999)], [S("host", "  ")], [S("host", "ok")], [S("host", "ok"), S("port", 0)]):
            for o in (("appendobj", "servers", Obj(SP, d)), ("insertobj", "servers", 0, Obj(SP, d)), ("setidxobj", "servers", 0, Obj(SP, d)),
                      ("appendobj", "spare", Obj(SP, d))):
                cases.append(dict(base_p, kw=kw_p, ops=[(G(j), o), ((), ("validate", True))], kind="matrix-nest"))
        cases.append(dict(base_p, kw=kw_p, ops=[(G(j), ("append", "servers", {"port": 5})), (G(j), ("append", "servers", {"host": "x", "port": 0}))], kind="matrix-nest"))
    for tail in ([], [(G(0) + (("item", "spare", 0),), ("set", "port", 0, "attr"))], [((), ("validate", False))]):
        cases.append(dict(base_p, kw=kw_p, ops=[(G(0) + (("item", "spare", 0),), ("reset", "host")),
                                                (G(0), ("moveobj", "appendobj", "servers", None, G(0) + (("item", "spare", 0),)))] + tail, kind="matrix-nest"))
        cases.append(dict(base_p, kw=kw_p, ops=[(G(0) + (("item", "spare", 1),), ("reset", "host")),
                                                (G(1), ("moveobj", "insertobj", "servers", 0, G(0) + (("item", "spare", 1),)))] + tail, kind="matrix-nest"))
    # ---- documents that parse and are refused as a whole before load_tree starts: an include that cannot be resolved; a root
    #      that is a sequence of key/value pairs.  Dynamic roots with run-time keys set before the load. ----
    fields_i = [("n", {"t": "leaf", "kind": ("int", 1, 100), "required": False, "default": 3, "callable": False, "sensitive": False}),
                ("inc", {"t": "leaf", "kind": ("include",), "required": False, "default": None, "callable": False, "sensitive": False}),
                ("s", {"t": "leaf", "kind": ("str", None, 6, False, False), "required": False, "default": "dflt", "callable": False, "sensitive": False})]
    fields_flat = [fields_i[0], fields_i[2]]
    pre_dyn = [[], [((), ("set", "extra", 1, "attr"))], [((), ("set", "extra", 1, "attr")), ((), ("set", "nokey", "v", "dotted")), ((), ("set", "n", 9, "attr"))],
               [((), ("load", {"zz": [1], "s": "w"}, True))]]
    for fmt in FORMATS:
        for pre in pre_dyn:
            for tree in ({"n": 8}, {"n": 8, "extra": 2}, {}):
                cases.append({"vt": [], "dyn": True, "vals": [], "fields": fields_i, "kw": {}, "kind": "matrix-inc",
                              "ops": pre + [((), ("loads", fmt, tree, "badinclude")), ((), ("validate", True))]})
        cases.append({"vt": [], "dyn": False, "vals": [], "fields": fields_i, "kw": {"n": 5}, "kind": "matrix-inc",
                      "ops": [((), ("loads", fmt, {"n": 8, "s": "x"}, "badinclude")), ((), ("loads", fmt, {"n": 8, "s": "x"}, "none"))]})
    for fmt in ("json", "yaml", "pickle"):
        for dmg in PAIR_DAMAGE:
            if fmt != "pickle" and dmg == "pairstuple":
                continue
            for dyn in (False, True):
                for pre in ([], [((), ("set", "n", 5, "attr"))]) + (([((), ("set", "extra", 1, "attr"))],) if dyn else ()):
                    for tree in ({"n": 9}, {"n": 9, "s": "zz"}, {"s": "ok", "n": 500}):
                        cases.append({"vt": [], "dyn": dyn, "vals": [], "fields": fields_flat, "kw": {}, "kind": "matrix-pairs",
                                      "ops": pre + [((), ("loads", fmt, tree, dmg)), ((), ("validate", True))]})
    # ---- required strings: "not empty", whatever min_len says (0, 1, none), assigned / loaded / defaulted, with and without strip ----
    def _rs(mn, strip, dflt):
        return {"t": "leaf", "kind": ("str", mn, None, False, strip), "required": True, "default": dflt, "callable": False, "sensitive": False}
    fields_r = [("r0", _rs(0, False, "x")), ("r0s", _rs(0, True, "x")), ("r1", _rs(1, True, "x")), ("rn", _rs(None, True, "x")),
                ("sub", {"t": "sub", "dyn": False, "vals": [], "fields": [("q", _rs(0, True, None))]})]
    base_r = {"vt": [], "dyn": False, "vals": [], "fields": fields_r}
    for key in ("r0", "r0s", "r1", "rn"):
        for val in ("", "  ", " a ", None):
            cases.append(dict(base_r, kw={"sub": {"q": "v"}}, ops=[((), ("set", key, val, "attr")), ((), ("validate", False))], kind="matrix-req"))
            cases.append(dict(base_r, kw={"sub": {"q": "v"}}, ops=[((), ("load", {key: val}, True)), ((), ("validate", True))], kind="matrix-req"))
            cases.append(dict(base_r, kw={"sub": {"q": "v"}}, ops=[((), ("loads", "json", {key: val}, "none")), ((), ("validate", False))], kind="matrix-req"))
            cases.append(dict(base_r, kw={key: val, "sub": {"q": "v"}}, ops=[((), ("validate", False))], kind="matrix-req"))
    for val in ("", "   ", "v"):
        cases.append(dict(base_r, kw={}, ops=[(K("sub"), ("set", "q", val, "dotted")), ((), ("validate", False)), ((), ("load", {}, True))], kind="matrix-req"))
        cases.append(dict(base_r, kw={}, ops=[((), ("set", "sub", {"q": val}, "attr")), ((), ("validate", True))], kind="matrix-req"))
    for dflt in ("", "x"):      # a declared default "" for a required string: the fresh configuration must not validate
        fl = [("d0", _rs(0, False, dflt)), ("dn", _rs(None, False, "x"))]
        for tail in ([((), ("validate", False))], [((), ("validate", True))], [((), ("load", {}, True))], [((), ("loads", "yaml", {"dn": "y"}, "none"))],
                     [((), ("set", "d0", "ok", "attr")), ((), ("reset", "d0")), ((), ("validate", False))]):
            cases.append({"vt": [], "dyn": False, "vals": [], "fields": fl, "kw": {}, "ops": list(tail), "kind": "matrix-req"})
    kw2 = {"items": [{"n": 1}, {"n": 2, "s": "two"}]}
    for i, o in enumerate(obj_ops):
        cases.append(dict(base, kw={}, ops=[o], kind="matrix-obj"))
        cases.append(dict(base, kw=kw2, ops=[o], kind="matrix-obj"))
        # followed by both validations, and by a rotating choice of the other probes
        for pr in probes[:2] + [probes[2 + (i + j) % (len(probes) - 2)] for j in (0, 3, 5)]:
            cases.append(dict(base, kw=kw2, ops=[o, pr], kind="matrix-obj2"))
        cases.append(dict(base, kw={}, ops=[((), ("set", "items", [], "attr")), o, ((), ("validate", True))], kind="matrix-obj2"))
    for o1 in obj_ops[::4]:
        for o2 in obj_ops[1::6]:
            cases.append(dict(base, kw=kw2, ops=[o1, o2, ((), ("validate", True))], kind="matrix-obj2"))
    for seq in reoffered:
        cases.append(dict(base, kw=kw2, ops=seq, kind="matrix-again"))
        if not any(o[0] == "alias" for _, o in seq):        # (the alias step names a position in the two-item list)
            cases.append(dict(base, kw={"items": []}, ops=seq, kind="matrix-again"))
        for n in range(2, len(seq)):
            cases.append(dict(base, kw=kw2, ops=seq[:n], kind="matrix-again"))
    for seq in reoffered_b:
        cases.append(dict(base_b, kw={}, ops=seq, kind="matrix-again"))
    for seq in aliased:
        cases.append(dict(base, kw={}, ops=seq, kind="matrix-alias"))
    for seq in aliased_items:
        cases.append(dict(base, kw=kw2, ops=seq, kind="matrix-alias"))
    for i, o in enumerate(obj_ops_b):
        cases.append(dict(base_b, kw={}, ops=[o], kind="matrix-objb"))
        for pr in probes_b:
            cases.append(dict(base_b, kw={}, ops=[o, pr], kind="matrix-objb"))
        for pr in probes_b[2:]:
            cases.append(dict(base_b, kw={}, ops=[pr, o, ((), ("validate", True))], kind="matrix-objb"))
    # constructor keywords: the object is handed to Config.__init__
    for d in sub_srcs[:4]:
        cases.append(dict(base, kw={"sub": Obj(("sub",), d)}, ops=[((), ("validate", True)), (K("sub"), ("set", "a", 3, "attr"))], kind="matrix-ctor"))
    cases.append(dict(base, kw={"sub": Obj(("sub",), sub_srcs[1]), "n": 7}, ops=[((), ("reset", "sub"))], kind="matrix-ctor"))
    for k in ("n", "s", "items", "nokey"):
        cases.append(dict(base, kw={k: Obj(("sub",), [])}, ops=[], kind="matrix-ctor"))
    for d in typed_srcs:
        cases.append(dict(base_b, kw={"typed": Obj(("typed",), d)}, ops=[((), ("validate", False)), ((), ("validate", True))], kind="matrix-ctor"))
        cases.append(dict(base_b, kw={"typed": Obj(("typed",), d), "rows": [{"n": 1}]}, ops=[((), ("validate", False))], kind="matrix-ctor"))
    # the list operations again on a configuration whose list already holds two items (constructor keyword)
    for o in ops:
        touches_list = (o[1][0] in ("append", "insert", "setidx") or (o[1][0] in ("set", "reset") and o[1][1] == "items")
                        or any(p[0] == "item" for p in o[0]))
        if touches_list:
            cases.append(dict(base, kw={"items": [{"n": 1}, {"n": 2, "s": "two"}]}, ops=[o], kind="matrix1c"))
            cases.append(dict(base, kw={"items": [{"n": 1}, {"n": 2, "s": "two"}]}, ops=[o, ((), ("validate", True))], kind="matrix1c"))
    for o in ops_b:
        cases.append(dict(base_b, kw={}, ops=[o], kind="matrix1b"))
    for o1, o2 in itertools.product(ops_b, repeat=2):
        cases.append(dict(base_b, kw={}, ops=[o1, o2], kind="matrix2b"))
    for o in ops:
        cases.append(dict(base, kw={}, ops=[o], kind="matrix1"))
    # documents that parse but put a scalar / list / null where a sub-configuration or a list of configurations is declared
    for fmt in FORMATS:
        for tree in ({"sub": 5}, {"sub": None}, {"sub": [1]}, {"sub": "x"}, {"sub": {"inner": 5}}, {"sub": {"inner": None}}, {"sub": {"inner": [1]}},
                     {"items": 5}, {"items": {"n": 1}}, {"items": [5]}, {"items": [[1]]}, {"n": {"a": 1}}, {"n": [1]}, {"sub": True}):
            cases.append(dict(base, kw={}, ops=[((), ("loads", fmt, tree, "none"))], kind="matrix1"))
    for kwk, kwv in [("n", None), ("c", None), ("n", 5), ("n", 0), ("s", " Ab "), ("s", ""), ("sub", {"a": 1}), ("sub", {"a": 100}), ("items", [{"n": 1}]),
                     ("items", [{"n": 50}]), ("nokey", 1), ("c", {"x": [1]})]:
        cases.append(dict(base, kw={kwk: kwv}, ops=[((), ("validate", True))], kind="matrix-ctor"))
    return cases, ops, base


THIN = {"matrix-dyn": 3, "matrix-dflt2": 2, "matrix-obj2": 2, "matrix-objb": 2, "matrix2b": 2, "matrix-pairs": 2}


def matrix_pairs(ops, base, stride, offset):
    cases = []
    for idx, (o1, o2) in enumerate(itertools.product(ops, repeat=2)):
        if idx % stride == offset:
            cases.append(dict(base, kw={}, ops=[o1, o2], kind="matrix2"))
    return cases


def generate_for(prop, rng, tier):
    cases, ops, base = matrix_cases()
    # ordered pairs: a slice per run in the quick tier (the seed picks it), all of them in the thorough tier
    if tier == "quick":
        # the families made of ordered pairs / triples of operations are thinned the same way (every single operation, every
        # clause-specific family -- move, inc, pairs-root, req, again, alias, ctor -- and the [operation, validation] pairs stay whole)
        pick = rng.randrange(48)
        seen = {}
        kept = []
        for c in cases:
            n = THIN.get(c["kind"], 1)
            if n > 1 and c["kind"] in ("matrix-obj2", "matrix-objb") and len(c["ops"]) < 3:
                n = 1
            i = seen[c["kind"]] = seen.get(c["kind"], -1) + 1
            if n == 1 or i % n == pick % n:
                kept.append(c)
        cases = kept
        cases += matrix_pairs(ops, base, 20, rng.randrange(20))
    else:
        cases += matrix_pairs(ops, base, 1, 0)
    n = 500 if tier == "quick" else 8000
    for _ in range(n):
        c = rcase(rng, prop, 8 if tier == "quick" else 20, objs=True)
        c["kind"] = "random"
        cases.append(c)
    for c in cases:
        c["prop"] = prop
        # a document whose root is not a map (an empty YAML document is `null`) is not a value for any declared field
        # and fails inside the include scan with AttributeError: outside every property here, never generated
        for i, (ps, o) in enumerate(c["ops"]):
            if o[0] == "loads":
                for dmg in (o[3], "garbage", "truncate", "none"):
                    if parse_direct(o[1], make_document(o[1], o[2], dmg), o[2]) != ("err", "notamap"):
                        c["ops"][i] = (ps, ("loads", o[1], o[2], dmg))
                        break
    return cases


def generate(rng, tier):
    return generate_for("C01", rng, tier)


# ---------------------------------------------------------------------------------------------
# Gallina literal of a case
# ---------------------------------------------------------------------------------------------
def g_optz(v):
    return g_opt(v, lambda z: g_z(z))


def g_optnat(v):
    return g_opt(v, lambda n: "%d%%nat" % n)


def g_leaf(nd):
    k = nd["kind"]
    if k[0] == "include":
        # an IncludeField: a file name that is only ever read by the include step of `loads`; to the configuration state machine it
        # is an optional string leaf that nothing here assigns (Schema._validate skips it)
        kind = "(LStr None None false false)"
    elif k[0] == "int":
        kind = "(LInt %s %s)" % (g_optz(k[1]), g_optz(k[2]))
    elif k[0] == "str":
        kind = "(LStr %s %s %s %s)" % (g_optnat(k[1]), g_optnat(k[2]), g_bool(k[3]), g_bool(k[4]))
    else:
        kind = {"bool": "LBool", "flag": "LFlag", "any": "LAny"}[k[0]]
    return "(NLeaf {| l_kind := %s; l_required := %s; l_default := %s; l_callable := %s; l_sensitive := %s; l_reject := %s |})" % (
        kind, g_bool(nd["required"]), gal(nd["default"]), g_bool(nd["callable"]), g_bool(nd["sensitive"]),
        "None" if nd.get("reject") is None else "(Some %s)" % gal(nd["reject"]))


def g_node(nd):
    if nd["t"] == "leaf":
        return g_leaf(nd)
    if nd["t"] == "sub":
        return "(NSub %s %s %s)" % (g_bool(nd["dyn"]), g_list(nd["vals"], g_n), g_fields(nd["fields"]))
    return "(NCfgList %s %s %s %s)" % (g_bool(nd["required"]), g_list(nd["vals"], g_n), g_fields(nd["fields"]), g_dflt(nd.get("default")))


def g_dflt(d):
    if d is None:
        return "None"
    return "(Some (%s,%s))" % (g_bool(d["callable"]), g_list(d["maps"], gal))


def g_fields(fields):
    return g_list(fields, lambda kn: "(%s,%s)" % (g_str(kn[0]), g_node(kn[1])))


def g_ps(ps):
    def one(p):
        if p[0] == "key":
            return "(PKey %s)" % g_str(p[1])
        return "(PItem %s %d%%nat)" % (g_str(p[1]), p[2])
    return g_list(ps, one)


def g_op(o):
    if o[0] == "set":
        return "(CSet %s %s)" % (g_str(o[1]), gal(o[2]))
    if o[0] == "load":
        return "(CLoad %s %s)" % (gal(o[1]), g_bool(o[2]))
    if o[0] == "reset":
        return "(CReset %s)" % g_str(o[1])
    if o[0] == "append":
        return "(CAppend %s %s)" % (g_str(o[1]), gal(o[2]))
    if o[0] == "setidx":
        return "(CSetIdx %s %d%%nat %s)" % (g_str(o[1]), o[2], gal(o[3]))
    if o[0] == "validate":
        return "(CValidate %s)" % g_bool(o[1])
    if o[0] == "insert":
        return "(CInsert %s %s %s)" % (g_str(o[1]), g_z(o[2]) if o[2] >= 0 else "(%d)" % o[2], gal(o[3]))
    if o[0] == "loads":
        parsed = parse_direct(o[1], make_document(o[1], o[2], o[3]), o[2])
        if parsed[0] == "ok":
            return "(CLoads (Ok %s))" % gal(parsed[1])
        if isinstance(parsed[1], tuple):
            return "(CLoads (Err (EValidation %s)))" % g_str(parsed[1][1])
        return "(CLoads (Err %s))" % {"value": "EValue", "type": "EType", "key": "EKey", "index": "EIndex", "attribute": "EAttribute",
                                      "unicode": "EUnicode", "overflow": "EOverflow", "os": "EOS"}.get(parsed[1], "EOtherExn")
    raise Broken("bad op %r" % (o,))


def g_xop(o, fields, gf=None):
    """an operation of a history: a plain one wrapped, or the recipe of a side-built configuration object (the schema node it
    is built from is printed in full: the model builds the object itself)"""
    if o[0] in OBJ_KINDS:
        src = obj_of(o)
        nd = node_by_sp(fields, src.sp)
        if o[0] == "setobj":
            route = "RSet"
        elif o[0] == "appendobj":
            route = "RAppend"
        elif o[0] == "setidxobj":
            route = "(RSetIdx %d%%nat)" % o[2]
        else:
            route = "(RInsert %s)" % (g_z(o[2]) if o[2] >= 0 else "(%d)" % o[2])
        return "(XObj %s %s %s)" % (route, g_str(o[1]), g_src(src, nd, gf))
    return "(XOp %s)" % g_op(o)


def g_src(src, nd, gf=None):
    sdyn = nd["dyn"] if nd["t"] == "sub" else False
    dops = g_list(src.ops, lambda po: "(%s,%s)" % (g_ps(po[0]), g_op(po[1])))
    return "%s %s %s %s" % (g_bool(sdyn), g_list(nd["vals"], g_n), (gf or g_fields)(nd["fields"]), dops)


def g_route(kind, i):
    if kind == "setobj":
        return "RSet"
    if kind == "appendobj":
        return "RAppend"
    if kind == "setidxobj":
        return "(RSetIdx %d%%nat)" % i
    return "(RInsert %s)" % (g_z(i) if i >= 0 else "(%d)" % i)


def g_pop(po, fields, gf=None):
    ps, o = po
    if o[0] == "moveobj":
        return "(%s,(XFrom %s %s %s))" % (g_ps(ps), g_route(o[1], o[3]), g_str(o[2]), g_ps(o[4]))
    if o[0] == "again":
        dops = g_list(o[4], lambda q: "(%s,%s)" % (g_ps(q[0]), g_op(q[1])))
        return "(%s,(XAgain %s %s %s))" % (g_ps(ps), g_route(o[1], o[3]), g_str(o[2]), dops)
    if o[0] == "alias":
        return "(%s,(XOp %s))" % (g_ps(list(ps) + list(o[1])), g_op(o[2]))
    return "(%s,%s)" % (g_ps(ps), g_xop(o, fields, gf))


def g_kwv(v, fields):
    if isinstance(v, Obj):
        return "(KObj %s)" % g_src(v, node_by_sp(fields, v.sp))
    return "(KV %s)" % gal(v)


# ---------------------------------------------------------------------------------------------
# documents, written and parsed WITHOUT cincoconfig (json / yaml / bson / pickle directly; XML by a printer of the
# documented layout) so that "does this document parse, and to what" is decided by the libraries themselves
# ---------------------------------------------------------------------------------------------
def _xml_value(k, v):
    from xml.sax.saxutils import escape
    if v is None:
        return '<%s type="none" />' % k
    if isinstance(v, bool):
        return '<%s type="bool">%s</%s>' % (k, "true" if v else "false", k)
    if isinstance(v, int):
        return '<%s type="int">%d</%s>' % (k, v, k)
    if isinstance(v, str):
        return '<%s type="str">%s</%s>' % (k, escape(v), k)
    if isinstance(v, list):
        return '<%s type="list">%s</%s>' % (k, "".join(_xml_value("item", x) for x in v), k)
    return '<%s type="dict">%s</%s>' % (k, "".join(_xml_value(kk, x) for kk, x in v.items()), k)


def make_document(fmt, tree, damage):
    import json as _json
    import pickle as _pickle
    if damage in PAIR_DAMAGE:
        # a root that is not a map but LOOKS like one to dict.update: key/value pairs naming the fields of the tree, maybe junk after
        pairs = [[k, v] for k, v in tree.items()]
        root = {"pairs": pairs, "pairsjunk": pairs + [7], "pairs1": pairs[:1], "pairstuple": tuple(tuple(p) for p in pairs),
                "emptylist": []}[damage]
        if fmt == "json":
            return _json.dumps(root).encode()
        if fmt == "yaml":
            import yaml
            return yaml.safe_dump(untuple(root), sort_keys=False).encode()
        if fmt == "pickle":
            return _pickle.dumps(root)
        damage = "garbage"          # bson / xml cannot carry such a root
    if damage == "badinclude":
        tree = dict(tree, inc=MISSING_INCLUDE + "." + fmt)
    if fmt == "json":
        doc = _json.dumps(tree).encode()
    elif fmt == "yaml":
        import yaml
        doc = yaml.safe_dump(tree, sort_keys=False).encode()
    elif fmt == "bson":
        import bson
        doc = bson.dumps(tree)
    elif fmt == "pickle":
        doc = _pickle.dumps(tree)
    else:
        root = "wrong" if damage == "wrongroot" else "config"
        doc = ("<%s>%s</%s>" % (root, "".join(_xml_value(k, v) for k, v in tree.items()), root)).encode()
    if damage == "truncate":
        doc = doc[:max(1, len(doc) // 2)]
    elif damage == "truncate3":
        doc = doc[:max(1, len(doc) - 3)]
    elif damage == "empty":
        doc = b""
    elif damage == "garbage":
        doc = b"\xff\xfe\x00{{{<<<" + doc[:5]
    return doc


def parse_direct(fmt, doc, tree):
    """("ok", tree) / ("err", kind): what the format's library makes of the bytes"""
    import json as _json
    import pickle as _pickle
    try:
        if fmt == "json":
            t = _json.loads(doc.decode())
        elif fmt == "yaml":
            import yaml
            t = yaml.safe_load(doc.decode())
        elif fmt == "bson":
            import bson
            t = bson.loads(doc)
        elif fmt == "pickle":
            t = _pickle.loads(doc)
        else:
            import xml.etree.ElementTree as ET
            root = ET.fromstring(doc.decode())
            if root.tag != "config":
                return ("err", "value")
            t = tree          # an undamaged document of the documented layout (the codec itself is C04's)
            if root.find("inc") is not None and "inc" not in t:
                t = dict(t, inc=root.find("inc").text)
    except Exception as e:  # noqa
        return ("err", errkind(e))
    if isinstance(t, (list, tuple)):
        # a root that is a sequence: the code reads a document's root as a map (`tree.get`, `tree.items`) before it writes anything
        return ("err", "attribute")
    if not isinstance(t, dict):
        return ("err", "notamap")       # a document whose root is not a map: not a declared field's value, never generated on purpose
    if isinstance(t.get("inc"), str) and t["inc"].startswith(MISSING_INCLUDE):
        # the schemas that declare `inc` declare it as an IncludeField at the root: the named file does not exist, the include step
        # refuses the whole document before load_tree starts
        import os as _os
        if not _os.path.exists(t["inc"]):
            return ("err", ("validation", "inc"))
    return ("ok", t)


def gcase(c):
    vt = g_list(c["vt"], lambda v: "(%s,(%s,%s))" % (g_n(v[0]), g_str(v[1]), g_str(v[2])))
    kw = g_list(c["kw"].items(), lambda kv: "(%s,%s)" % (g_str(kv[0]), g_kwv(kv[1], c["fields"])))
    ops = g_list(c["ops"], lambda po: g_pop(po, c["fields"]))
    return "(%s, %s, %s, %s, %s, %s)" % (vt, g_bool(c["dyn"]), g_list(c["vals"], g_n), g_fields(c["fields"]), kw, ops)


# ---------------------------------------------------------------------------------------------
# the implementation side
# ---------------------------------------------------------------------------------------------
class Built:
    """real schema objects of a case, with the bookkeeping the oracles need"""
    def __init__(self, c):
        from cincoconfig import Schema, ListField, IntField, StringField, BoolField, FeatureFlagField, AnyField, make_type
        self.counter = itertools.count()
        self.ntypes = 0
        self.makers = {}        # static schema path -> callable building a fresh, parentless configuration of that node
        self.keep = []          # side-built configurations stay alive: id() must not be reused within a case
        CURRENT[0] = self
        LAST_OBJ[0] = None
        KEPT[0] = None
        self.vt = {n: (k, bad) for n, k, bad in c["vt"]}
        self.validator_log = []

        def mk_validator(n):
            key, bad = self.vt[n]

            def v(cfg):
                self.validator_log.append(n)
                if cfg._data.get(key) == bad and isinstance(cfg._data.get(key), str):
                    raise ValueError("validator %d" % n)
            return v

        def mk_leaf(nd):
            k = nd["kind"]
            d = nd["default"]
            if nd["callable"]:
                base = d
                d = lambda: base + next(self.counter)   # noqa: E731
            elif isinstance(d, (list, dict)):
                d = copy.deepcopy(d)
            kw = dict(required=nd["required"], default=d, sensitive=nd["sensitive"])
            if nd.get("name"):
                kw["name"] = nd["name"]
            if nd.get("reject") is not None:
                refused = nd["reject"]

                def field_validator(cfg, value, refused=refused):
                    if type(value) is type(refused) and value == refused:
                        raise ValueError("the field's validator refuses this value")
                    return value
                kw["validator"] = field_validator
            if k[0] == "include":
                from cincoconfig import IncludeField
                return IncludeField()
            if k[0] == "int":
                return IntField(min=k[1], max=k[2], **kw)
            if k[0] == "str":
                return StringField(min_len=k[1], max_len=k[2], transform_case="lower" if k[3] else None, transform_strip=k[4] or None, **kw)
            if k[0] == "bool":
                return BoolField(**kw)
            if k[0] == "flag":
                return FeatureFlagField(**kw)
            return AnyField(**kw)

        def mk_schema(fields, dyn, vals, sp=()):
            s = Schema(dynamic=dyn)
            for k, nd in fields:
                if nd["t"] == "leaf":
                    s._add_field(k, mk_leaf(nd))
                elif nd["t"] == "sub":
                    sub = mk_schema(nd["fields"], nd["dyn"], nd["vals"], sp + (k,))
                    if nd.get("ct"):
                        self.ntypes += 1
                        sub = make_type(sub, "CT%d" % self.ntypes)
                    s._add_field(k, sub)
                    self.makers[sp + (k,)] = sub          # schema.sub() / the configuration type: CT()
                else:
                    twin = nd.get("same_as") or (sp + (nd["same_as_sibling"],) if nd.get("same_as_sibling") else None)
                    if twin is not None:
                        twin = tuple(twin)
                        item = self.makers[twin]              # the very same item schema object as that list (declared before)
                        for key, mk in list(self.makers.items()):
                            if key[:len(twin)] == twin and len(key) > len(twin):
                                self.makers[sp + (k,) + key[len(twin):]] = mk
                    else:
                        item = mk_schema(nd["fields"], False, nd["vals"], sp + (k,))
                        if nd.get("ct"):
                            self.ntypes += 1
                            item = make_type(item, "IT%d" % self.ntypes)
                    lkw = {}
                    if nd.get("default") is not None:
                        maps = copy.deepcopy(nd["default"]["maps"])
                        if nd["default"]["callable"]:
                            # one more evaluation in the shared count of callable defaults, a new list of new maps every time
                            lkw["default"] = lambda maps=maps: (next(self.counter), copy.deepcopy(maps))[1]
                        else:
                            lkw["default"] = maps
                    s._add_field(k, ListField(item, required=nd["required"], **lkw))
                    self.makers[sp + (k,)] = item         # the item schema / item type
            for n in vals:
                s._validators.append(mk_validator(n))
            return s
        self.schema = mk_schema(c["fields"], c["dyn"], c["vals"])


def pjoin(pre, k):
    return pre + "." + k if pre else k


def errkind(e):
    from cincoconfig import ValidationError
    if isinstance(e, ValidationError):
        return ("validation", e.ref_path)
    for cls, name in ((AttributeError, "attribute"), (KeyError, "key"), (IndexError, "index"), (TypeError, "type"),
                      (OverflowError, "overflow"), (UnicodeError, "unicode"), (ValueError, "value"), (OSError, "os")):
        if isinstance(e, cls):
            return name
    return "other"


def is_cfg(v):
    from cincoconfig import Config
    return isinstance(v, Config)


def snap_val(v):
    from cincoconfig.fields.list_field import ListProxy
    if is_cfg(v):
        return snap_cfg(v)
    if isinstance(v, ListProxy) and (len(v) == 0 or all(is_cfg(i) for i in v)) and not isinstance(v.item_field, type(None)) \
            and (type(v.item_field).__name__ == "Schema" or isinstance(v.item_field, type)):
        return Proxy(0, [snap_cfg(i) for i in v])
    return copy.deepcopy(v)


def snap_cfg(c):
    data = {k: snap_val(c._data[k]) for k in sorted(c._data)}
    return (data, sorted(c._default_value_keys), sorted(c._fields))


def walk_cfgs(c, pre=""):
    """(path, config object) for every configuration in the tree"""
    from cincoconfig.fields.list_field import ListProxy
    out = [(pre, c)]
    for k, v in c._data.items():
        if is_cfg(v):
            out += walk_cfgs(v, pjoin(pre, k))
        elif isinstance(v, ListProxy):
            for i, it in enumerate(v):
                if is_cfg(it):
                    out += walk_cfgs(it, "%s[%d]" % (pjoin(pre, k), i))
    return out


def navigate(root, ps):
    from cincoconfig import Schema, ListField
    from cincoconfig.core import ConfigTypeField
    from cincoconfig.fields.list_field import ListProxy
    cfg = root
    for p in ps:
        fld = cfg._schema._fields.get(p[1])
        val = cfg._data.get(p[1])
        if p[0] == "key":
            if not isinstance(fld, (Schema, ConfigTypeField)) or not is_cfg(val):
                return None
            cfg = val
        else:
            if not (isinstance(fld, ListField) and (isinstance(fld.field, Schema) or isinstance(fld.field, type))) or not isinstance(val, ListProxy):
                return None
            if not 0 <= p[2] < len(val):
                return None
            cfg = val[p[2]]
    return cfg


def dotted_of(ps, k):
    if all(p[0] == "key" for p in ps):
        return ".".join([p[1] for p in ps] + [k])
    return None


CURRENT = [None]        # the Built of the case being run (side-built objects need its schema objects)
LAST_OBJ = [None]       # the configuration object handed over last


def build_detached(b, src):
    """schema.sub() / CT() / item_schema(): a fresh configuration without parent, then the recipe's operations on it"""
    obj = b.makers[src.sp]()
    b.keep.append(obj)
    for dps, dop in src.ops:
        apply_op(obj, dps, dop)
        b.keep += [x for _, x in walk_cfgs(obj)]
    return obj


def make_kw(b, c):
    return {k: (build_detached(b, v) if isinstance(v, Obj) else copy.deepcopy(v)) for k, v in c["kw"].items()}


HANDED = [None]         # the configuration object the last hand-over of any kind offered
KEPT = [None]           # the object offered last, as long as the caller is the only one holding it (it was not taken)


def apply_op(root, ps, o):
    """returns the outcome; mirrors exactly what a user would write"""
    if o[0] == "moveobj":
        obj = navigate(root, o[4])
        if obj is None or navigate(root, ps) is None:
            return "nav"
        HANDED[0] = obj
        norm = (o[1], o[2], None) if o[1] == "appendobj" else (o[1], o[2], o[3], None)
        return _apply_op(root, ps, norm, obj)
    if o[0] == "again":
        obj = KEPT[0]
        if obj is None:
            return "unmodelled"       # the object was taken: offering it again would hold it in two places (outside the model)
        for dps, dop in o[4]:
            apply_op(obj, dps, dop)
            CURRENT[0].keep += [x for _, x in walk_cfgs(obj)]
        norm = (o[1], o[2], None, "attr") if o[1] == "setobj" else (o[1], o[2], None) if o[1] == "appendobj" else (o[1], o[2], o[3], None)
        out = _apply_op(root, ps, norm, obj)
    elif o[0] in OBJ_KINDS:
        obj = build_detached(CURRENT[0], obj_of(o))      # built before anything else happens, as in the model
        out = _apply_op(root, ps, o, obj)
    else:
        return _apply_op(root, ps, o, None)
    LAST_OBJ[0] = obj
    HANDED[0] = obj
    KEPT[0] = None if out == "ok" else obj
    return out


def _apply_op(root, ps, o, obj):
    from cincoconfig import reset_value, Schema, ListField
    from cincoconfig.fields.list_field import ListProxy
    if o[0] == "alias":
        if LAST_OBJ[0] is None:
            return "nav"
        return apply_op(LAST_OBJ[0], tuple(o[1][1:]), o[2])
    cfg = navigate(root, ps)
    if cfg is None:
        return "nav"
    try:
        if o[0] == "setobj":
            d = dotted_of(ps, o[1]) if o[3] == "dotted" else None
            if d is not None:
                root[d] = obj
            else:
                setattr(cfg, o[1], obj)
        elif o[0] == "set":
            d = dotted_of(ps, o[1]) if o[3] == "dotted" else None
            x = copy.deepcopy(o[2])
            if d is not None:
                root[d] = x
            else:
                setattr(cfg, o[1], x)
        elif o[0] == "load":
            cfg.load_tree(copy.deepcopy(o[1]), validate=o[2])
        elif o[0] == "reset":
            reset_value(cfg, o[1])
        elif o[0] == "loads":
            cfg.loads(make_document(o[1], o[2], o[3]), format=o[1])
        elif o[0] == "validate":
            if o[1]:
                errs = cfg.validate(collect_errors=True)
                return ("errs", [errkind(e) for e in errs])
            cfg.validate()
        else:
            fld = cfg._schema._fields.get(o[1])
            val = cfg._data.get(o[1])
            if not (isinstance(fld, ListField) and (isinstance(fld.field, Schema) or isinstance(fld.field, type))) or not isinstance(val, ListProxy):
                return "nav"
            if o[0] == "append":
                val.append(copy.deepcopy(o[2]))
            elif o[0] == "insert":
                val.insert(o[2], copy.deepcopy(o[3]))
            elif o[0] == "appendobj":
                val.append(obj)
            elif o[0] == "insertobj":
                val.insert(o[2], obj)
            elif o[0] == "setidxobj":
                val[o[2]] = obj
            else:
                val[o[2]] = copy.deepcopy(o[3])
    except Exception as e:  # noqa
        LAST_TEXT[0] = str(e)
        return ("err", errkind(e))
    return "ok"


LAST_TEXT = [None]


def impl(c):
    b = Built(c)
    c["_built"] = b
    keep = []           # keep every configuration object alive so that id() stays unique
    try:
        root = b.schema(**make_kw(b, c))
    except Exception as e:  # noqa
        c["_ctor_exc"] = e
        return (("err", errkind(e)),)
    c["_root"] = root
    steps = []
    c["_trace"] = trace = []
    before_ids = {p: id(o) for p, o in walk_cfgs(root)}
    keep += [o for _, o in walk_cfgs(root)]
    first = snap_cfg(root)
    c["_first"] = first
    prev = first
    for ps, o in c["ops"]:
        b.validator_log.clear()
        LAST_TEXT[0] = None
        via_alias = o[0] == "alias"
        in_tree = None
        if via_alias:
            # for the oracles this is the inner operation, addressed to where the object sits in the tree
            in_tree = LAST_OBJ[0] is not None and navigate(root, tuple(ps) + (o[1][0],)) is LAST_OBJ[0]
            alias_out = apply_op(root, ps, o)
            ps, o = tuple(ps) + tuple(o[1]), o[2]
        moved = o[0] == "moveobj"
        if moved:
            o = (o[1], o[2], None) if o[1] == "appendobj" else (o[1], o[2], o[3], None)
        again = o[0] == "again"
        if again:
            # for the oracles: the underlying hand-over (the recipe of the object is not needed there)
            o = (o[1], o[2], None, "attr") if o[1] == "setobj" else (o[1], o[2], None) if o[1] == "appendobj" else (o[1], o[2], o[3], None)
        target = navigate(root, ps)
        tpath = None
        if target is not None:
            tpath = [p for p, obj in walk_cfgs(root) if obj is target][0]
        out = alias_out if via_alias else apply_op(root, ps, c["ops"][len(trace)][1] if (again or moved) else o)
        stored = None
        if o[0] in OBJ_KINDS and out == "ok" and target is not None:
            held = target._data.get(o[1])
            stored = (held is HANDED[0]) if o[0] == "setobj" else any(it is HANDED[0] for it in held)
        after = walk_cfgs(root)
        keep += [obj for _, obj in after]
        ids = {p: id(obj) for p, obj in after}
        same = {p: (before_ids.get(p) == i) for p, i in sorted(ids.items())}
        snap = snap_cfg(root)
        # whole-configuration validation in both modes on the state reached (C11 oracle)
        both = None
        if c.get("prop") == "C11":
            try:
                collected = [errkind(e) for e in root.validate(collect_errors=True)]
            except Exception as e:  # noqa
                collected = "raised %s" % type(e).__name__
            try:
                root.validate()
                raised = None
            except Exception as e:  # noqa
                raised = errkind(e)
            both = (collected, raised)
        defined_api = None
        if c.get("prop") == "C12":
            from cincoconfig import is_value_defined
            defined_api = {}
            for pth, obj in after:
                if "[" in pth:
                    continue
                for key in obj._data:
                    try:
                        defined_api[pjoin(pth, key)] = (is_value_defined(root, pjoin(pth, key)), key not in obj._default_value_keys)
                    except Exception as e:  # noqa
                        defined_api[pjoin(pth, key)] = (type(e).__name__, key not in obj._default_value_keys)
        # what a caller READS through the public getters, against what is stored (C01 speaks of readable values)
        readback = []
        for pth, obj in after:
            for key in list(obj._data):
                held_v = obj._data[key]
                for how, rd in (("attribute", lambda: getattr(obj, key)), ("item", lambda: obj[key])):
                    if how == "attribute" and not key.isidentifier():
                        continue
                    try:
                        got = rd()
                    except Exception as e:  # noqa
                        readback.append("reading %s by %s raises %s" % (pjoin(pth, key), how, type(e).__name__))
                        continue
                    if is_cfg(held_v) or isinstance(held_v, (list, dict)):
                        if got is not held_v:
                            readback.append("reading %s by %s yields another object than the stored one" % (pjoin(pth, key), how))
                    elif got != held_v or type(got) is not type(held_v):
                        readback.append("reading %s by %s yields %r, the configuration holds %r" % (pjoin(pth, key), how, got, held_v))
        trace.append({"ps": ps, "op": o, "out": out, "before": prev, "after": snap, "same": same, "tpath": tpath, "readback": readback,
                      "vlog": list(b.validator_log), "both": both, "defined_api": defined_api, "text": LAST_TEXT[0],
                      "stored": stored, "alias": via_alias, "in_tree": in_tree, "again": again, "moved": moved})
        steps.append((out if not (isinstance(out, tuple) and out[0] == "err") else ("err", out[1]), snap, same))
        before_ids = ids
        prev = snap
    return ("ok", first, steps)


# ---------------------------------------------------------------------------------------------
# direct oracles (independent of the model)
# ---------------------------------------------------------------------------------------------
def node_at(fields, tpath_steps):
    """schema fields of the configuration addressed by the op's path"""
    cur = fields
    for p in tpath_steps:
        nd = dict(cur)[p[1]]
        cur = nd["fields"]
    return cur


def leaf_ok(nd, v):
    """independent re-statement of the declared constraints of a leaf"""
    if v is None:
        return True
    if nd.get("reject") is not None and type(v) is type(nd["reject"]) and v == nd["reject"]:
        return False
    k = nd["kind"]
    if k[0] == "int":
        return type(v) is int and (k[1] is None or v >= k[1]) and (k[2] is None or v <= k[2])
    if k[0] == "str":
        if type(v) is not str:
            return False
        if k[1] is not None and len(v) < k[1]:
            return False
        if k[2] is not None and len(v) > k[2]:
            return False
        if k[3] and v != v.lower():
            return False
        if k[4] and v != v.strip():
            return False
        if nd["required"] and not v:
            return False
        return True
    if k[0] in ("bool", "flag"):
        return type(v) is bool
    return True


def check_wf(fields, snap, path, bad, dyn_ok=True):
    """C01: every value readable from the snapshot meets its field's constraints, at every depth"""
    data, defaults, dynf = snap
    decl = dict(fields)
    for k, v in data.items():
        nd = decl.get(k)
        if nd is None:
            if k not in dynf:
                bad.append("value under undeclared key %s" % pjoin(path, k))
            continue
        if nd["t"] == "leaf":
            if k in defaults:
                continue      # a declared default is the schema author's business (premise of C01)
            if not leaf_ok(nd, v):
                bad.append("%s holds %r which violates its field's constraints" % (pjoin(path, k), v))
        elif nd["t"] == "sub":
            if not (isinstance(v, tuple) and len(v) == 3):
                bad.append("%s is not a configuration" % pjoin(path, k))
            else:
                check_wf(nd["fields"], v, pjoin(path, k), bad)
        else:
            if v is None:
                continue
            if not isinstance(v, Proxy):
                bad.append("%s is not a typed list of configurations: %r" % (pjoin(path, k), v))
                continue
            if nd["required"] and k not in defaults and len(v.items) == 0:
                bad.append("required list %s is empty after an accepted operation" % pjoin(path, k))
            for i, it in enumerate(v.items):
                check_wf(nd["fields"], it, "%s[%d]" % (pjoin(path, k), i), bad)


def get_cfg_snap(snap, tpath_steps):
    cur = snap
    for p in tpath_steps:
        v = cur[0].get(p[1])
        if p[0] == "key":
            cur = v
        else:
            cur = v.items[p[2]]
    return cur


def strip_key(snap, tpath_steps, key):
    """the snapshot with the slot (config at tpath, key) removed: what an operation on that slot must not change"""
    data, defaults, dynf = snap
    if not tpath_steps:
        return ({k: v for k, v in data.items() if k != key}, [d for d in defaults if d != key], [d for d in dynf if d != key])
    p = tpath_steps[0]
    out = dict(data)
    if p[0] == "key":
        out[p[1]] = strip_key(data[p[1]], tpath_steps[1:], key)
    else:
        items = list(data[p[1]].items)
        items[p[2]] = strip_key(items[p[2]], tpath_steps[1:], key)
        out[p[1]] = Proxy(0, items)
    return (out, defaults, dynf)


def canon_snap(s):
    from common import canon
    return canon(s)


def oracle_for(prop, c, obs):
    bad = []
    if obs[0] != "ok":
        # constructor failed
        if prop == "C15":
            kind = obs[0][1]
            if not (isinstance(kind, tuple) and kind[0] == "validation"):
                # an undeclared keyword on a non-dynamic schema is not a value for a declared field
                if kind == "attribute" and any(k not in dict(c["fields"]) for k in c["kw"]):
                    pass
                elif kind == "attribute" and any(walk_sub(dict(c["fields"]).get(k), v, _undeclared_walk) for k, v in c["kw"].items()):
                    bad.append("F33: undeclared key inside a map (constructor keyword) raises AttributeError")
                else:
                    bad.append("constructor keyword rejected with %r instead of a ValidationError" % (kind,))
            else:
                if not any(kind[1] == k or kind[1].startswith(k + ".") or kind[1].startswith(k + "[") for k in c["kw"]):
                    bad.append("constructor error path %r names none of the keywords %r" % (kind[1], list(c["kw"])))
        return bad
    first = obs[1]
    fields = c["fields"]
    if prop in ("C01",):
        check_wf(fields, first, "", bad)
    if prop == "C12" and c["kw"]:
        data, defaults, dynf = first
        for k, x in c["kw"].items():
            nd = dict(fields).get(k)
            if k in defaults:
                bad.append("constructor keyword %s=%r was accepted but the field is reported as not user-defined" % (k, x))
            if nd is not None and nd["t"] == "leaf":
                exp = norm_leaf(c, (), k, x)
                if exp is not NotImplemented and (data.get(k) != exp or type(data.get(k)) is not type(exp)):
                    bad.append("constructor keyword %s=%r: the configuration holds %r, the normal form is %r" % (k, x, data.get(k), exp))
    if prop == "C12" and not c["kw"]:
        # fresh configuration: every key is marked default and holds the declared default
        def fresh(fs, snap, path):
            data, defaults, dynf = snap
            for k, nd in fs:
                if k not in defaults:
                    bad.append("fresh configuration reports %s as user-defined" % pjoin(path, k))
                if nd["t"] == "leaf" and not nd["callable"] and data.get(k) != nd["default"]:
                    bad.append("fresh configuration exposes %r for %s, declared default %r" % (data.get(k), pjoin(path, k), nd["default"]))
                if nd["t"] == "sub":
                    fresh(nd["fields"], data[k], pjoin(path, k))
                if nd["t"] == "cfglist":
                    want = None if nd.get("default") is None else len(nd["default"]["maps"])
                    got = None if data.get(k) is None else (len(data[k].items) if isinstance(data.get(k), Proxy) else "?")
                    if got != want:
                        bad.append("fresh configuration holds %r items in %s, the declared default has %r" % (got, pjoin(path, k), want))
        fresh(fields, first, "")
    for st in c.get("_trace", []):
        o, out, before, after = st["op"], st["out"], st["before"], st["after"]
        if out in ("nav", "unmodelled"):
            if canon_snap(before) != canon_snap(after):
                bad.append("harness navigation changed the configuration")
            continue
        is_err = isinstance(out, tuple) and out[0] == "err"
        tsteps = st["ps"]
        if st.get("alias") and not st.get("in_tree"):
            bad.append("after an accepted hand-over the configuration does not hold the object that was handed over (%r)" % (st["ps"],))
        if o[0] in OBJ_KINDS and out == "ok" and st.get("stored") is False:
            bad.append("accepted %s of a configuration object: the configuration holds something else than that object" % o[0])
        if prop == "C06":
            if is_err and o[0] == "loads" and parse_direct(o[1], make_document(o[1], o[2], o[3]), o[2])[0] == "err":
                if canon_snap(before) != canon_snap(after) or not all(st["same"].values()):
                    what = ("whose include cannot be resolved" if o[3] == "badinclude" else
                            "whose root is not a map" if o[3] in PAIR_DAMAGE else "that does not parse")
                    bad.append("a %s document %s (%s) changed the configuration: values, marks or dynamic fields differ" % (o[1], what, o[3]))
            if o[0] == "loads" and not is_err and parse_direct(o[1], make_document(o[1], o[2], o[3]), o[2])[0] == "err":
                bad.append("a %s document that cannot be loaded (%s) was not rejected" % (o[1], o[3]))
            if is_err and o[0] in ("set", "append", "setidx", "insert") + OBJ_KINDS:
                if canon_snap(before) != canon_snap(after):
                    if st.get("moved"):
                        bad.append("rejected %s into list %s of the item at %r (it lives in another list) changed the configuration: the lists are not as they were"
                                   % (o[0], o[1], o[4] if len(o) > 4 else o[-1]))
                    bad.append("rejected %s %r changed the configuration" % (o[0], o[1:3]))
                if not all(st["same"].values()):
                    bad.append("rejected %s %r replaced nested configuration objects: %r" % (o[0], o[1:3], st["same"]))
        if prop == "C01":
            check_wf(fields, after, "", bad)
            bad.extend(st.get("readback") or [])
            if out == "ok" and o[0] in OBJ_KINDS:
                # frame: nothing but the slot that took the object changes
                if canon_snap(strip_key(before, tsteps, o[1])) != canon_snap(strip_key(after, tsteps, o[1])):
                    bad.append("accepted %s on %s changed another field" % (o[0], o[1]))
            if out == "ok" and o[0] == "set":
                # frame: nothing but the assigned slot changes
                if canon_snap(strip_key(before, tsteps, o[1])) != canon_snap(strip_key(after, tsteps, o[1])):
                    bad.append("accepted assignment to %s changed another field" % o[1])
                tf = node_at(fields, tsteps)
                nd = dict(tf).get(o[1])
                if nd is not None and nd["t"] == "leaf":
                    got = get_cfg_snap(after, tsteps)[0].get(o[1])
                    exp = norm_leaf(c, tsteps, o[1], o[2])
                    if exp is not NotImplemented and (got != exp or type(got) is not type(exp)):
                        bad.append("reading %s after assigning %r gives %r, normal form is %r" % (o[1], o[2], got, exp))
        if prop == "C12" and st.get("defined_api"):
            for pth, (api, mark) in st["defined_api"].items():
                if api != mark:
                    bad.append("is_value_defined(config, %r) answers %r, the field %s user-defined" % (pth, api, "is" if mark else "is not"))
                    break
        if prop == "C12" and o[0] in OBJ_KINDS[1:]:
            # items handed to a list of configurations: accepted or refused, no default mark moves anywhere
            def marks(snap, path, acc):
                acc[path] = list(snap[1])
                for kk, vv in snap[0].items():
                    if isinstance(vv, tuple) and len(vv) == 3 and isinstance(vv[0], dict):
                        marks(vv, pjoin(path, kk), acc)
                return acc
            mb, ma = marks(before, "", {}), marks(after, "", {})
            if any(ma.get(pp) != mm for pp, mm in mb.items()):
                bad.append("%s on %s (%s) changed default marks" % (o[0], o[1], "accepted" if out == "ok" else "refused"))
        if prop == "C12":
            if o[0] in ("set", "setobj"):
                tb = get_cfg_snap(before, tsteps)
                ta = get_cfg_snap(after, tsteps)
                if out == "ok":
                    if o[1] in ta[1]:
                        bad.append("accepted assignment left %s marked as default" % o[1])
                    if sorted(set(tb[1]) - {o[1]}) != sorted(ta[1]):
                        bad.append("accepted assignment to %s changed other default marks" % o[1])
                else:
                    if canon_snap(tb) != canon_snap(ta):
                        bad.append("rejected assignment to %s changed marks or values" % o[1])
            if o[0] == "reset" and out == "ok":
                ta = get_cfg_snap(after, tsteps)
                if o[1] not in ta[1]:
                    bad.append("reset of %s did not restore the default mark" % o[1])
                if canon_snap(strip_key(before, tsteps, o[1])) != canon_snap(strip_key(after, tsteps, o[1])):
                    bad.append("reset of %s touched another field" % o[1])
                nd = dict(node_at(fields, tsteps)).get(o[1])
                if nd is not None and nd["t"] == "leaf" and not nd["callable"] and ta[0].get(o[1]) != nd["default"]:
                    bad.append("reset of %s gives %r, declared default %r" % (o[1], ta[0].get(o[1]), nd["default"]))
                if nd is not None and nd["t"] == "cfglist" and nd.get("default") is not None:
                    held = ta[0].get(o[1])
                    if not isinstance(held, Proxy) or len(held.items) != len(nd["default"]["maps"]):
                        bad.append("reset of %s does not restore the declared default items" % o[1])
                    elif not all(st["same"].get("%s[%d]" % (pjoin(st["tpath"] or "", o[1]), i)) is False for i in range(len(held.items))):
                        bad.append("reset of %s kept configuration objects of the previous value" % o[1])
                if nd is not None and nd["t"] != "leaf":
                    exp = fresh_snapshot(nd)
                    if exp is not NotImplemented and canon_snap(ta[0].get(o[1])) != canon_snap(exp):
                        bad.append("reset of %s does not restore what a fresh configuration holds there" % o[1])
        if prop == "C15" and is_err and o[0] in ("set", "load"):
            kind = out[1]
            tpath = st["tpath"]
            declared = dict(node_at(fields, tsteps))
            if o[0] == "set":
                target_declared = o[1] in declared
                top_keys = [o[1]]
            else:
                target_declared = isinstance(o[1], dict)
                top_keys = list(o[1]) if isinstance(o[1], dict) else []
            if not (isinstance(kind, tuple) and kind[0] == "validation"):
                if o[0] == "set" and not target_declared:
                    pass      # an undeclared key is not "a value for a declared field"
                elif o[0] == "load" and kind == "attribute" and any(k not in declared for k in top_keys):
                    pass      # load_tree of a top-level undeclared key: likewise not a declared field (pinned by the suite)
                elif kind == "attribute" and has_undeclared(c, tsteps, o):
                    st["_class"] = "F33"
                    bad.append("F33: undeclared key inside a map raises AttributeError")
                else:
                    bad.append("%s of %r rejected with %r instead of a ValidationError" % (o[0], o[1:3], kind))
            else:
                p = kind[1]
                text = st.get("text") or ""
                if p and not (text.startswith(p + ":") or text.startswith(p + " (")):
                    bad.append("the error text %r does not start with the reference path %r" % (text[:80], p))
                if o[0] == "load":
                    # the load validates the whole (sub)configuration afterwards: any field of it may be named
                    if tpath and not (p == tpath or p.startswith(tpath + ".") or p.startswith(tpath + "[")):
                        bad.append("error path %r does not lie inside the loaded configuration %r" % (p, tpath))
                elif not any(p == pjoin(tpath, k) or p.startswith(pjoin(tpath, k) + ".") or p.startswith(pjoin(tpath, k) + "[")
                             for k in top_keys):
                    bad.append("error path %r does not lie below the assigned field(s) %r of %r" % (p, top_keys, tpath))
                if o[0] == "set" and target_declared and declared[o[1]]["t"] == "leaf" and p != pjoin(tpath, o[1]):
                    bad.append("error path %r, expected %r" % (p, pjoin(tpath, o[1])))
        if prop == "C15" and is_err and o[0] == "loads":
            # a document that PARSES and is then rejected: the rejection is about a value of a declared field
            parsed = parse_direct(o[1], make_document(o[1], o[2], o[3]), o[2])
            kind = out[1]
            if parsed[0] == "ok" and not (isinstance(kind, tuple) and kind[0] == "validation"):
                declared = dict(node_at(fields, tsteps))
                loaded = parsed[1]
                if kind == "attribute" and any(k not in declared for k in loaded):
                    pass      # top-level undeclared key: as for load_tree
                elif kind == "attribute" and has_undeclared(c, tsteps, ("load", loaded)):
                    st["_class"] = "F33"
                    bad.append("F33: undeclared key inside a map raises AttributeError")
                else:
                    bad.append("loading a %s document that parses to %r is rejected with %r instead of a ValidationError" % (o[1], loaded, kind))
        if prop == "C15" and is_err and o[0] in OBJ_KINDS:
            kind = out[1]
            tpath = st["tpath"]
            declared = dict(node_at(fields, tsteps))
            text = st.get("text") or ""
            if o[0] == "setobj":
                if o[1] not in declared:
                    pass      # an undeclared key is not "a value for a declared field"
                elif not (isinstance(kind, tuple) and kind[0] == "validation"):
                    bad.append("configuration object assigned to %s rejected with %r instead of a ValidationError" % (o[1], kind))
                elif kind[1] != pjoin(tpath, o[1]):
                    bad.append("error path %r, expected %r" % (kind[1], pjoin(tpath, o[1])))
            else:
                held = get_cfg_snap(before, tsteps)[0].get(o[1])
                n = len(held.items) if isinstance(held, Proxy) else 0
                want = "%s[%d]" % (pjoin(tpath, o[1]), n)
                if o[0] == "setidxobj" and kind == "index" and not (0 <= o[2] < n):
                    pass      # an index outside the list: the list's own IndexError, the object itself was acceptable
                elif not (isinstance(kind, tuple) and kind[0] == "validation"):
                    bad.append("configuration object offered to list %s rejected with %r instead of a ValidationError" % (o[1], kind))
                elif not (kind[1] == want or kind[1].startswith(want + ".") or kind[1].startswith(want + "[")):
                    bad.append("error path %r of a refused list item does not lie at or below %r (the position it would have had)" % (kind[1], want))
            if isinstance(kind, tuple) and kind[0] == "validation" and kind[1] and not (text.startswith(kind[1] + ":") or text.startswith(kind[1] + " (")):
                bad.append("the error text %r does not start with the reference path %r" % (text[:80], kind[1]))
        if prop == "C11":
            both = st["both"]
            if both is not None:
                collected, raised = both
                if isinstance(collected, str):
                    bad.append("collecting validation raised: %s" % collected)
                elif bool(collected) != (raised is not None):
                    bad.append("collecting mode returned %r but raising mode %s" % (collected, "raised %r" % (raised,) if raised else "returned"))
                elif collected and raised != collected[0]:
                    bad.append("raising mode raised %r, first collected error is %r" % (raised, collected[0]))
            if out == "ok" and ((o[0] == "load" and o[2]) or (o[0] == "validate" and not o[1]) or o[0] == "loads"):
                tf = node_at(fields, tsteps)
                check_required(tf, get_cfg_snap(after, tsteps), st["tpath"] or "", bad, c["_built"].vt, c, tsteps)
            if out == "ok" and o[0] == "set":
                # a map assigned to a sub-configuration is a load of that sub-configuration; a list of maps assigned to a list
                # of configurations loads every item: both are held to the rule
                nd = dict(node_at(fields, tsteps)).get(o[1])
                ta = get_cfg_snap(after, tsteps)
                if nd is not None and nd["t"] == "sub" and isinstance(ta[0].get(o[1]), tuple):
                    check_required(nd["fields"], ta[0][o[1]], pjoin(st["tpath"] or "", o[1]), bad, c["_built"].vt, c, tsteps)
                if nd is not None and nd["t"] == "cfglist" and isinstance(ta[0].get(o[1]), Proxy):
                    for i, it in enumerate(ta[0][o[1]].items):
                        check_required(nd["fields"], it, "%s[%d]" % (pjoin(st["tpath"] or "", o[1]), i), bad, c["_built"].vt, c, tsteps)
            if o[0] in OBJ_KINDS and both is not None and not isinstance(both[0], str):
                # whatever became of the object (taken unvalidated by a sub-configuration slot, validated and taken or refused
                # by a list): the NEXT whole-configuration validation fails exactly when, by the declarations alone, a required
                # field is unset or a validator refuses something in the state reached
                findings = []
                check_required(fields, after, "", findings, c["_built"].vt, c, ())
                if bool(findings) != (both[1] is not None):
                    bad.append("after %s of a configuration object: validate() %s, but by the declarations the state reached %s"
                               % (o[0], "raises %r" % (both[1],) if both[1] is not None else "returns",
                                  "is invalid: %s" % findings[0] if findings else "is valid"))
            if out == "ok" and o[0] in ("append", "insert", "setidx") + OBJ_KINDS[1:]:
                # "items of configuration lists are held to the same rule when they are loaded or inserted"
                tb = get_cfg_snap(before, tsteps)
                ta = get_cfg_snap(after, tsteps)
                nd = dict(node_at(fields, tsteps)).get(o[1])
                old_items = [canon_snap(i) for i in (tb[0][o[1]].items if isinstance(tb[0].get(o[1]), Proxy) else [])]
                for i, it in enumerate(ta[0][o[1]].items):
                    if canon_snap(it) not in old_items:
                        check_required(nd["fields"], it, "%s[%d]" % (pjoin(st["tpath"] or "", o[1]), i), bad, c["_built"].vt, c, tsteps)
            if o[0] == "validate" and o[1] and isinstance(out, tuple) and out[0] == "errs" and not out[1]:
                tf = node_at(fields, tsteps)
                check_required(tf, get_cfg_snap(after, tsteps), st["tpath"] or "", bad, c["_built"].vt, c, tsteps)
    return bad


def _undeclared_walk(fields, dyn, tree):
    if not isinstance(tree, dict):
        return False
    decl = dict(fields)
    for k, v in tree.items():
        nd = decl.get(k)
        if nd is None:
            if not dyn:
                return True
            continue
        if nd["t"] == "sub" and _undeclared_walk(nd["fields"], nd["dyn"], v):
            return True
        if nd["t"] == "cfglist" and isinstance(v, (list, tuple)) and any(_undeclared_walk(nd["fields"], False, i) for i in v):
            return True
    return False


def fresh_snapshot(nd):
    """what a freshly built configuration holds in the slot of node nd, from the declaration alone (no callable defaults inside)"""
    if nd["t"] == "leaf":
        return NotImplemented if nd["callable"] else copy.deepcopy(nd["default"])
    if nd["t"] == "cfglist":
        return None if nd.get("default") is None else NotImplemented      # (default items: see the C12 clause on reset below)
    data = {}
    for k, sub in nd["fields"]:
        v = fresh_snapshot(sub)
        if v is NotImplemented:
            return NotImplemented
        data[k] = v
    return ({k: data[k] for k in sorted(data)}, sorted(data), [])


def has_undeclared(c, tsteps, o):
    """does the assigned/loaded value hold, at a position where a non-dynamic schema is declared, an undeclared key"""
    walk = _undeclared_walk
    fields = node_at(c["fields"], tsteps)
    if o[0] == "load":
        dyn = c["dyn"] if not tsteps else False
        # inside nested maps only: a top-level undeclared key of load_tree is pinned behaviour
        return any(walk_sub(dict(fields).get(k), v, walk) for k, v in o[1].items()) if isinstance(o[1], dict) else False
    nd = dict(fields).get(o[1])
    return walk_sub(nd, o[2], walk)


def walk_sub(nd, v, walk):
    if nd is None:
        return False
    if nd["t"] == "sub":
        return walk(nd["fields"], nd["dyn"], v)
    if nd["t"] == "cfglist" and isinstance(v, (list, tuple)):
        return any(walk(nd["fields"], False, i) for i in v)
    return False


def norm_leaf(c, tsteps, key, x):
    """normal form of x for the leaf, from a detached field of the same declaration (independent of the config under test)"""
    nd = dict(node_at(c["fields"], tsteps))[key]
    k = nd["kind"]
    if x is None:
        return None
    if nd.get("reject") is not None:
        return NotImplemented
    if k[0] == "int":
        if isinstance(x, bool):
            return NotImplemented
        try:
            return int(x)
        except (ValueError, OverflowError, TypeError):
            return NotImplemented
    if k[0] == "str":
        v = x
        if not isinstance(v, str):
            return NotImplemented
        if k[4]:
            v = v.strip()
        if k[3]:
            v = v.lower()
        return v
    if k[0] in ("bool", "flag"):
        if isinstance(x, str):
            return x.lower() in ("t", "true", "1", "on", "yes", "y")
        return bool(x)
    return x


def check_required(fields, snap, path, bad, vt, c, tsteps):
    """C11: every required field of every enabled (sub)configuration has a value; schema validators hold"""
    data, defaults, dynf = snap
    decl = dict(fields)
    # feature flag of this configuration
    for k, nd in fields:
        if nd["t"] == "leaf" and nd["kind"][0] == "flag" and not data.get(k):
            return
    for k, nd in fields:
        v = data.get(k)
        if nd["t"] == "leaf":
            if nd["required"] and (v is None or (nd["kind"][0] == "str" and v == "")):
                bad.append("validation passed but required field %s is unset" % pjoin(path, k))
            if nd.get("reject") is not None and k not in defaults and type(v) is type(nd["reject"]) and v == nd["reject"]:
                bad.append("validation passed but the validator registered on field %s refuses its value %r" % (pjoin(path, k), v))
        elif nd["t"] == "sub":
            check_required(nd["fields"], v, pjoin(path, k), bad, vt, c, tsteps)
        else:
            if nd["required"] and (v is None or len(v.items) == 0):
                bad.append("validation passed but required list %s is empty" % pjoin(path, k))
            if v is not None:
                # configurations held in the list are validated like nested sub-configurations (F50 repair)
                for i, it in enumerate(v.items):
                    check_required(nd["fields"], it, "%s[%d]" % (pjoin(path, k), i), bad, vt, c, tsteps)
    # validators registered on this schema
    vals = vals_at(c, path_steps_of(c, tsteps, path))
    for n in vals:
        key, badv = vt[n]
        if data.get(key) == badv and isinstance(data.get(key), str):
            bad.append("validation passed but schema validator %d on %r fails" % (n, path))


def path_steps_of(c, tsteps, path):
    return path


def vals_at(c, path):
    """validators of the schema whose configuration sits at reference path `path`"""
    fields, vals = c["fields"], c["vals"]
    if not path:
        return vals
    cur_fields, cur_vals = fields, vals
    import re
    for part in path.split("."):
        m = re.match(r"^([^\[]+)(\[\d+\])?$", part)
        nd = dict(cur_fields)[m.group(1)]
        cur_fields, cur_vals = nd["fields"], nd["vals"]
    return cur_vals


def oracle(c, obs):
    return oracle_for(c.get("prop", "C01"), c, obs)


def classify(c, msg):
    if msg.startswith("F33"):
        return "F33"
    return None


def tags(c, obs):
    t = set()
    t.add("kind=" + c.get("kind", "?"))
    if obs[0] != "ok":
        t.add("ctor-rejected")
        return t
    for st in c.get("_trace", []):
        out = st["out"]
        o = st["op"]
        res = out if isinstance(out, str) else out[0]
        t.add("%s:%s" % (o[0], res))
        if st.get("again"):
            t.add("again:%s" % res)
        if st.get("moved"):
            t.add("moved:%s" % res)
        if isinstance(out, tuple) and out[0] == "err":
            k = out[1]
            t.add("err:" + (k[0] if isinstance(k, tuple) else k))
        if st["ps"]:
            t.add("depth=%d" % len(st["ps"]))
            if any(p[0] == "item" for p in st["ps"]):
                t.add("inside-list-item")
    return t


def nontrivial(c, obs):
    if obs[0] != "ok":
        return True
    return any(st["out"] != "nav" for st in c.get("_trace", []))
