"""
stream `trees` (C04): typed plain-data trees x the five registered formats x their options.

 * xml       : the real element tree built by XmlConfigFormat._to_element is compared with Formats.v
               `to_element`; the real document is parsed with ET.fromstring and the model's
               `xml_load_root` / `from_element` runs on that parsed element and is compared with loads();
               float text enters as a per-case table measured with repr()/float() directly
 * fromelem  : hand-made element trees (wrong / missing / unknown type attributes, odd texts, duplicate
               tags, forced py_type) through _from_element vs `from_element`
 * wrap      : json / yaml / bson / pickle -- the model side is the option-handling wrapper over an ideal
               codec (the library codec law is an assumption), so this compares the wrapper only
 * reg       : ConfigFormat.register / get / initialize_registry histories on an emptied registry
 * regtable  : formats.FORMATS of the running package vs Formats.v `builtin_formats`
 * probe     : out-of-domain inputs (outside the property's quantifier): only counted in the input distribution
               as ood:<fmt>:raised / preserved / value-changed / silently-changed, never an oracle message

The oracle is independent of the model: decoded == original with exact types (NaN ~ NaN, dict order
ignored only for YAML), every format and every option value gives the same tree, a wrong root tag raises
ValueError, and the ElementTree/minidom law assumed by the theorems holds on the real document.
"""
import struct
from xml.etree import ElementTree as ET

from common import Broken, Other, g_float, g_list, g_opt, g_str, g_z

NAME = "trees"
IMPORTS = "From Cinco Require Import Base Formats."
RUN = "run_trees"
CASE_TYPE = "fcase"

CLASS_IDS = {"JsonConfigFormat": 0, "PickleConfigFormat": 1, "XmlConfigFormat": 2, "YamlConfigFormat": 3,
             "BsonConfigFormat": 4}
INT64 = (-2 ** 63, 2 ** 63)

# ---------------------------------------------------------------------------------------------
# value pools (inside every format's domain unless noted)
# ---------------------------------------------------------------------------------------------
KEYS = ["a", "b", "c", "key", "item", "type", "config", "root", "_x", "x-1", "x.y", "A", "k1", "é", "Ωm", "中"]
STRS = ["", "1", "0", "true", "false", "null", "None", "~", "yes", "No", "on", "t", "1.5", "nan", "inf", "-0", "1e5", "0x1F",
        "1_000", " ", "  x ", "x\n", "\n", "\t", "a\tb\n c", "<>&\"'", "]]>", "<a type=\"int\">1</a>", "&amp;", "<!--x-->",
        "\U0001F600", "é", "中文", "\u0085", " ", "﷐", "�", "\x7f", "\x80", "a: b", "- a", "#c", "{}",
        "[]", "2001-01-01", "1:30", "item", "type", "+5", "١٢", "Ⅻ", " ", "K", "TRUE", "Off", "string"]
INTS = [0, 1, -1, 2, 7, 10, -10, 42, 99, 100, 255, 2 ** 31 - 1, 2 ** 31, -2 ** 31, -2 ** 31 - 1, 2 ** 32, 2 ** 53, 2 ** 53 + 1,
        2 ** 63 - 1, -2 ** 63, 10 ** 18, -10 ** 18, 1000000007, 4300, 9, 19, 109]
BIGINTS = [2 ** 63, 2 ** 64 - 1, 2 ** 64, -2 ** 63 - 1, 10 ** 30, -10 ** 40, 2 ** 200 + 1, -(10 ** 100)]
FLOATS = [0.0, -0.0, float("inf"), float("-inf"), float("nan"), 5e-324, -5e-324, 2.2250738585072009e-308,
          2.2250738585072014e-308, 1.7976931348623157e308, -1.7976931348623157e308, 0.1, 0.2, 0.30000000000000004, 1.0, -1.0,
          1.5, 1e16, 1e22, 1e23, 1e-5, 1e-7, 123456789.12345679, 2.0 ** 53, 3.141592653589793, 1e300 * 10, 9007199254740993.0]


def rfloat(rng):
    r = rng.random()
    if r < 0.5:
        return rng.choice(FLOATS)
    if r < 0.8:
        return struct.unpack(">d", struct.pack(">Q", rng.getrandbits(64)))[0]      # any bit pattern (NaNs, subnormals)
    return rng.choice([1, -1]) * rng.random() * 10 ** rng.randint(-320, 308) if r < 0.9 else float(rng.randint(-1000, 1000))


def rint(rng, big):
    r = rng.random()
    if big and r < 0.3:
        return rng.choice(BIGINTS + [rng.choice([1, -1]) * rng.getrandbits(rng.choice([65, 100, 300]))])
    if r < 0.6:
        return rng.choice(INTS)
    return rng.choice([1, -1]) * rng.getrandbits(rng.choice([3, 8, 16, 40, 62]))


def rstr(rng):
    if rng.random() < 0.75:
        return rng.choice(STRS)
    alpha = "ab01 <&>\"'\n\t-_.:;é\U0001F600tTrue"
    return "".join(rng.choice(alpha) for _ in range(rng.randint(1, 6)))


def rscalar(rng, big):
    k = rng.choice(["none", "bool", "int", "int", "float", "float", "str", "str", "str"])
    if k == "none":
        return None
    if k == "bool":
        return rng.choice([True, False])
    if k == "int":
        return rint(rng, big)
    if k == "float":
        return rfloat(rng)
    return rstr(rng)


def rvalue(rng, depth, big, budget):
    r = rng.random()
    if depth <= 0 or r < 0.6 or budget[0] <= 0:
        return rscalar(rng, big)
    budget[0] -= 1
    if r < 0.8:
        return [rvalue(rng, depth - 1, big, budget) for _ in range(rng.choice([0, 0, 1, 2, 3]))]
    return rmap(rng, depth - 1, big, budget)


def rmap(rng, depth, big, budget, nmin=0):
    n = rng.choice([0, 1, 1, 2, 3, 4]) if depth < 3 else rng.choice([1, 2, 3, 4, 5])
    n = max(n, nmin)
    m = {}
    for k in rng.sample(KEYS, n):
        m[k] = rvalue(rng, depth, big, budget)
    return m


def rtree(rng, big=False):
    return rmap(rng, 3, big, [rng.choice([2, 4, 6])])


# lone surrogates (e.g. os.fsdecode of an undecodable file name, "\udc80").  MEASURED on the unchanged tree: json, yaml
# (pure-Python Dumper/Loader) and pickle round-trip them as values and as keys, so they are inside those formats'
# representable domain; bson raises UnicodeEncodeError and xml raises ExpatError (out-of-domain probes only).  A high
# surrogate immediately followed by a low one is NOT in json's domain (json.loads joins the pair): never generated.
SUR_STRS = ["\ud800", "\udc80", "\udfff", "\udbff", "a\ud800", "\udc80b", "a\ud83d b", "\ude00\ud83d", "\udc80\udc80",
            "caf\udce9.txt", "\udc80 \ud800", "<\udcff>", "\U0001F600\udc00", "\ud800\U0001F600", "\n\udc80", "\udc80 "]
SUR_KEYS = ["\udc80", "k\ud800", "\udfffz", "\udce9", "a\udc80b"]
SUR_PARTS = ["a", " ", "\u00e9", "\ud800", "\udbff", "\udc00", "\udc80", "\udfff", "\U0001F600", "<", "1"]


def is_sur(ch):
    return 0xD800 <= ord(ch) <= 0xDFFF


def has_surrogate(tree):
    for v in walk(tree):
        if isinstance(v, str) and any(is_sur(ch) for ch in v):
            return True
        if isinstance(v, dict) and any(isinstance(k, str) and any(is_sur(ch) for ch in k) for k in v):
            return True
    return False


def rsur(rng):
    if rng.random() < 0.6:
        return rng.choice(SUR_STRS)
    out = ""
    for _ in range(rng.randint(1, 5)):
        part = rng.choice(SUR_PARTS)
        if out and 0xD800 <= ord(out[-1]) <= 0xDBFF and 0xDC00 <= ord(part[0]) <= 0xDFFF:
            out += "x"                               # never a high surrogate directly before a low one
        out += part
    return out if any(is_sur(ch) for ch in out) else out + "\udc80"


def inject_sur(rng, v, top=True):
    """copy of v with lone-surrogate strings put in value, list-item and key positions"""
    if isinstance(v, str):
        return rsur(rng) if rng.random() < 0.5 else v
    if isinstance(v, list):
        out = [inject_sur(rng, x, False) for x in v]
        if rng.random() < 0.3:
            out.append(rsur(rng))
        return out
    if isinstance(v, dict):
        out = {}
        for k, x in v.items():
            out[k] = inject_sur(rng, x, False)
        if rng.random() < 0.4:
            out[rng.choice(SUR_KEYS)] = rng.choice([rsur(rng), 1, None, [rsur(rng)]])
        if top and not has_surrogate(out):
            out[rng.choice(SUR_KEYS + ["s"])] = rsur(rng)
        return out
    return v


# text that looks like a format's own syntax (comments, markup, entities, document markers, flow collections, quotes,
# escapes, format directives, typed-scalar look-alikes).  In-domain for every format as a VALUE (all XML characters, no
# CR); as a KEY for json / yaml / pickle / bson (XML keys must be names).  Measured: the unchanged formats round-trip all.
SYN_TOKENS = ["//", "// c", "/* c */", "/*", "#", "# c", "#!", "<!-- c -->", "<!--", "-->", "<![CDATA[x]]>", "<![CDATA[", "]]>",
              "&amp;", "&amp;amp;", "&lt;", "&gt;b", "&#38;", "&#x26;lt;", "&quot;", "&nbsp;", "&", "&a", "*a", "---", "--- x", "...",
              ": ", "a: b", ":", "- ", "- a", "-", "? ", "? a", "{}", "[]", "{a: 1}", "[1, 2]", "{\"a\": 1}", "\"", "'", "\"q\"", "'q'",
              "\\", "\\\\", "\\n", "\\t", "\\u0000", "\\x00", "\\ud800", "\\/", "%", "%s", "%d", "%(a)s", "%%", "{0}", "${x}",
              "null", "Null", "NULL", "true", "True", "false", "~", "yes", "on", "1e3", "0x10", "0o7", "1_000", "1.", ".5", "+1",
              "!!str x", "!a", "|", ">", "|-", "@", "`", ",", "=", "<<", "<a>", "</a>", "<a/>", "<a type=\"int\">1</a>", "<?xml?>",
              "<?xml version=\"1.0\"?>", "<!DOCTYPE x>", "\t", "\n", " ", "  "]


def placements(t):
    """the token alone, with leading / trailing white space, after white space, at a line start inside the string"""
    return [t, " " + t, t + " ", "x " + t, "x " + t + " y", "x\n" + t, "x\n" + t + " y\nz", "\t" + t, "x\n " + t, t + "\n"]


def rsyn(rng):
    t = rng.choice(SYN_TOKENS)
    r = rng.random()
    if r < 0.7:
        return rng.choice(placements(t))
    return rng.choice(["", "a", "1 ", "\n", "k: "]) + t + rng.choice([" ", "\n", ""]) + rng.choice(SYN_TOKENS) + rng.choice(["", " z", "\n"])


def inject_syn(rng, v, keys):
    """copy of v with syntax-like text put in value and list-item positions, and in key positions when `keys`"""
    if isinstance(v, str):
        return rsyn(rng) if rng.random() < 0.6 else v
    if isinstance(v, list):
        out = [inject_syn(rng, x, keys) for x in v]
        if rng.random() < 0.4:
            out.append(rsyn(rng))
        return out
    if isinstance(v, dict):
        out = {}
        for k, x in v.items():
            out[rsyn(rng) if keys and rng.random() < 0.3 else k] = inject_syn(rng, x, keys)
        if rng.random() < 0.5:
            out[rsyn(rng) if keys else rng.choice(KEYS)] = rng.choice([rsyn(rng), [rsyn(rng)], {"k": rsyn(rng)}])
        return out
    return v


import re as _re
_NAME = _re.compile(r"[A-Za-z_][A-Za-z0-9_.-]*\Z")       # \Z, not $: "on\n" is not a name


def xml_keys_ok(tree):
    """all keys are names the XML parser accepts (the conservative set the generator uses)"""
    return all(k in KEYS or _NAME.match(k) for v in walk(tree) if isinstance(v, dict) for k in v)


# ---------------------------------------------------------------------------------------------
# helpers on trees
# ---------------------------------------------------------------------------------------------
def fbits(x):
    if x != x:
        return "nan"
    return struct.pack(">d", x)


def teq(a, b, ordered=True):
    """equal with exact types; NaN ~ NaN; -0.0 != 0.0; dict order compared when `ordered`"""
    if type(a) is not type(b):
        return False
    if isinstance(a, float):
        return fbits(a) == fbits(b)
    if isinstance(a, list):
        return len(a) == len(b) and all(teq(x, y, ordered) for x, y in zip(a, b))
    if isinstance(a, dict):
        if ordered and list(a) != list(b):
            return False
        return a.keys() == b.keys() and all(teq(a[k], b[k], ordered) for k in a)
    return a == b


def same_types(a, b):
    """shape and types preserved (values may differ): what an out-of-domain probe must still satisfy"""
    if type(a) is not type(b):
        return False
    if isinstance(a, list):
        return len(a) == len(b) and all(same_types(x, y) for x, y in zip(a, b))
    if isinstance(a, dict):
        ka, kb = list(a), list(b)
        return len(ka) == len(kb) and all(type(x) is type(y) for x, y in zip(ka, kb)) and \
            all(same_types(a[x], b[y]) for x, y in zip(ka, kb))
    return True


def walk(v):
    yield v
    if isinstance(v, list):
        for x in v:
            yield from walk(x)
    elif isinstance(v, dict):
        for k, x in v.items():
            yield from walk(x)


def sort_tree(v):
    if isinstance(v, list):
        return [sort_tree(x) for x in v]
    if isinstance(v, dict) and all(isinstance(k, str) for k in v):
        return {k: sort_tree(v[k]) for k in sorted(v)}
    return v


def to_obs(v):
    """decoded value -> observation; anything that is not plain data becomes an Other (never equal to the model)"""
    if v is None or isinstance(v, (bool, str)) or type(v) in (int, float):
        return v
    if type(v) is list:
        return [to_obs(x) for x in v]
    if type(v) is dict:
        if not all(type(k) is str for k in v):
            return Other(2)
        return {k: to_obs(x) for k, x in v.items()}
    return Other(1)


def exc_kind(e):
    if isinstance(e, UnicodeError):
        return "unicode"
    if isinstance(e, ValueError):
        return "value"
    if isinstance(e, TypeError):
        return "type"
    if isinstance(e, KeyError):
        return "key"
    if isinstance(e, AttributeError):
        return "attribute"
    if isinstance(e, IndexError):
        return "index"
    if isinstance(e, OverflowError):
        return "overflow"
    if isinstance(e, OSError):
        return "os"
    return "other"


def show(e):
    return (e.tag, dict(e.attrib), e.text, [show(c) for c in e])


def build(sh):
    e = ET.Element(sh[0])
    for k, v in sh[1].items():
        e.attrib[k] = v
    e.text = sh[2]
    for c in sh[3]:
        e.append(build(c))
    return e


def sim(a, b):
    """Formats.v elem_sim: what print + pretty-print + parse may change"""
    if a[0] != b[0] or a[1] != b[1] or len(a[3]) != len(b[3]):
        return False
    if not a[3] and (a[2] or "") != (b[2] or ""):
        return False
    return all(sim(x, y) for x, y in zip(a[3], b[3]))


def texts(sh):
    yield sh[2] or ""
    for c in sh[3]:
        yield from texts(c)


# ---------------------------------------------------------------------------------------------
# Gallina printers
# ---------------------------------------------------------------------------------------------
def g_pdata(v):
    if v is None:
        return "VNull"
    if v is True or v is False:
        return "(VBool %s)" % ("true" if v else "false")
    if isinstance(v, int):
        return "(VInt %s)" % g_z(v)
    if isinstance(v, float):
        return "(VFloat %s)" % g_float(v)
    if isinstance(v, str):
        return "(VStr %s)" % g_str(v)
    if isinstance(v, list):
        return "(VList %s)" % g_list(v, g_pdata)
    if isinstance(v, dict):
        return "(VMap %s)" % g_pmap(v)
    raise Broken("g_pdata: %r" % (type(v),))


def g_pmap(m):
    return g_list(m.items(), lambda kv: "(%s,%s)" % (g_str(kv[0]), g_pdata(kv[1])))


def g_elem(sh):
    return "(Elem %s %s %s %s)" % (g_str(sh[0]), g_list(sh[1].items(), lambda kv: "(%s,%s)" % (g_str(kv[0]), g_str(kv[1]))),
                                   g_opt(sh[2], g_str), g_list(sh[3], g_elem))


def g_fmt(f):
    name, opts = f
    if name == "json":
        return "(FJson %s)" % ("true" if opts.get("pretty", True) else "false")
    if name == "yaml":
        return "(FYaml %s)" % g_opt(opts.get("root_key"), g_str)
    if name == "xml":
        return "(FXml %s)" % g_str(opts.get("root_tag", "config"))
    return {"pickle": "FPickle", "bson": "FBson"}[name]


def g_ftab(tree):
    seen, out = set(), []
    for v in walk(tree):
        if isinstance(v, float):
            lit = g_float(v)
            if lit not in seen:
                seen.add(lit)
                out.append("(%s,%s)" % (lit, g_str(repr(v))))
    return "[%s]" % ";".join(out)


def g_ptab(sh):
    seen, out = set(), []
    for t in texts(sh):
        if t in seen or len(t) > 40:
            continue
        seen.add(t)
        try:
            f = float(t)
        except ValueError:
            continue                 # absent from the table = ValueError
        out.append("(%s,Some %s)" % (g_str(t), g_float(f)))
    return "[%s]" % ";".join(out)


def gcase(c):
    k = c["kind"]
    if k == "xml":
        parsed = c.get("_parsed")
        return "(CXml %s %s %s %s %s %s)" % (g_ftab(c["tree"]), g_ptab(parsed) if parsed else "[]", g_str(c["dump_tag"]),
                                             g_str(c["load_tag"]), g_pmap(c["tree"]), g_opt(parsed, g_elem))
    if k == "fromelem":
        return "(CFromElem %s %s %s)" % (g_ptab(c["elem"]), g_opt(c["forced"], g_str), g_elem(c["elem"]))
    if k == "wrap":
        return "(CWrap %s %s %s)" % (g_fmt((c["fmt"], c["dopts"])), g_fmt((c["fmt"], c["lopts"])), g_pmap(c["tree"]))
    if k == "reg":
        def g_op(op):
            if op[0] == "register":
                return "(RRegister %s %d%%N)" % (g_str(op[1]), op[2])
            if op[0] == "get":
                return "(RGet %s)" % g_str(op[1])
            return "RInit"
        return "(CReg %s)" % g_list(c["ops"], g_op)
    if k == "regtable":
        return "CRegTable"
    return "CProbe"


# ---------------------------------------------------------------------------------------------
# generation
# ---------------------------------------------------------------------------------------------
def has_big(tree):
    return any(type(v) is int and not (INT64[0] <= v < INT64[1]) for v in walk(tree))


def cases_for_tree(tree, tid, rng, full):
    """every format x option value on one tree"""
    out = []
    keys = list(tree)
    inner = rng.choice(keys) if keys else "a"
    combos = [("json", {}), ("json", {"pretty": False}), ("json", {"pretty": True}), ("pickle", {}),
              ("yaml", {}), ("yaml", {"root_key": "root"}), ("yaml", {"root_key": inner}), ("yaml", {"root_key": ""})]
    sur = has_surrogate(tree)
    if not has_big(tree) and not sur:
        combos.append(("bson", {}))
    if not full:
        combos = [combos[0], combos[1], combos[3], combos[4], rng.choice(combos[5:7])] + combos[8:]
    for name, opts in combos:
        out.append({"kind": "wrap", "fmt": name, "dopts": opts, "lopts": opts, "tree": tree, "tid": tid})
    if sur or not xml_keys_ok(tree):
        return out                       # outside the domain of (bson and) xml (measured): see PROBES
    tags = ["config", rng.choice(["cfg", "root", "item", "x-1", "é"] + [k for k in keys if k in KEYS or _NAME.match(k)])]
    for tag in (tags if full else [rng.choice(tags)]):
        out.append({"kind": "xml", "dump_tag": tag, "load_tag": tag, "tree": tree, "tid": tid})
    return out


EL_TYPES = ["str", "bool", "int", "float", "none", "list", "dict", "", None, "other", "INT", "Str", "tuple"]
EL_TEXTS = [None, "", "1", " 12 ", "1_0", "1__0", "_1", "+5", "-7", "--1", "- 1", "0x10", "1.5", "inf", "-inf", "nan", "1e5", "True",
            "YES", "Off", "n", "N", "x", " t ", "t", "f", "no", "on", "0", "00", "007", "\n  ", "12\n", "\x1c1", "1 2", "", "1e", ".5",
            "1_0.5", "Infinity", "tRuE", "false ", "y", "abc", "-0", "+", "-", "12345678901234567890123", "1\u00a0", "\u20031\u3000",
            "\x1f1", "\x851"]
# non-ASCII texts: int() accepts 670 non-ASCII digits (outside the model), so never under an effective type "int"
EL_TEXTS_NA = ["\u212a", "\u0130", "t\u212a", "\u0131", "TRU\u0190", "\u0661\u0662", "\uff11", "\u00e9", "\U0001F600", "ye\u017f"]


def rtext(rng, ty):
    if ty != "int" and rng.random() < 0.12:
        return rng.choice(EL_TEXTS_NA)
    return rng.choice(EL_TEXTS)


def relem(rng, depth, tag=None, forced=None):
    ty = rng.choice(EL_TYPES)
    attrs = {} if ty is None else {"type": ty}
    if rng.random() < 0.15:
        attrs["other"] = "x"
    kids = []
    if depth > 0 and (ty in ("list", "dict") or rng.random() < 0.15):
        kids = [relem(rng, depth - 1, rng.choice(["item", "a", "a", "b", "c"])) for _ in range(rng.choice([0, 1, 2, 3]))]
    return (tag or rng.choice(["config", "a", "item"]), attrs, rtext(rng, ty if forced in (None, "") else forced), kids)


PROBES = (
    [("xml", {"k": s}) for s in ["\r", "a\r\nb", "a\rb", "\x00", "\x0b", "\x1f", "￾", "￿", "\ud800", "x\x0c"]]
    + [("xml", {k: 1}) for k in ["a:b", "1a", "", "a b", "-a", "$a", "a\x00b", "a>b", "Ĳ"]]
    + [("xml", {"k": [{"a:b": "\r"}]}), ("xml", {"k": b"bytes"}), ("xml", {"k": (1, 2)})]
    + [("bson", {"k": v}) for v in [2 ** 63, 2 ** 64 - 1, 2 ** 64, -2 ** 63 - 1, 10 ** 30]]
    + [("bson", {"a\x00b": 1}), ("bson", {"a.b": 1, "$c": 2})]
    + [("yaml", {"k": "\ud800"}), ("yaml", {"k": "\x00"}), ("yaml", {"k": "\r"}), ("yaml", {"\r": "a\r\nb"})]
    + [("json", {"k": "\ud800"}), ("json", {"k": "\x00\r"}), ("pickle", {"k": "\ud800\r\x00"}), ("json", {"k": 10 ** 30})]
    + [("bson", {"k": "\udc80"}), ("bson", {"\udc80": 1}), ("xml", {"k": "a\udc80"}), ("xml", {"\udc80": 1}),
       ("json", {"k": "\ud83d\ude00"}), ("json", {"\ud83d\ude00": 1}), ("yaml", {"k": "\ud83d\ude00"}), ("pickle", {"k": "\ud83d\ude00"})]
)


def matrix_trees():
    scal = [None, True, False, 0, 1, -1, 10 ** 18, -2 ** 63, 0.0, -0.0, 1.0, float("inf"), float("-inf"), float("nan"), 5e-324,
            "", "1", "true", "null", " ", "<>&\"'", "\U0001F600", "x\n"]
    trees = [{}]
    for v in scal:
        trees.append({"a": v})
        trees.append({"l": [v], "d": {"k": v}})
    trees += [{"a": []}, {"a": {}}, {"a": [[]]}, {"a": [{}]}, {"a": {"b": []}}, {"a": {"b": {}}}, {"a": [[], {}, None, ""]},
              {"b": 1, "a": 2}, {"item": {"item": [{"item": 1}]}, "type": "type"}, {"root": {"root": 1}, "config": {"config": None}},
              {"a": [True, 1, 1.0, "1", "True"]}, {"a": [False, 0, 0.0, -0.0, "0", "", None, [], {}]},
              {"a": 2 ** 64}, {"a": -10 ** 40, "b": [2 ** 63]}]
    for sv in SUR_STRS:
        trees.append({"a": sv})
        trees.append({"l": [sv, "x"], "d": {"k": sv}})
    for sk in SUR_KEYS:
        trees.append({sk: 1, "z": {sk: [sk]}})
        trees.append({sk: SUR_STRS[1], "a": None})
    return trees


def generate(rng, tier):
    quick = tier == "quick"
    cases = [{"kind": "regtable"}]
    tid = 0
    mrng = __import__("random").Random(4)
    for t in matrix_trees():
        cases += cases_for_tree(t, tid, mrng, True)
        tid += 1
    # every syntax-like token x every format x value / list item / nested value / key, in all placements
    for tok in SYN_TOKENS:
        pl = placements(tok)
        cases += cases_for_tree({"a": pl[0], "l": [pl[1], pl[3], pl[5]], "d": {"k": pl[4], "m": [pl[6]]}, "b": pl[2], "c": pl[7],
                                 "e": [pl[8], pl[9]]}, tid, mrng, False)
        tid += 1
        kt = {}
        for i, q in enumerate(pl):
            if q != "":
                kt[q] = [i, None, {pl[(i + 3) % len(pl)]: pl[(i + 5) % len(pl)]}][i % 3]
        cases += cases_for_tree(kt, tid, mrng, False)
        tid += 1
    # wrong root tags; mismatched YAML root keys (correspondence of the `in tree` test)
    for t in [{}, {"a": 1}, {"config": {"a": 1}}]:
        for dt, lt in [("config", "cfg"), ("cfg", "config"), ("config", "Config"), ("a", "b"), ("config", "config "), ("x", "")]:
            cases.append({"kind": "xml", "dump_tag": dt, "load_tag": lt, "tree": t, "tid": None})
    for t in [{}, {"a": 1}, {"root": {"a": 1}, "b": 2}, {"root": 5}, {"root": None, "a": []}]:
        for dk, lk in [(None, "root"), ("root", None), ("root", "a"), ("a", "root"), ("", "root"), ("root", "")]:
            cases.append({"kind": "wrap", "fmt": "yaml", "dopts": {"root_key": dk}, "lopts": {"root_key": lk}, "tree": t, "tid": None})
    # registry histories
    names = ["json", "xml", "yaml", "custom", "zzz"]
    for ops in [[("get", "json")], [("get", "nope")], [("register", "custom", 10), ("get", "custom")],
                [("register", "json", 10), ("get", "json")], [("init",), ("register", "json", 10), ("get", "json")],
                [("get", "xml"), ("register", "xml", 11), ("get", "xml"), ("get", "json")],
                [("register", "custom", 10), ("register", "custom", 11), ("get", "custom"), ("get", "zzz")],
                [("init",), ("init",), ("get", "bson"), ("get", "pickle"), ("get", "yaml")]]:
        cases.append({"kind": "reg", "ops": ops})
    for _ in range(40 if quick else 1500):
        ops = []
        for _ in range(rng.randint(1, 6)):
            r = rng.random()
            if r < 0.45:
                ops.append(("register", rng.choice(names), rng.choice([10, 11, 0, 2])))
            elif r < 0.9:
                ops.append(("get", rng.choice(names + ["pickle", "bson", "nope"])))
            else:
                ops.append(("init",))
        cases.append({"kind": "reg", "ops": ops})
    for p in PROBES:
        cases.append({"kind": "probe", "fmt": p[0], "tree": p[1]})
    # hand-made elements through _from_element
    erng = __import__("random").Random(5)
    for ty in EL_TYPES:
        for tx in EL_TEXTS + ([] if ty == "int" else EL_TEXTS_NA):
            attrs = {} if ty is None else {"type": ty}
            cases.append({"kind": "fromelem", "forced": None, "elem": ("a", attrs, tx, [])})
    for _ in range(150 if quick else 6000):
        r = erng if quick else rng
        forced = r.choice([None, None, None, "dict", "list", "str", "int", "", "bool", "zzz"])
        cases.append({"kind": "fromelem", "forced": forced, "elem": relem(r, 2, None, forced)})
    # random trees
    for _ in range(110 if quick else 4000):
        t = rtree(rng, big=rng.random() < 0.2)
        cases += cases_for_tree(t, tid, rng, False)
        tid += 1
    for _ in range(60 if quick else 2500):
        t = inject_sur(rng, rtree(rng, big=rng.random() < 0.2))
        cases += cases_for_tree(t, tid, rng, False)
        tid += 1
    for i in range(140 if quick else 5000):
        t = inject_syn(rng, rtree(rng, big=rng.random() < 0.1), keys=(i % 3 == 0))
        cases += cases_for_tree(t, tid, rng, False)
        tid += 1
    # the XML codec is the only one written in the repository: more trees for it alone
    for _ in range(450 if quick else 12000):
        t = rtree(rng, big=rng.random() < 0.3)
        tag = rng.choice(["config", "config", "cfg", "item", "x-1", "\u00e9"] + list(t))
        lt = tag if rng.random() < 0.93 else rng.choice(["config", "cfg", tag + "x", tag.upper()])
        cases.append({"kind": "xml", "dump_tag": tag, "load_tag": lt, "tree": t, "tid": None})
    return cases


# ---------------------------------------------------------------------------------------------
# implementation runner
# ---------------------------------------------------------------------------------------------
_LOWER_CHECKED = []
_SEEN = {}          # tid -> [(what, decoded)]: results of earlier cases on the same tree (formats agree)


def check_interpreter_facts():
    """facts Formats.v hard-codes: str.lower() never maps a non-ASCII string into BoolField's value sets"""
    if _LOWER_CHECKED:
        return
    from cincoconfig.fields import BoolField
    vals = set(BoolField.TRUE_VALUES) | set(BoolField.FALSE_VALUES)
    if tuple(BoolField.TRUE_VALUES) != ("t", "true", "1", "on", "yes", "y") or \
            tuple(BoolField.FALSE_VALUES) != ("f", "false", "0", "off", "no", "n"):
        _LOWER_CHECKED.append("BoolField.TRUE_VALUES/FALSE_VALUES differ from Formats.v true_values/false_values")
        return
    letters = set("".join(vals))
    for cp in range(128, 0x110000):
        if 0xD800 <= cp < 0xE000:
            continue
        low = chr(cp).lower()
        if all(ch in letters for ch in low):
            _LOWER_CHECKED.append("chr(%#x).lower() = %r consists of letters of the boolean words" % (cp, low))
            return
    _LOWER_CHECKED.append(None)


def get_format(name, opts):
    from cincoconfig.core import ConfigFormat
    return ConfigFormat.get(name, **opts)


def impl(c):
    try:
        return _impl(c)
    except Broken:
        raise
    except Exception as e:  # noqa
        c["_crash"] = "%s: %s" % (type(e).__name__, e)
        return ("crash", exc_kind(e))


def _impl(c):
    import copy
    k = c["kind"]
    if k == "xml":
        tree = copy.deepcopy(c["tree"])
        fd = get_format("xml", {} if c["dump_tag"] == "config" else {"root_tag": c["dump_tag"]})
        fl = get_format("xml", {} if c["load_tag"] == "config" else {"root_tag": c["load_tag"]})
        ele = show(fd._to_element(fd.root_tag, tree))
        c["_ele"] = ele
        try:
            doc = fd.dumps(None, tree)
        except Exception as e:  # noqa
            c["_dumps_exc"] = type(e).__name__
            return (ele, "noparse")
        c["_bytes"] = isinstance(doc, bytes)
        c["_parsed"] = show(ET.fromstring(doc.decode()))
        try:
            res = ("ok", to_obs(fl.loads(None, doc)))
        except Exception as e:  # noqa
            res = ("err", exc_kind(e))
        c["_res"] = res
        c["_pure"] = teq(tree, c["tree"])
        return (ele, res)
    if k == "fromelem":
        from cincoconfig.formats.xml import XmlConfigFormat
        fmt = XmlConfigFormat()
        try:
            return ("ok", to_obs(fmt._from_element(build(c["elem"]), c["forced"])))
        except Exception as e:  # noqa
            return ("err", exc_kind(e))
    if k == "wrap":
        tree = copy.deepcopy(c["tree"])
        fd = get_format(c["fmt"], {kk: v for kk, v in c["dopts"].items() if v is not None})
        fl = get_format(c["fmt"], {kk: v for kk, v in c["lopts"].items() if v is not None})
        try:
            doc = fd.dumps(None, tree)
            c["_bytes"] = isinstance(doc, bytes)
            dec = fl.loads(None, doc)
            c["_dec"] = dec
            res = ("ok", to_obs(sort_tree(dec) if c["fmt"] == "yaml" else dec))
        except Exception as e:  # noqa
            res = ("err", exc_kind(e))
        c["_res"] = res
        c["_pure"] = teq(tree, c["tree"])
        return res
    if k == "reg":
        return run_registry(c)
    if k == "regtable":
        from cincoconfig.formats import FORMATS
        c["_table"] = [(n, cls.__name__, cls.__module__) for n, cls in FORMATS]
        return [(n, CLASS_IDS.get(cls.__name__, 99)) for n, cls in FORMATS]
    if k == "probe":
        import copy as _c
        tree = _c.deepcopy(c["tree"])
        try:
            f = get_format(c["fmt"], {})
            dec = f.loads(None, f.dumps(None, tree))
            c["_probe"] = ("ok", dec)
        except Exception as e:  # noqa
            c["_probe"] = ("raised", type(e).__name__)
        return "probe"
    raise Broken("unknown case kind %r" % (k,))


def run_registry(c):
    from cincoconfig.core import ConfigFormat
    import cincoconfig.formats.json as fj
    import cincoconfig.formats.pickle as fp
    import cincoconfig.formats.xml as fx
    import cincoconfig.formats.yaml as fy
    import cincoconfig.formats.bson as fb
    builtin = {0: fj.JsonConfigFormat, 1: fp.PickleConfigFormat, 2: fx.XmlConfigFormat, 3: fy.YamlConfigFormat,
               4: fb.BsonConfigFormat}
    user = {10: type("UserFormatA", (ConfigFormat,), {}), 11: type("UserFormatB", (ConfigFormat,), {})}
    classes = {**builtin, **user}
    ids = {v: kk for kk, v in classes.items()}
    RK, IK = "_ConfigFormat__registry", "_ConfigFormat__initialized"
    saved = (dict(getattr(ConfigFormat, RK)), getattr(ConfigFormat, IK))
    reg = getattr(ConfigFormat, RK)
    outs = []
    try:
        reg.clear()
        setattr(ConfigFormat, IK, False)
        for op in c["ops"]:
            try:
                if op[0] == "register":
                    outs.append(ConfigFormat.register(op[1], classes[op[2]]))
                elif op[0] == "get":
                    inst = ConfigFormat.get(op[1])
                    outs.append(ids.get(type(inst), 98))
                else:
                    outs.append(ConfigFormat.initialize_registry())
            except Exception as e:  # noqa
                outs.append(exc_kind(e))
        table = [(n, ids.get(cls, 98)) for n, cls in getattr(ConfigFormat, RK).items()]
        c["_same_dict"] = getattr(ConfigFormat, RK) is reg
    finally:
        reg2 = getattr(ConfigFormat, RK)
        reg2.clear()
        reg2.update(saved[0])
        setattr(ConfigFormat, IK, saved[1])
    return (outs, table)


# ---------------------------------------------------------------------------------------------
# direct oracle
# ---------------------------------------------------------------------------------------------
def oracle(c, obs):
    check_interpreter_facts()
    bad = []
    if _LOWER_CHECKED[0]:
        bad.append("interpreter fact assumed by the model is false: " + _LOWER_CHECKED[0])
    if "_crash" in c:
        return bad + ["harness/implementation crashed outside dumps/loads: " + c["_crash"]]
    k = c["kind"]
    if k in ("xml", "wrap") and not c.get("_pure", True):
        bad.append("dumps/loads mutated the tree it was given")
    if k in ("xml", "wrap") and c.get("_bytes") is False:
        bad.append("dumps did not return bytes")
    if k == "xml":
        if "_dumps_exc" in c:
            return bad + ["xml dumps raised %s on an in-domain tree" % c["_dumps_exc"]]
        for v in walk(c["tree"]):
            if isinstance(v, float) and (fbits(float(repr(v))) != fbits(v) or not all(32 <= ord(ch) < 127 for ch in repr(v))):
                bad.append("float text law assumed by the theorems fails: float(repr(x)) != x for %s" % v.hex())
        if not sim(c["_ele"], c["_parsed"]):
            bad.append("ElementTree/minidom law assumed by the theorems fails: the parsed document differs from the element "
                       "tree beyond text of parents / None vs empty text")
        res = c["_res"]
        if c["dump_tag"] != c["load_tag"]:
            if res != ("err", "value"):
                bad.append("document with root tag %r loaded with root_tag=%r was not rejected with ValueError: %r"
                           % (c["dump_tag"], c["load_tag"], res))
            return bad
        bad += check_decoded(c, res, "xml root_tag=%r" % c["dump_tag"], ordered=True)
    elif k == "wrap":
        res = c["_res"]
        dk, lk = c["dopts"].get("root_key"), c["lopts"].get("root_key")
        if c["fmt"] == "yaml" and dk != lk:
            doc = {dk: c["tree"]} if dk else c["tree"]
            exp = doc[lk] if lk and lk in doc else doc
            if res[0] != "ok" or not teq(c["_dec"], exp, ordered=False):
                bad.append("yaml root_key dumps=%r loads=%r: unexpected result %r" % (dk, lk, res))
            return bad
        bad += check_decoded(c, res, "%s %r" % (c["fmt"], c["dopts"]), ordered=c["fmt"] != "yaml")
    # out-of-domain probes are outside the property's quantifier: never an oracle message, only counted (see tags)
    elif k == "regtable":
        for n, clsname, mod in c["_table"]:
            if not mod.startswith("cincoconfig.formats.") or CLASS_IDS.get(clsname) is None:
                bad.append("unexpected built-in format %s -> %s.%s" % (n, mod, clsname))
        if sorted(n for n, _, _ in c["_table"]) != ["bson", "json", "pickle", "xml", "yaml"]:
            bad.append("built-in formats are not exactly json, pickle, xml, yaml, bson: %r" % (c["_table"],))
    elif k == "reg":
        bad += reg_oracle(c, obs)
    return bad


def check_decoded(c, res, what, ordered):
    bad = []
    if res[0] != "ok":
        return ["%s: round trip of an in-domain tree raised (%s): %r" % (what, res[1], c["tree"])]
    dec = c["_dec"] if c["kind"] == "wrap" else res[1]
    if not teq(dec, c["tree"], ordered=ordered):
        bad.append("%s: decoded tree differs from the encoded one (value, type or key order): %r -> %r" % (what, c["tree"], dec))
    if c.get("tid") is not None:
        prev = _SEEN.setdefault(c["tid"], [])
        for pw, pd in prev:
            if not teq(dec, pd, ordered=False):
                bad.append("%s and %s decode the same tree differently" % (what, pw))
                break
        prev.append((what, dec))
    return bad


def reg_oracle(c, obs):
    """get(name) returns the class registered under name: the last register() for it, else the built-in; unknown ->
    KeyError.  A register() under a built-in name made BEFORE the registry was initialised is ambiguous in the property
    text (the code lets the built-in win): either class is accepted here, the model pins the code's choice."""
    bad = []
    builtin = {"json": 0, "pickle": 1, "xml": 2, "yaml": 3, "bson": 4}
    outs, table = obs
    tab, init = {}, False          # name -> set of acceptable class ids
    for op, out in zip(c["ops"], outs):
        if op[0] == "register":
            tab[op[1]] = {op[2]}
            ok = out is None
        else:
            if not init:
                for n, cid in builtin.items():
                    tab[n] = tab.get(n, set()) | {cid}
                init = True
            ok = out is None if op[0] == "init" else (out in tab[op[1]] if op[1] in tab else out == "key")
        if not ok:
            bad.append("registry: %r returned %r, acceptable %r (history %r)" % (op, out, tab.get(op[1] if len(op) > 1 else None), c["ops"]))
            break
    if not bad and (set(n for n, _ in table) != set(tab) or any(cid not in tab[n] for n, cid in table)):
        bad.append("registry table %r differs from the registrations %r" % (table, tab))
    if not c.get("_same_dict", True):
        bad.append("registry dict was replaced")
    return bad


def kinds(tree):
    s = set()
    for v in walk(tree):
        if v is None:
            s.add("none")
        elif isinstance(v, bool):
            s.add("bool")
        elif isinstance(v, int):
            s.add("int" if INT64[0] <= v < INT64[1] else "bigint")
        elif isinstance(v, float):
            s.add("nan" if v != v else "inf" if v in (float("inf"), float("-inf")) else "negzero" if fbits(v) == fbits(-0.0)
                  else "subnormal" if 0 < abs(v) < 2.2250738585072014e-308 else "float")
        elif isinstance(v, str):
            if any(is_sur(ch) for ch in v):
                s.add("str_lone_surrogate")
            if any(t in v for t in ("//", "/*", "#", "<!--", "]]>", "&amp;", "&lt;", "---", "...", ": ", "- ", "%", "\\")):
                s.add("str_syntax_like")
            s.add("emptystr" if v == "" else "str_markup" if any(ch in v for ch in "<>&\"'") else
                  "str_space" if v.strip() != v else "str_nonbmp" if any(ord(ch) > 0xFFFF for ch in v) else
                  "str_wordlike" if v.lower() in ("1", "0", "true", "false", "null", "none", "yes", "no", "on", "off", "~", "nan", "inf") else "str")
        elif isinstance(v, list):
            s.add("emptylist" if not v else "list")
        elif isinstance(v, dict):
            s.add("emptymap" if not v else "map")
            if any(isinstance(k, str) and any(is_sur(ch) for ch in k) for k in v):
                s.add("key_lone_surrogate")
            if any(isinstance(k, str) and not (k in KEYS or _NAME.match(k)) and not any(is_sur(ch) for ch in k) for k in v):
                s.add("key_syntax_like")
    return s


def tags(c, obs):
    k = c["kind"]
    t = {k}
    if k == "xml":
        t.add("xml:" + ("wrongroot" if c["dump_tag"] != c["load_tag"] else "default" if c["dump_tag"] == "config" else "othertag"))
        t |= {"v:" + x for x in kinds(c["tree"])}
    elif k == "wrap":
        o = c["dopts"]
        t.add(c["fmt"] + ":" + (",".join("%s=%s" % (a, "inner" if a == "root_key" and b in c["tree"] else b) for a, b in sorted(o.items())) or "default"))
        if c["dopts"] != c["lopts"]:
            t.add("yaml:mismatched_root_key")
        t |= {"v:" + x for x in kinds(c["tree"])}
    elif k == "fromelem":
        t.add("fromelem:type=%s" % c["elem"][1].get("type"))
        t.add("fromelem:forced=%s" % c["forced"])
    elif k == "probe":
        st, val = c.get("_probe", ("?", None))
        t.add("ood:%s:%s" % (c["fmt"], "raised" if st == "raised" else "preserved" if teq(val, c["tree"], ordered=False) else
                             "value-changed" if same_types(c["tree"], val) else "silently-changed"))
    elif k == "reg":
        t.add("reg:pre-init-register" if c["ops"] and c["ops"][0][0] == "register" else "reg:other")
    return t


def nontrivial(c, obs):
    k = c["kind"]
    if k in ("xml", "wrap"):
        return bool(c["tree"])
    if k == "fromelem":
        return True
    if k == "reg":
        return any(op[0] == "get" for op in c["ops"])
    return k == "regtable"
