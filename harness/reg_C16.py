from registry import KERNEL, TIE, HARNESS

PROP = "C16"
SPEC = {
    "manifest": {
        "technique": ("machine-checked proof in Coq (nested induction over schema trees; frame lemmas for dotted assignment "
                      "lifted over arbitrary namespaces) + model/implementation correspondence by vm_compute through the "
                      "real generated ArgumentParser"),
        "text": ("Eleven theorems in coq/theories/Paths*.v. For every well-formed schema tree of any depth and width with "
                 "identifier keys and an empty own key: each (path, field) of get_all_fields resolves by Schema.__getitem__ "
                 "to that very field, the field's _ref_path is the path, on every conforming configuration membership "
                 "holds and config[path] = chained attribute access for value-holding fields, and config[path] = x equals "
                 "chained attribute assignment for every field and value. The full statement is refuted inside the two open "
                 "findings (F40: schemas with a key of their own; F27: virtual and instance-method fields) and proved "
                 "outside them. For every schema: the generated option table has exactly one store option per "
                 "str/int/float field and exactly the on/off switches per bool field, destination = path, default None, no "
                 "duplicate option strings under the no-collision hypothesis; the empty command line overrides nothing; "
                 "cmdline_args_override visits exactly supplied minus ignored, leaves every position not comparable with a "
                 "visited destination (value and default mark) unchanged even when aborted, and every visited destination "
                 "shows its validated value marked user-defined. The model is tied to support.py/core.py by running random "
                 "schemas, the real generate_argparse_parser parser on exact-option command lines, random ignore lists and "
                 "prior histories on the implementation and comparing every observation inside Coq."),
        "note": ("Trusted: Coq kernel + vm_compute; the correspondence harness. argparse itself (parse_args for exact long "
                 "options, namespace defaults) is library code: modelled by a small concrete function and sampled against "
                 "the real parser, not verified. Python's float(str) enters as a per-case table. No axioms."),
        "design_ref": "DESIGN.md section 6 C16"},
    "streams": ["paths"],
    "witnesses": ["F3"],
    "rule": ("deterministic matrix (14 fixed schemas, one with StringField choices (in the transformed case and in another one) / case and strip transforms / regex / length bounds and bounded int and float fields, supplied with texts that differ from the stored normal form (other case, padded, 007, 1e3) and with texts the options reject (random str leaves get such options with probability ~0.5, float leaves bounds with 0.6), one built by dotted item assignment schema['a.b.c.d.n'] = field with 2..5 segments (creating the intermediate schemas / into explicitly created ones, next to attribute construction; random sub-schemas: probability 0.25), one whose str/int/float/bool leaves are NumberField(int|float) built directly, subclasses of the built-in classes and Field() with storage_type overridden on the instance (random leaves: probability 0.3), one built bottom-up with sub-schemas populated and READ (reference paths, get_all_fields, generated parser) before being attached, attached to a throw-away parent or under an earlier sibling key first (last attachment wins; random sub-schemas: read-before-attach with probability 0.25, re-attachment 0.25), one with sub-schemas created explicitly with env=False/True/str/default and registered by attribute and by item at every depth, one whose field and sub-schema keys are public members of Schema and of Config (names taken from dir() at generation time; random schemas get them with probability 0.3 and a random env setting with probability 0.5), two of them with keys whose option string has adjacent / trailing dashes: a_, b__c, class_.enabled, dry__run, x {empty command line, two generated command lines, hand-made namespace} "
             "+ 3 sub-schemas handed in directly) then seeded random schemas of depth <= 4 (identifier keys incl. trailing/double underscores, collision-free "
             "after the '.'/'_' -> '-' mapping; str/int/float/bool/any/list/dict/bytes/virtual/method leaves, nested "
             "schemas, config types; 10% keyed roots and 10% sub-schemas handed in directly for F40), each with missing / "
             "trailing-dot / inside-config-type lookups, a random prior history assigned both by item and by attribute, a "
             "random exact-option command line (repeats, --opt=value, invalid values, malformed lines) or a hand-made "
             "namespace (None values, foreign destinations) and a random ignore list (list / str / None). non-trivial = "
             "something is supplied or more than two fields are enumerated; distinct = distinct case"),
    "trusted_base": [KERNEL, "Print Assumptions: closed under the global context (no axioms)", TIE, HARNESS,
                     "modelled, not verified: argparse.ArgumentParser.parse_args for exact long options (`--opt value`, "
                     "`--opt=value`, `--flag`, `--no-flag`, last one wins, namespace defaults in action order) as the "
                     "concrete function Paths.parse, sampled against the real parser on every case",
                     "Python float(str) as a per-case table answered by the interpreter directly",
                     "the option table of the model has no choices / type column: a generated option accepts ANY text (the "
                     "oracle checks choices=None, type=None on every introspected action); validation happens in the override",
                     "StringField(regex=..) is modelled for two concrete patterns ([a-z]+\\Z and [a-z][a-z0-9_-]*\\Z) evaluated "
                     "in Coq; str.strip()/lower()/upper() on ASCII text only",
                     "Schema.__getitem__ creating sub-schemas for missing keys is observed as an outcome only; the harness "
                     "restores the field tables after every lookup"],
    "assumptions": ["keys are ASCII identifiers that do not start with '_'; for a key that is a public attribute of the Config "
                    "class (`config.save` is the method, not a field named save) chained ATTRIBUTE access / attribute walks "
                    "are not checked (observed as the tag 'reserved'); schema lookup, enumeration, reference path, "
                    "config[path], membership, dotted assignment and the parser are checked for such keys too; an "
                    "InstanceMethodField is never given the name of a Config property (full_path: building the configuration "
                    "raises AttributeError)",
                    "one schema object registered under two keys / two parents AT THE SAME TIME is aliasing and outside the "
                    "model (measured on the unchanged code: get_all_fields then reports the last key under both entries); "
                    "re-attachment where the earlier attachment is discarded or overwritten is inside and generated",
                    "schemas are finite trees built through Schema attribute assignment (unique keys; a nested schema's own "
                    "key is the key it is registered under: hypothesis wf); non-dynamic schemas",
                    "option strings / paths do not collide after the '.'/'_' -> '-' mapping (hypothesis of C16_parser_options; "
                    "argparse itself rejects a colliding schema)",
                    "a Field() whose storage_type is overridden on the instance validates nothing: it is only ever given the "
                    "values its built-in counterpart accepts unchanged (strings / switch booleans / None)",
                    "user-supplied getters/setters of virtual fields are constants / no-ops",
                    "values reaching a field are None/bool/int/float/str (what argparse and the histories produce); maps "
                    "assigned to sub-configurations and indexing below a plain value are Unmodelled and not generated"],
}
