from registry import KERNEL, TIE, HARNESS
PROP = "C15"
SPEC = {
    "manifest": {"technique": "machine-checked proof in Coq (induction over nested values: every error of _set_value / load_tree is the validation error with a path at or below the assigned field, exactly the field's path for leaves) + model/implementation correspondence by vm_compute on exception class and ref_path",
                 "text": "Theorems rejection_shape / load_rejection_shape / leaf_rejection_path (coq/theories/ConfigLemmas.v), by induction on the size of the assigned value, for all schemas, states, paths and values of every shape: a rejected assignment or load is ErrValidation p with (path of the configuration).(key) a prefix of p -- item index included for configurations in lists -- and p is exactly the field's path for leaf fields; the only other outcome is AttributeError for a map holding an undeclared key of a non-dynamic schema (open finding F33, Example F33_refuted). inst_rejection_shape discharges the leaf hypotheses for the concrete fields. Tied to the code by comparing exception class and ValidationError.ref_path on every rejected step of random histories over all routes (attribute, dotted path, constructor keyword, load_tree, list append / item assignment).",
                 "note": 'Trusted: Coq kernel + vm_compute; harness. Hypothesis of the general theorem: leaf fields raise plain exceptions (typed dict leaves raise ValidationError with their own path: DictProxy, covered by witnesses F16 and C17). Open findings F33 (AttributeError for undeclared key in a nested map) and F37 (typed dict as list item names no list field). Document-load route through parsers: C18/C04 streams. No axioms.',
                 "design_ref": "DESIGN.md section 6 C15"},
    "streams": ['co15', 'dictpaths', 'configfields'],
    "witnesses": ['F1', 'F16', 'F17', 'F18', 'F19', 'F28', 'F44', 'F48'],
    "rule": 'as C06, with assignment/load-heavy histories and wrongly typed values of every JSON-like kind',
    "trusted_base": [KERNEL, "Print Assumptions: closed under the global context (no axioms)", TIE, HARNESS,
                      "modelled, not verified: leaf fields are opaque in Config.v (Section variables lvalidate / lto_python / lto_basic / ldefault); "
                      "the correspondence instantiates them with the concrete IntField / StringField / BoolField / FeatureFlagField / AnyField model "
                      "of ConfigInst.v; schema validators come from a fixed vocabulary (a string field must differ from a given text)",
                      "not in the operation alphabet: assigning Config objects (only plain data), aliasing one object in two places, environment bindings (C14)"],
    "assumptions": ['friendly field names only change the message text, not ref_path'],
}
