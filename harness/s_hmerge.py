"""
stream `hmerge` (C13, purity clause of C18): IncludeField.combine_trees(base, child) on two literal
trees; compared with the heap version Alias.hcombine (`run_hcombine`): the merged tree AND both
inputs as they are after the call.  Oracle: the inputs are unchanged and the result's top-level dict
and every merged sub-dict is a new object (not `is` an input dict).
"""
from common import gal, Broken
from s_alias import g_tree

NAME = "hmerge"
IMPORTS = "From Cinco Require Import Base Alias."
RUN = "run_hcombine"
CASE_TYPE = "(atree * atree)"
KEYS = ["a", "b", "c"]


def rand_map(rng, depth=0):
    out = {}
    for _ in range(rng.randint(0, 3)):
        k = rng.choice(KEYS)
        r = rng.random()
        if r < 0.45 and depth < 3:
            out[k] = rand_map(rng, depth + 1)
        elif r < 0.6:
            out[k] = [rng.randint(0, 3)]
        else:
            out[k] = rng.choice([0, 1, "s", None])
    return out


def generate(rng, tier):
    cases = []
    vals = [None, 1, {}, {"x": 1}, {"x": {"y": [1]}}, [1]]
    for b in vals:
        for c in vals:
            cases.append({"base": {"k": b, "o": 1} if b is not None else {"o": 1},
                          "child": {"k": c} if c is not None else {}})
    for _ in range(200 if tier == "quick" else 4000):
        cases.append({"base": rand_map(rng), "child": rand_map(rng)})
    return cases


def gcase(c):
    return "(%s, %s)" % (g_tree(c["base"]), g_tree(c["child"]))


def _copy(t):
    if isinstance(t, dict):
        return {k: _copy(v) for k, v in t.items()}
    if isinstance(t, list):
        return [_copy(v) for v in t]
    return t


def _dicts(t, acc):
    if isinstance(t, dict):
        acc[id(t)] = t
        for v in t.values():
            _dicts(v, acc)


def impl(c):
    from cincoconfig import IncludeField
    base, child = _copy(c["base"]), _copy(c["child"])
    viol = []
    try:
        ret = IncludeField().combine_trees(base, child)
    except Exception as e:  # noqa
        c["_viol"] = []
        return ("err", type(e).__name__)
    if base != c["base"]:
        viol.append("combine_trees changed its base argument")
    if child != c["child"]:
        viol.append("combine_trees changed its child argument")
    if ret is base or ret is child:
        viol.append("combine_trees returned one of its arguments")
    # a merged sub-dict (key in both, both maps) must be new: writing to it must not reach the inputs
    def walk(r, b, ch):
        for k, v in r.items():
            if isinstance(v, dict) and isinstance(b.get(k), dict) and isinstance(ch.get(k), dict):
                if v is b[k] or v is ch[k]:
                    viol.append("a merged sub-map is one of the input maps")
                else:
                    walk(v, b[k], ch[k])
    walk(ret, base, child)
    c["_viol"] = viol
    return (ret, base, child)


def oracle(c, obs):
    return list(c.get("_viol", []))


def tags(c, obs):
    t = set()
    common = set(c["base"]) & set(c["child"])
    t.add("shared-keys:%d" % min(len(common), 2))
    if any(isinstance(c["base"][k], dict) and isinstance(c["child"][k], dict) for k in common):
        t.add("recursive-merge")
    return t


def nontrivial(c, obs):
    return bool(set(c["base"]) & set(c["child"]))
