"""
stream `challenge` (C09): ChallengeField / DigestValue through a real Schema/Config, with os.urandom patched
to a recorded byte stream, compared bit for bit with Challenge.v (`run_challenge`).

The model is never told what the implementation computed: its hash function is a per-case table of
(algorithm, input bytes, digest bytes) rows that `rows_for` obtains from hashlib DIRECTLY (the independent
recomputation), by following the specification of every operation with a small bookkeeping pass over the
case (position in the random stream, current stored salt/digest).  A row the model needs and does not find
makes the model answer "unmodelled", which shows up as a disagreement.

The oracle is independent of the model: it recomputes hashlib(salt + p) from the observed salt, checks
salt length and freshness against the recorded urandom calls, replays every challenge against the observed
stored value, compares salts of all fresh draws, checks that save/load kept salt and digest, and searches
every serialised output and the in-memory objects for the plaintexts.
"""
import base64
import hashlib
import json
import pickle
from xml.sax.saxutils import escape as _xml_escape

from common import gal, g_bytes, g_bool, g_n, g_list, g_opt, Digest, Broken

NAME = "challenge"
IMPORTS = "From Cinco Require Import Base Challenge."
RUN = "run_challenge"
CASE_TYPE = "ccase"

ALGS = ["md5", "sha1", "sha224", "sha256", "sha384", "sha512"]
SIZES = [16, 20, 28, 32, 48, 64]          # Challenge.v std_digest_size; re-checked against hashlib below
FORMATS = ["json", "yaml", "bson", "xml", "pickle"]
SLACK = 0                                  # the stream holds exactly the bytes the specification draws


def _facts_unicode():
    if not issubclass(UnicodeEncodeError, ValueError):
        raise Broken("UnicodeEncodeError is not a ValueError in this interpreter")
    try:
        "\ud800".encode()
    except UnicodeEncodeError:
        return
    raise Broken("str.encode() accepts a lone surrogate in this interpreter")


def _facts():
    _facts_unicode()
    """source facts: the ALGORITHMS table offers exactly the six names the model knows, and hashlib's digest
    sizes are the model's table"""
    from cincoconfig.fields import ChallengeField
    keys = list(ChallengeField.ALGORITHMS.keys())
    if sorted(keys) != sorted(ALGS):
        raise Broken("ChallengeField.ALGORITHMS offers %r; the model (Challenge.v std_digest_size) knows %r" % (keys, ALGS))
    for name, n in zip(ALGS, SIZES):
        if hashlib.new(name).digest_size != n:
            raise Broken("hashlib %s digest_size %d != model %d" % (name, hashlib.new(name).digest_size, n))


def hh(a, data):
    return hashlib.new(ALGS[a], data).digest()


def enc(x):
    """bytes of a secret, None when str.encode() raises"""
    if isinstance(x, str):
        try:
            return x.encode()
        except UnicodeEncodeError:
            return None
    return bytes(x)


def is_secret(x):
    return isinstance(x, (str, bytes)) and not isinstance(x, bool)


def b64d(v):
    """base64.b64decode of a document value: bytes, or None when it raises"""
    try:
        return base64.b64decode(v)
    except Exception:  # noqa
        return None


# ---------------------------------------------------------------------------------------------
# bookkeeping pass: the hashlib rows the specification needs, the number of random bytes it draws
# ---------------------------------------------------------------------------------------------
def rows_for(c, trace=None):
    alg, ds, stream = c["alg"], SIZES[c["alg"]], c["stream"]
    rows, seen = [], set()
    pos = 0
    cur = None            # None or (salt, digest, alg)

    def H(a, data, split=None):
        d = hh(a, data)
        if (a, data) not in seen:
            seen.add((a, data))
            rows.append((a, data, d, split))      # split = length of the salt part (literal printing only)
        return d

    def create(pt, salt=None):
        nonlocal pos
        if salt:
            if len(salt) < ds:
                return None
            s = salt[:ds]
        else:
            s = stream[pos:pos + ds]
            pos += ds
        b = enc(pt)
        if b is None:
            return None
        return (s, H(alg, s + b, len(s)), alg)

    def validate(x):
        if x is None:
            return ("ok", None) if not c["req"] else None
        if is_secret(x):
            v = create(x)
            return ("ok", v) if v else None
        if isinstance(x, Digest):
            return ("ok", (x.salt, x.digest, x.alg))
        return None

    def setdefault(d):
        if d is None:
            return ("ok", None)
        if isinstance(d, str):
            v = create(d)
            return ("ok", v) if v else None
        if isinstance(d, Digest):
            return ("ok", (d.salt, d.digest, d.alg))
        return None

    def to_python(v):
        if v is None:
            return ("ok", None)
        if isinstance(v, dict):
            if "salt" not in v or not isinstance(v["salt"], str) or "digest" not in v or not isinstance(v["digest"], str):
                return None
            s, d = b64d(v["salt"]), b64d(v["digest"])
            return ("ok", (s, d, alg)) if s is not None and d is not None else None
        if isinstance(v, str):
            x = create(v)
            return ("ok", x) if x else None
        return None

    def load(v):
        nonlocal cur
        p = to_python(v)
        if p:
            if p[1] is None:
                if not c["req"]:
                    cur = None
            else:
                cur = p[1]

    for op in c["ops"]:
        k = op[0]
        if k == "new":
            r = setdefault(c["default"])
            if r:
                cur = r[1]
        elif k == "assign":
            r = validate(op[1])
            if r:
                cur = r[1]
        elif k == "challenge":
            b = enc(op[1]) if is_secret(op[1]) else None
            if cur is not None and b is not None:
                H(cur[2], cur[0] + b, len(cur[0]))
        elif k == "python":
            to_python(op[1])
        elif k == "load":
            load(op[1])
        elif k == "saveload":
            tv = None if cur is None else {"salt": base64.b64encode(cur[0]).decode(), "digest": base64.b64encode(cur[1]).decode()}
            r = setdefault(c["default"])
            if r:
                cur = r[1]
                load(tv)
        elif k == "create":
            create(op[1], op[2])
        if trace is not None:
            trace.append(cur)
    return rows, pos


def draws_needed(c):
    return rows_for(dict(c, stream=b""))[1]


# ---------------------------------------------------------------------------------------------
# generation
# ---------------------------------------------------------------------------------------------
LETTERS = "abcdefghijklmnopqrstuvwxyzABCDEFGHIJKLMNOPQRSTUVWXYZ0123456789"
UNI = "äöüßéñ☃λЖ漢字🙂" + "e\u0301" + "\u212b" + "\u1100\u1161" + "o\u0308"


def rstr(rng, n, alphabet=LETTERS):
    return "".join(rng.choice(alphabet) for _ in range(n))


def rbytes(rng, n):
    return bytes(rng.getrandbits(8) for _ in range(n))


def plaintext(rng, kind):
    if kind == "empty":
        return ""
    if kind == "ascii":
        if rng.random() < 0.12:
            return rstr(rng, rng.randint(3, 6)) + ":" + rstr(rng, rng.randint(3, 6))     # looks like salt:digest, is a plaintext
        return rstr(rng, rng.randint(6, 14))
    if kind == "unicode":
        return rstr(rng, 3) + rstr(rng, rng.randint(3, 6), UNI) + rstr(rng, 3)
    if kind == "long":
        return rstr(rng, 200)
    if kind == "bytes":
        return rstr(rng, rng.randint(6, 14)).encode()
    if kind == "rawbytes":
        return b"\xff\xfe\x00" + rbytes(rng, rng.randint(5, 12)) + b"\x80"
    if kind == "emptybytes":
        return b""
    if kind == "edge":
        return rng.choice(EDGE) if rng.random() < 0.5 else edge_text(rng)
    raise Broken(kind)


# secrets whose edges / inside hold whitespace, control characters or case that a "helpful" normalisation would lose
EDGE = [" lead-space", "trail-space ", "\tTab-Both\n", "inner space pw", "   ", "\n", "\t", " \u00a0 ",
        "\u00a0nbsp-lead", "nbsp-trail\u00a0", "\u3000ideo\u3000", "editor-added\n", "dos-line\r\n", "Pass Word",
        "MiXeD-CaSe", "UPPER-ONLY", "lower-only", "nul\x00inside", "\x00lead-nul", "trail-nul\x00", "ctl\x01\x1f\x7f",
        "\x0bvt-ff\x0c", "\u2028line-sep", "\x85nel\x85", "  two  ", "\n\nblank-lines\n\n", "\ufeffbom-lead", "zero\u200bwidth\u200b"]
WS_CHARS = [" ", "\t", "\n", "\r\n", "\u00a0", "\u3000", "\x00", "\x0b", "\x0c", "\x1f", "\x85", "\u2028", "\u200b", "  "]


def edge_text(rng):
    """a random secret with whitespace / control characters at its edges or inside, or only whitespace"""
    r = rng.random()
    core = rstr(rng, rng.randint(4, 9))
    if r < 0.1:
        return "".join(rng.choice(WS_CHARS[:6]) for _ in range(rng.randint(1, 3)))[:5]
    if r < 0.4:
        return rng.choice(WS_CHARS) + core
    if r < 0.7:
        return core + rng.choice(WS_CHARS)
    if r < 0.85:
        return rng.choice(WS_CHARS) + core + rng.choice(WS_CHARS)
    i = rng.randrange(1, len(core))
    return core[:i] + rng.choice(WS_CHARS) + core[i:]


def variants(p):
    """what a normalising implementation would confuse p with: all different from p"""
    out = []
    for q in (p.strip(), p.lstrip(), p.rstrip(), p.rstrip("\r\n"), p.lower(), p.upper(), p.swapcase(), p.casefold(), " ".join(p.split()),
              p.replace("\x00", ""), p.strip("\x00"), p + "\n", " " + p, p + " ", p.replace("\r\n", "\n"), p.replace("\u00a0", " "),
              p.replace("\u3000", " "), p.expandtabs(), "".join(ch for ch in p if ch.isprintable())):
        if q != p and q not in out:
            out.append(q)
    return out


HI, LO = "\ud800", "\udfff"


def unencodable(p):
    """texts that differ from the str p only by characters str.encode() refuses (lone surrogates): a lenient error handler
    ("ignore") would hash them to the same bytes as p; all of them are different secrets and must FAIL"""
    m = len(p) // 2
    out = [p + HI, p + LO, HI + p, LO + p, p[:m] + HI + p[m:], p[:m] + LO + p[m:], HI + p + LO, p + LO + HI, p + "\udc80",
           p + "\udbff", "\udc00" + p]
    return out


def handler_pairs(p):
    """(stored secret, challenge text) pairs that a lenient error handler of the challenge would confuse:
    replace -> '?', surrogateescape -> the raw byte, surrogatepass -> the 3-byte form, ascii/latin-1 + ignore/replace"""
    b = p.encode()
    return [(p + "?", p + HI), (p + "?", p + LO), (p + "\ufffd", p + HI), (b + b"\x80", p + "\udc80"), (b + b"\xff", p + "\udcff"),
            (b + b"\xed\xa0\x80", p + HI), (b + b"\xed\xbf\xbf", p + LO), (p, p + "\u00e9"), (p + "?", p + "\u00e9"),
            (p, p + "\u20ac"), (p + "?", p + "\u20ac"), (b + b"\xe9", p + "\u00e9"),
            (b, p + "\x00"), (p + "\\ud800", p + HI), (p + "&#55296;", p + HI), (p + "\\N{EURO SIGN}", p + "\u20ac")]


_CARRIES = {}


def carries(how, text):
    """does a document of this format, written and parsed WITHOUT cincoconfig, give the text back unchanged?
    (XML cannot hold most control characters and normalises \\r; measured, not remembered)"""
    if how == "tree":
        return True
    key = (how, text)
    if key not in _CARRIES:
        try:
            doc = make_doc(how, text)
            if how == "json":
                back = json.loads(doc)["pw"]
            elif how == "yaml":
                import yaml
                back = yaml.load(doc.decode(), Loader=yaml.Loader)["pw"]
            elif how == "bson":
                import bson
                back = bson.loads(doc)["pw"]
            elif how == "pickle":
                back = pickle.loads(doc)["pw"]
            else:
                import xml.etree.ElementTree as ET
                back = ET.fromstring(doc).find("pw").text or ""
            _CARRIES[key] = (back == text)
        except Exception:  # noqa
            _CARRIES[key] = False
    return _CARRIES[key]


def route(how, text):
    """the load route to use for this text: the wanted format if it carries the text, else the tree"""
    return how if carries(how, text) else "tree"


KINDS = ["empty", "ascii", "unicode", "long", "bytes", "rawbytes"]
RKINDS = ["empty", "ascii", "unicode", "bytes", "rawbytes", "emptybytes", "ascii", "unicode", "bytes", "edge", "edge", "edge"]


def mutate(rng, p):
    """a secret different from p (as bytes) but close to it"""
    b = enc(p)
    if isinstance(p, str) and rng.random() < 0.35:
        vs = [q for q in variants(p) if enc(q) is not None]
        if vs:
            return rng.choice(vs)
    for _ in range(20):
        r = rng.randrange(7)
        if isinstance(p, str):
            if r == 0 and p:
                i = rng.randrange(len(p))
                q = p[:i] + rng.choice(LETTERS + UNI) + p[i + 1:]
            elif r == 1:
                q = p + rng.choice(LETTERS + " \x00")
            elif r == 2 and p:
                q = p[:-1]
            elif r == 3:
                q = p.swapcase()
            elif r == 4:
                q = rng.choice(LETTERS) + p
            elif r == 5 and p:
                q = p[1:] + p[0]
            else:
                q = p.encode() + b"\x00"
        else:
            if r == 0 and p:
                i = rng.randrange(len(p))
                q = p[:i] + bytes([p[i] ^ (1 << rng.randrange(8))]) + p[i + 1:]
            elif r == 1:
                q = p + bytes([rng.getrandbits(8)])
            elif r == 2 and p:
                q = p[:-1]
            elif r == 3:
                q = bytes([rng.getrandbits(8)]) + p
            elif r == 4 and p:
                q = p[1:] + p[:1]
            else:
                q = p.decode("latin-1")
        qb = enc(q)
        if qb is not None and qb != b:
            return q
    return (p + "x") if isinstance(p, str) else (p + b"x")


def mk_digest(alg, salt, p):
    return Digest(salt, hh(alg, salt + enc(p)), alg)


def _both(mats):
    out = []
    for m in mats:
        out.append(m)
        try:
            out.append(m.decode("ascii"))
        except UnicodeDecodeError:
            out.append(m.decode("latin-1"))      # the raw bytes typed as text
    return out


def derived(cur):
    """everything somebody who can read the stored value / the file knows: none of it is the secret, so a challenge with
    any of it (as bytes or as text) must fail.  cur = (salt, digest, alg) as the specification says it is stored.
    Returns (short, long) lists; short[0] is the digest bytes."""
    salt, dg, a = cur
    b64s, b64d_ = base64.b64encode(salt), base64.b64encode(dg)
    fn = getattr(hashlib, ALGS[a]) if a < 6 else None
    rep = "DigestValue(salt=%r, digest=%r, algorithm=%r)" % (salt, dg, fn)
    doc = {"salt": b64s.decode(), "digest": b64d_.decode()}
    short = _both([dg, salt, b64d_, b64s, dg.hex().encode(), dg[:len(dg) // 2], b64d_.rstrip(b"="), dg + b"\n",
                   hh(a, dg) if a < 6 else dg[::-1], dg[::-1]])
    long_ = _both([salt + dg, dg + salt, b64s + b":" + b64d_, b64s + b64d_, salt.hex().encode(), (salt + dg).hex().encode(),
                   dg.hex().upper().encode(), repr(dg).encode(), rep.encode(), json.dumps(doc).encode(), repr(doc).encode()])
    return short, long_


def add_derived(c, per_step=2, long_every=6):
    """second pass over a finished case: after every operation that stores a value (new / assign / load / saveload) add
    challenges with material derived from the value the specification says is now stored.  The digest bytes themselves
    are always among them; the others rotate (the long printed forms more rarely: literal size is time)."""
    trace = []
    rows_for(c, trace)
    ops, k = [], c["alg"] + len(c["ops"]) + len(c["stream"])
    for op, cur in zip(c["ops"], trace):
        ops.append(op)
        if op[0] in ("new", "assign", "load", "saveload") and cur is not None and len(cur[1]) > 0 and cur[2] < 6:
            short, long_ = derived(cur)
            picks = [short[0]]
            n_extra = per_step - 1 if per_step >= 2 else (1 if k % 3 == 0 else 0)     # per_step 1: an extra every third step
            for j in range(n_extra):
                kk = k * 7 + j * 11
                picks.append(long_[kk % len(long_)] if (k + j) % long_every == 0 else short[1 + kk % (len(short) - 1)])
            if k % 7 == 0:
                picks.append(Digest(cur[0], cur[1], cur[2]))          # the stored value object itself
            k += 1
            seen = []
            for q in picks:
                if isinstance(q, Digest):
                    ops.append(("challenge", q))
                elif q not in seen and hh(cur[2], cur[0] + enc(q)) != cur[1]:
                    seen.append(q)
                    ops.append(("challenge", q))
    c["ops"] = ops
    return c


def finish(c, rng=None):
    """give the case a stream holding exactly the bytes the specification draws (pairwise distinct blocks)"""
    n = draws_needed(c) + SLACK
    if rng is None:
        ds = SIZES[c["alg"]]
        c["stream"] = bytes(((7 * i + 13 * (i // ds) + 3 * c["alg"] + 1) % 251) for i in range(n))
    else:
        c["stream"] = rbytes(rng, n)
    return c


def matrix(tier="quick"):
    import random
    cases = []
    for a in range(6):
        for ki, kind in enumerate(KINDS):
            rng = random.Random(1000 * a + ki)
            p = plaintext(rng, kind)
            q = mutate(rng, p)
            ds = SIZES[a]
            dk = (a + ki) % 3
            if dk == 0:
                default = None
            elif dk == 1:
                default = plaintext(rng, "ascii")
            else:
                default = mk_digest(a, rbytes(rng, ds), "dflt" + rstr(rng, 6))
            ops = [("new",)]
            if default is not None:
                ops += [("challenge", default if isinstance(default, str) else p), ("basic",)]
            ops += [("assign", p), ("basic",), ("str",), ("challenge", p), ("challenge", q),
                    ("assign", p), ("challenge", p), ("challenge", q)]
            for fmt in FORMATS:
                ops += [("saveload", fmt), ("challenge", p), ("challenge", q)]
            doc_p = p if isinstance(p, str) else plaintext(rng, "ascii")
            for how in ["tree"] + FORMATS:
                ops += [("load", doc_p, route(how, doc_p)), ("challenge", doc_p)]
            ops += [("challenge", mutate(rng, doc_p)), ("saveload", FORMATS[(a + ki) % 5]), ("challenge", doc_p)]
            if default is not None:
                ops += [("new",), ("challenge", default if isinstance(default, str) else p), ("new",)]
            cases.append(finish({"alg": a, "req": bool((a + ki) % 2), "default": default, "ops": ops, "secrets": [p, doc_p]}))
    # shapes of _validate / to_python / create / parse, one small case each per algorithm
    for a in range(6):
        ds = SIZES[a]
        rng = random.Random(77 + a)
        salt = rbytes(rng, ds)
        dv = mk_digest(a, salt, "hunter2!")
        good = {"salt": base64.b64encode(dv.salt).decode(), "digest": base64.b64encode(dv.digest).decode()}
        bads = [{"digest": good["digest"]}, {"salt": good["salt"]}, {}, dict(good, salt="QQ="), dict(good, digest="Q"),
                dict(good, salt="é"), dict(good, salt=5), dict(good, digest=None), dict(good, salt=[1]),
                {"digest": good["digest"], "salt": good["salt"], "x": 1}, dict(good, salt=good["salt"] + "\n"),
                dict(good, salt="QUJD===="), dict(good, digest="QQ==QQ=="), dict(good, salt="")]
        ops = [("new",), ("assign", dv), ("challenge", "hunter2!"), ("challenge", "hunter2?"), ("challenge", b"hunter2!"),
               ("assign", (dv.salt, dv.digest)), ("assign", 5), ("assign", [dv.salt, dv.digest]), ("assign", 1.5),
               ("assign", True), ("assign", {"salt": "x"}), ("assign", None), ("challenge", "hunter2!"), ("str",), ("basic",)]
        ops += [("python", good), ("load", good, "tree"), ("challenge", "hunter2!")]
        ops += [("python", b) for b in bads] + [("load", b, "tree") for b in bads[:6]]
        short = base64.b64encode(dv.digest[:8]).decode()
        ops += [("load", dict(good, digest=""), "tree"), ("challenge", "hunter2!"), ("load", dict(good, digest=short), "json"),
                ("challenge", "hunter2!"), ("load", dict(good, salt=""), "tree"), ("challenge", "hunter2!"), ("challenge", ""),
                ("load", good, "tree")]
        ops += [("python", b"raw-bytes"), ("python", 5), ("python", None), ("python", [1]), ("python", "plain" + rstr(rng, 5))]
        ops += [("create", "abcdef", None), ("create", "abcdef", b""), ("create", "abcdef", salt[:-1]), ("create", b"abcdef", salt),
                ("create", "abcdef", salt + b"extra"), ("create", "\ud800", None), ("create", "\ud800", salt[:1])]
        ops += [("parse", str_of(dv)), ("parse", "nocolon"), ("parse", "QQ=:QQ=="), ("parse", "QQ==:Q"), ("parse", "QQ==:QQ==:QQ=="),
                ("parse", ":"), ("parse", ""), ("parse", "é:QQ==")]
        ops += [("assign", "\ud800x"), ("load", "\udfffx", "tree"), ("challenge", "\ud800")]
        cases.append(finish({"alg": a, "req": False, "default": None, "ops": ops, "secrets": []}))
        # hand-written plaintexts that look like the printed salt:digest form: they are plaintexts and must be hashed on load
        ops = [("new",)]
        colons = ["root:toor", "user:pass", ":", "QUJD:REVG", str_of(dv), "a:b:c"]
        # not in Unicode normal form C: the secret is its code points as given; the canonically equivalent string is ANOTHER secret
        nonnfc = ["cafe\u0301-secret", "\u212bngstrom-pw", "\u1100\u1161\u11a8-hangul", "zo\u0308e-passw"]
        import unicodedata
        ops2 = [("new",)]
        for ci, cp in enumerate(nonnfc):
            how = (["tree"] + FORMATS)[(a + ci) % 6]
            ops2 += [("assign", cp), ("challenge", cp), ("challenge", unicodedata.normalize("NFC", cp)), ("challenge", cp.encode()),
                     ("basic",), ("saveload", FORMATS[(a + ci) % 5]), ("challenge", cp), ("challenge", unicodedata.normalize("NFC", cp)),
                     ("load", cp, route(how, cp)), ("challenge", cp), ("challenge", unicodedata.normalize("NFC", cp))]
        cases.append(finish({"alg": a, "req": False, "default": nonnfc[a % len(nonnfc)], "ops": ops2, "secrets": list(nonnfc)}))
        for ci, cp in enumerate(colons):
            how = (["tree"] + FORMATS)[(a + ci) % 6]
            ops += [("load", cp, route(how, cp)), ("challenge", cp), ("challenge", cp + "x"), ("python", cp), ("assign", cp), ("challenge", cp)]
        cases.append(finish({"alg": a, "req": False, "default": colons[a % len(colons)], "ops": ops, "secrets": []}))
        for bad_default in (b"bytes-default", 5, ("a", "b"), ["x"]):
            cases.append(finish({"alg": a, "req": False, "default": bad_default, "ops": [("new",)], "secrets": []}))
        cases.append(finish({"alg": a, "req": True, "default": None,
                             "ops": [("new",), ("assign", None), ("load", None, "tree"), ("saveload", "json"), ("assign", "secret1"),
                                     ("assign", None), ("challenge", "secret1"), ("load", None, "json"), ("challenge", "secret1")],
                             "secrets": ["secret1"]}))
    # whitespace / control characters / case at the edges and inside: every text on every route (assign, default,
    # to_python, load by tree and by every format that carries the text unchanged); the exact text verifies, the stripped /
    # re-cased / re-spaced variants do not
    for ei, text in enumerate(EDGE):
        a = ei % 6
        vs = variants(text)
        ops = [("new",), ("challenge", text)] + [("challenge", q) for q in vs[:2]]
        ops += [("assign", text), ("challenge", text)] + [("challenge", q) for q in (vs if tier != "quick" else vs[:4])]
        ops += [("python", text), ("create", text, None)]
        for how in ["tree"] + FORMATS:
            if carries(how, text):
                k0 = (["tree"] + FORMATS).index(how)
                ops += [("load", text, how), ("challenge", text)] + [("challenge", q) for q in (vs[k0:] + vs[:k0])[:(1 if tier == "quick" else 3)]]
        ops += [("saveload", FORMATS[ei % 5]), ("challenge", text)] + [("challenge", q) for q in vs[:2]]
        ops += [("assign", text.encode()), ("challenge", text), ("challenge", text.strip())]
        cases.append(finish({"alg": a, "req": bool(ei % 2), "default": text, "ops": ops, "secrets": [text]}))
        # and the other algorithms on the load route alone
        for a2 in range(6):
            if a2 == a or (tier == "quick" and (a2 - a) % 6 not in (1, 4)):
                continue
            how = route((["tree"] + FORMATS)[(ei + a2) % 6], text)
            ops = [("new",), ("load", text, how), ("challenge", text)] + [("challenge", q) for q in vs[:3]]
            cases.append(finish({"alg": a2, "req": False, "default": None, "ops": ops, "secrets": [text]}))
    # characters the encoder refuses: p plus lone surrogates (start, middle, end; high and low) is a different secret and
    # must fail as a ValueError on every route the value was stored by; and the pairs a lenient error handler would confuse
    for a in range(6):
        rng = random.Random(4242 + a)
        ps = ["pw", plaintext(rng, "ascii"), plaintext(rng, "unicode"), EDGE[(3 * a) % len(EDGE)], ""]
        ops = [("new",)] + [("challenge", q) for q in unencodable("dflt-" + ALGS[a])[:4]]
        for pi, p in enumerate(ps):
            how = route((["tree"] + FORMATS)[(a + pi) % 6], p)
            ops += [("assign", p) if pi % 2 == 0 else ("load", p, how), ("challenge", p)]
            ops += [("challenge", q) for q in unencodable(p)]
            ops += [("assign", p.encode()), ("challenge", p)] + [("challenge", q) for q in unencodable(p)[pi::3]]
        ops += [("saveload", FORMATS[a % 5])] + [("challenge", q) for q in unencodable(ps[-1])[:3]]
        cases.append(finish({"alg": a, "req": False, "default": "dflt-" + ALGS[a], "ops": ops, "secrets": ps}))
        ops = [("new",)]
        for stored_p, q in handler_pairs(plaintext(rng, "ascii")):
            ops += [("assign", stored_p), ("challenge", q)]
        cases.append(finish({"alg": a, "req": False, "default": None, "ops": ops, "secrets": []}))
    # very long secrets that differ only far from the start (beyond any block / buffer size one might hash up to)
    for a in range(6):
        for n, asbytes in ((4096, bool(a % 2)), (65, not a % 2)):
            head = ("pw-%d-" % a) + "Ab3$" * ((n - 5) // 4 + 1)
            head = head[:n]
            pp, qq, short = head + "x", head + "y", head
            if asbytes:
                pp, qq, short = pp.encode(), qq.encode(), short.encode()
            ops = [("new",), ("assign", pp), ("challenge", pp), ("challenge", qq), ("challenge", short),
                   ("saveload", FORMATS[a % 5]), ("challenge", qq)]
            if not asbytes and n < 100:
                ops += [("load", qq, "tree"), ("challenge", pp), ("challenge", qq)]
            cases.append(finish({"alg": a, "req": False, "default": None, "ops": ops, "secrets": [pp, qq]}))
    return [add_derived(pc, 1, 12) if tier == "quick" else add_derived(pc, 3, 2) for c in cases for pc in split_case(c)]


def split_case(c, limit=10):
    """cut a long history into several cases.  Every piece starts with a fresh configuration and is cut only in front of
    an operation that sets the stored value anew (assign / load / new), so each piece is a history in its own right;
    the pieces together hold the same operations.  (Many small cases spread over the case shards, which are evaluated in
    parallel; one shard of long histories is what made the quick tier slow.)"""
    ops = c["ops"]
    if len(ops) <= limit + 4:
        return [c]
    segs, cur = [], []
    for op in ops:
        if op[0] in ("assign", "load", "new") and cur and not (len(cur) == 1 and cur[0][0] == "new"):
            segs.append(cur)
            cur = []
        cur.append(op)
    segs.append(cur)
    pieces, cur = [], []
    for sg in segs:
        if cur and len(cur) + len(sg) > limit:
            pieces.append(cur)
            cur = []
        cur = cur + sg
    pieces.append(cur)
    out = []
    for pc in pieces:
        if pc[0][0] != "new":
            pc = [("new",)] + pc
        out.append(finish({"alg": c["alg"], "req": c["req"], "default": c["default"], "ops": pc, "secrets": list(c["secrets"])}))
    return out


def str_of(dv):
    return (base64.b64encode(dv.salt) + b":" + base64.b64encode(dv.digest)).decode()


def random_case(rng):
    a = rng.randrange(6)
    ds = SIZES[a]
    req = rng.random() < 0.25
    secrets = []

    def fresh():
        p = plaintext(rng, rng.choice(RKINDS) if rng.random() < 0.97 else "long")
        secrets.append(p)
        return p

    def some_digest():
        aa = a if rng.random() < 0.85 else rng.randrange(6)
        p = fresh()
        return mk_digest(aa, rbytes(rng, SIZES[aa]), p)

    r = rng.random()
    if r < 0.4:
        default = None
    elif r < 0.7:
        default = plaintext(rng, rng.choice(["ascii", "unicode", "empty", "edge"]))
        secrets.append(default)
    elif r < 0.95:
        default = some_digest()
    else:
        default = rng.choice([b"bytes", 7, ("s", "d"), 1.5, True])
        return finish({"alg": a, "req": req, "default": default, "ops": [("new",)], "secrets": []}, rng)

    def good_doc():
        dv = some_digest()
        dv = Digest(dv.salt, dv.digest, a)
        return {"salt": base64.b64encode(dv.salt).decode(), "digest": base64.b64encode(dv.digest).decode()}

    def bad_doc():
        g = good_doc()
        k = rng.randrange(12)
        if k == 0:
            del g["salt"]
        elif k == 1:
            del g["digest"]
        elif k == 2:
            g[rng.choice(["salt", "digest"])] = rng.choice(["QQ=", "Q", "QUJ", "A" * 5, "=Q"])
        elif k == 3:
            g[rng.choice(["salt", "digest"])] = rng.choice([5, None, [1], 1.5, True, {}])
        elif k == 4:
            g[rng.choice(["salt", "digest"])] = "é" + g["salt"]
        elif k == 5:     # lenient but accepted: characters outside the alphabet are skipped
            kk = rng.choice(["salt", "digest"])
            i = rng.randrange(len(g[kk]) + 1)
            g[kk] = g[kk][:i] + rng.choice(["\n", " ", ":", "-", "_", "\t"]) + g[kk][i:]
        elif k == 6:     # data after a complete pad sequence is ignored
            kk = rng.choice(["salt", "digest"])
            g[kk] = g[kk] + rng.choice(["QQ==", "=", "A", "===="])
        elif k == 7:
            g = {"digest": g["digest"], "salt": g["salt"], "extra": rng.choice([1, "x", None])}
        elif k == 8:
            kk = rng.choice(["salt", "digest"])
            g[kk] = g[kk].rstrip("=")            # padding removed
        elif k == 9:
            g[rng.choice(["salt", "digest"])] = ""
        elif k == 10:
            g = {"Salt": g["salt"], "digest": g["digest"]}
        else:
            kk = rng.choice(["salt", "digest"])
            i = rng.randrange(len(g[kk]))
            g[kk] = g[kk][:i] + "=" + g[kk][i:]
        return g

    ops = [("new",)]
    last = [default if isinstance(default, str) else None]
    for _ in range(rng.randint(3, 9)):
        k = rng.random()
        if k < 0.22:
            kk = rng.random()
            if kk < 0.7:
                p = fresh()
                last[0] = p
                ops.append(("assign", p))
                if rng.random() < 0.4:
                    ops.append(("assign", p))       # same secret again: a fresh salt is due
            elif kk < 0.8:
                ops.append(("assign", some_digest()))
                last[0] = secrets[-1]
            elif kk < 0.85:
                ops.append(("assign", None))
            else:
                dv = some_digest()
                ops.append(("assign", rng.choice([(dv.salt, dv.digest), [dv.salt, dv.digest], 5, 1.5, False,
                                                  {"salt": "QQ==", "digest": "QQ=="}, (dv.salt, dv.digest, 3)])))
        elif k < 0.47:
            p = last[0] if last[0] is not None and rng.random() < 0.8 else plaintext(rng, rng.choice(RKINDS))
            kk = rng.random()
            if kk < 0.4:
                ops.append(("challenge", p))
            elif kk < 0.8:
                ops.append(("challenge", mutate(rng, p)))
            elif kk < 0.88:     # the same bytes in the other type verify as well
                if isinstance(p, str):
                    ops.append(("challenge", p.encode()))
                else:
                    try:
                        ops.append(("challenge", p.decode()))
                    except UnicodeDecodeError:
                        ops.append(("challenge", p))
            else:
                ops.append(("challenge", rng.choice(unencodable(p if isinstance(p, str) else p.decode("latin-1")))))
        elif k < 0.57:
            ops.append(("saveload", rng.choice(FORMATS)))
            ops.append(("challenge", last[0] if last[0] is not None else "nothing-stored"))
        elif k < 0.67:
            p = plaintext(rng, rng.choice(["ascii", "unicode", "empty", "edge", "edge", "long" if rng.random() < 0.05 else "ascii"]))
            secrets.append(p)
            last[0] = p
            ops.append(("load", p, route(rng.choice(["tree"] + FORMATS), p)))
            ops.append(("challenge", p))
            if rng.random() < 0.6:
                vs = [q for q in variants(p) if enc(q) is not None]
                if vs:
                    ops.append(("challenge", rng.choice(vs)))
        elif k < 0.75:
            kk = rng.random()
            if kk < 0.4:
                ops.append(("load", good_doc(), rng.choice(["tree", "json", "yaml", "pickle"])))
                last[0] = secrets[-1]
            elif kk < 0.9:
                ops.append(("load", bad_doc(), rng.choice(["tree", "tree", "json", "pickle"])))
            else:
                ops.append(("load", rng.choice([None, 5, b"bytes-in-tree", [1, 2], "\ud83dx"]), "tree"))
        elif k < 0.83:
            kk = rng.random()
            if kk < 0.3:
                ops.append(("python", good_doc()))
            elif kk < 0.8:
                ops.append(("python", bad_doc()))
            else:
                ops.append(("python", rng.choice([None, 5, b"bytes", [1], rstr(rng, 7), 1.5, ("a", "b")])))
        elif k < 0.88:
            ops.append((rng.choice(["basic", "str", "new"]),))
            if ops[-1][0] == "new":
                last[0] = default if isinstance(default, str) else None
        elif k < 0.94:
            salt = rng.choice([None, b"", rbytes(rng, ds), rbytes(rng, ds - 1), rbytes(rng, ds + rng.randint(1, 8)), rbytes(rng, 1)])
            ops.append(("create", plaintext(rng, rng.choice(KINDS[:3] + ["bytes", "rawbytes"])) if rng.random() < 0.9 else "\ud800", salt))
        else:
            dv = some_digest()
            s = str_of(dv)
            kk = rng.randrange(6)
            if kk == 1:
                s = s.replace(":", "")
            elif kk == 2:
                s = s + ":" + s
            elif kk == 3:
                s = s[:rng.randrange(len(s))]
            elif kk == 4:
                s = s.replace("=", "")
            elif kk == 5:
                s = "\n" + s.replace(":", " : ")
            ops.append(("parse", s))
    return finish({"alg": a, "req": req, "default": default, "ops": ops, "secrets": secrets}, rng)


def generate(rng, tier):
    _facts()
    cases = matrix(tier)
    n = 260 if tier == "quick" else 6000
    for _ in range(n):
        c = random_case(rng)
        cases.append(add_derived(c, rng.choice([1, 2]), 4) if rng.random() < 0.6 else c)
    return cases


# ---------------------------------------------------------------------------------------------
# Gallina literal
# ---------------------------------------------------------------------------------------------
def gop(op):
    k = op[0]
    if k == "new":
        return "CNew"
    if k == "assign":
        return "CAssign %s" % gal(op[1])
    if k == "challenge":
        return "CChallenge %s" % gal(op[1])
    if k == "basic":
        return "CBasic"
    if k == "python":
        return "CPython %s" % gal(op[1])
    if k == "load":
        return "CLoad %s" % gal(op[1])
    if k == "saveload":
        return "CSaveLoad"
    if k == "str":
        return "CStr"
    if k == "parse":
        return "CParse %s" % gal(op[1])[len("(PStr "):-1]
    if k == "create":
        return "CCreate %s %s" % (gal(op[1]), g_opt(op[2], g_bytes))
    raise Broken("gop %r" % (op,))


_TEXT = set(range(32, 127)) - {ord('"')}


def g_input(data, split):
    """the hashed bytes salt ++ secret, printed as two literals: the same salt / the same printable secret occurs in
    several rows and operations of a case and is then shared by the case file (literal size is what costs time)"""
    if split is None or split >= len(data) or len(data) - split < 8:
        return g_bytes(data)
    salt, body = data[:split], data[split:]
    if all(b in _TEXT for b in body):
        return '(%s ++ (sa "%s"))%%list' % (g_bytes(salt), body.decode("ascii"))
    return "(%s ++ %s)%%list" % (g_bytes(salt), g_bytes(body))


def gcase(c):
    rows, _ = rows_for(c)
    t = g_list(rows, lambda r: "(%s,%s,%s)" % (g_n(r[0]), g_input(r[1], r[3]), g_bytes(r[2])))
    return "(%s, %s, %s, %s, %s, %s)" % (g_n(c["alg"]), g_bool(c["req"]), gal(c["default"]), t, g_bytes(c["stream"]),
                                        g_list([gop(o) for o in c["ops"]]))


# ---------------------------------------------------------------------------------------------
# implementation
# ---------------------------------------------------------------------------------------------
def _algidx(fn):
    for i, name in enumerate(ALGS):
        if fn is getattr(hashlib, name):
            return i
    return 99


def _errkind(e):
    from cincoconfig.core import ValidationError
    if isinstance(e, ValidationError):
        return ("validation", e.ref_path)
    if isinstance(e, UnicodeError):
        return "unicode"
    if isinstance(e, TypeError):
        return "type"
    if isinstance(e, AttributeError):
        return "attribute"
    if isinstance(e, KeyError):
        return "key"
    if isinstance(e, IndexError):
        return "index"
    if isinstance(e, ValueError):
        return "value"
    if isinstance(e, OSError):
        return "os"
    return "other"


def make_doc(how, v):
    """a document written WITHOUT cincoconfig that holds {"pw": v}"""
    if how == "json":
        return json.dumps({"pw": v}).encode()
    if how == "yaml":
        import yaml
        return yaml.safe_dump({"pw": v}, allow_unicode=True).encode()
    if how == "bson":
        import bson
        return bson.dumps({"pw": v})
    if how == "pickle":
        return pickle.dumps({"pw": v})
    if how == "xml":
        if v is None:
            return b'<config><pw type="none" /></config>'
        if isinstance(v, str):
            return ('<config><pw type="str">%s</pw></config>' % _xml_escape(v)).encode()
        if isinstance(v, dict) and all(isinstance(x, str) for x in v.values()):
            inner = "".join('<%s type="str">%s</%s>' % (k, _xml_escape(x), k) for k, x in v.items())
            return ('<config><pw type="dict">%s</pw></config>' % inner).encode()
    raise Broken("make_doc %s %r" % (how, v))


def impl(c):
    from unittest import mock
    from cincoconfig import Schema, ChallengeField
    from cincoconfig.fields import DigestValue

    def conv(v):
        if isinstance(v, Digest):
            return DigestValue(v.salt, v.digest, getattr(hashlib, ALGS[v.alg]))
        return v

    def show(v):
        if isinstance(v, DigestValue):
            return Digest(bytes(v.salt), bytes(v.digest), _algidx(v.algorithm))
        if isinstance(v, (bytes, bytearray)):
            return bytes(v)
        return v

    stream = c["stream"]
    pos = [0]
    calls = []

    def fake(n):
        b = stream[pos[0]:pos[0] + n]
        if len(b) < n:
            c["_overdraw"] = True
            b = b + bytes(n - len(b))
        pos[0] += n
        calls.append((n, b))
        return b

    obs = []
    log = []       # per op: dict for the oracle
    c["_log"] = log
    c["_overdraw"] = False
    try:
        schema = Schema()
        field = ChallengeField(ALGS[c["alg"]], required=c["req"], default=conv(c["default"]))
        schema.pw = field
    except Exception as e:  # noqa
        return ("err", "setup", _errkind(e))
    cfg = None
    with mock.patch("os.urandom", fake):
        for op in c["ops"]:
            k = op[0]
            ncalls = len(calls)
            entry = {}
            try:
                if k == "new":
                    cfg = schema()
                    r = show(cfg.pw)
                elif k == "assign":
                    cfg.pw = conv(op[1])
                    r = show(cfg.pw)
                elif k == "challenge":
                    r = cfg.pw.challenge(conv(op[1]))
                elif k == "basic":
                    r = field.to_basic(cfg, cfg.pw)
                elif k == "python":
                    r = show(field.to_python(cfg, op[1]))
                elif k == "load":
                    if op[2] == "tree":
                        cfg.load_tree({"pw": op[1]})
                    else:
                        cfg.loads(make_doc(op[2], op[1]), format=op[2])
                    r = show(cfg.pw)
                elif k == "saveload":
                    entry["before"] = show(cfg.pw)
                    out = cfg.dumps(format=op[1])
                    entry["out"] = out
                    cfg2 = schema()
                    cfg = cfg2
                    cfg2.loads(out, format=op[1])
                    r = show(cfg.pw)
                elif k == "str":
                    r = str(cfg.pw)
                elif k == "parse":
                    r = show(DigestValue.parse(op[1], field.algorithm))
                elif k == "create":
                    r = show(field._hash(op[1], op[2]))
                else:
                    raise Broken("op %r" % (op,))
                o = ("ok", r)
            except Broken:
                raise
            except Exception as e:  # noqa
                o = ("err", _errkind(e))
            obs.append(o)
            entry["calls"] = calls[ncalls:]
            # what the in-memory objects show (searched for plaintexts by the oracle)
            try:
                val = cfg._data.get("pw") if cfg is not None else None
                mem = [repr(val), str(val), repr(cfg._data) if cfg is not None else "", repr({kk: vv for kk, vv in vars(field).items() if kk not in ("default", "_default")})]
                if isinstance(val, DigestValue):
                    entry["shape"] = (len(val), sorted(vars(val).keys()) if hasattr(val, "__dict__") else [])
                    entry["stored"] = show(val)
                else:
                    entry["stored"] = val
                entry["mem"] = "\n".join(mem)
            except Exception as e:  # noqa
                entry["mem"] = ""
                entry["stored"] = None
            log.append(entry)
    return obs


# ---------------------------------------------------------------------------------------------
# direct oracle (model independent)
# ---------------------------------------------------------------------------------------------
def forms(p):
    """byte patterns under which a plaintext could show up in a serialised output"""
    b = enc(p)
    out = set()
    if b is None or len(b) < 6:
        return out
    out.add(b)
    out.add(base64.b64encode(b).rstrip(b"="))
    out.add(b.hex().encode())
    if isinstance(p, str):
        out.add(json.dumps(p)[1:-1].encode())
        out.add(p.encode("unicode_escape"))
        out.add(_xml_escape(p).encode())
        out.add(p.encode("utf-16-le"))
    return out


def oracle(c, obs):
    bad = []
    if not isinstance(obs, list):
        return ["the schema could not be built: %r" % (obs,)]
    a, ds = c["alg"], SIZES[c["alg"]]
    log = c.get("_log", [])
    if c.get("_overdraw"):
        bad.append("more random bytes were drawn than one digest-size salt per hashing")
    fresh_salts = []
    known = []          # plaintexts that have been given to the field so far
    stored = None       # the stored value as last observed
    for i, (op, o) in enumerate(zip(c["ops"], obs)):
        k = op[0]
        e = log[i] if i < len(log) else {}
        calls = e.get("calls", [])
        ok = o[0] == "ok"
        hashes = None     # plaintext this op is supposed to hash with a fresh salt
        if k == "assign" and is_secret(op[1]) and enc(op[1]) is not None:
            hashes = op[1]
        elif k == "new" and isinstance(c["default"], str):
            hashes = c["default"]
        elif k == "load" and isinstance(op[1], str) and enc(op[1]) is not None:
            hashes = op[1]
        if hashes is not None:
            known.append(hashes)
            if not ok or not isinstance(o[1], Digest):
                bad.append("op %d %s: a plaintext secret was not stored as a digest value: %r" % (i, k, o))
            else:
                dv = o[1]
                if len(dv.salt) != ds:
                    bad.append("op %d %s: salt has %d bytes, digest size is %d" % (i, k, len(dv.salt), ds))
                if dv.digest != hh(a, dv.salt + enc(hashes)):
                    bad.append("op %d %s: digest is not %s(salt + plaintext) recomputed with hashlib" % (i, k, ALGS[a]))
                if dv.alg != a:
                    bad.append("op %d %s: digest value carries algorithm %r, field uses %s" % (i, k, dv.alg, ALGS[a]))
                if len(calls) != 1 or calls[0][0] != ds or calls[0][1] != dv.salt:
                    bad.append("op %d %s: salt is not one fresh os.urandom(digest_size) draw (calls %r)" % (i, k, [n for n, _ in calls]))
                fresh_salts.append(dv.salt)
        elif (k in ("assign", "new", "load", "challenge", "basic", "str", "parse") and calls
              and not (k in ("assign", "load") and is_secret(op[1]))):
            bad.append("op %d %s: unexpected os.urandom call" % (i, k))
        if k == "saveload":
            before = e.get("before")
            if isinstance(c["default"], str):
                known.append(c["default"])
                if "out" in e and [n for n, _ in calls] != [ds]:
                    bad.append("op %d saveload %s: the fresh configuration's plaintext default was not hashed with one "
                               "fresh os.urandom(digest_size) salt (calls %r)" % (i, op[1], [n for n, _ in calls]))
            elif calls:
                bad.append("op %d saveload %s: unexpected os.urandom call" % (i, op[1]))
            if isinstance(before, Digest):
                if not ok or not isinstance(o[1], Digest):
                    bad.append("op %d saveload %s: a stored digest value did not load back: %r" % (i, op[1], o))
                elif (o[1].salt, o[1].digest) != (before.salt, before.digest):
                    bad.append("op %d saveload %s: salt/digest changed across save and load" % (i, op[1]))
                elif before.alg == a and o[1].alg != a:
                    bad.append("op %d saveload %s: algorithm changed across save and load" % (i, op[1]))
            out = e.get("out")
            if out is not None:
                for p in known + c.get("secrets", []):
                    for f in forms(p):
                        if f in out:
                            bad.append("op %d saveload %s: the plaintext %r appears in the serialised output" % (i, op[1], p))
                            break
        if k == "challenge" and isinstance(stored, Digest) and is_secret(op[1]) and enc(op[1]) is not None and stored.alg < 6:
            expect = hh(stored.alg, stored.salt + enc(op[1])) == stored.digest
            if expect and not ok:
                bad.append("op %d: challenge with the right secret failed: %r" % (i, o))
            if not expect and o != ("err", "value"):
                what = "a wrong secret"
                sh, lg = derived((stored.salt, stored.digest, stored.alg))
                if enc(op[1]) == stored.digest:
                    what = "the stored DIGEST bytes (readable in the saved file) as the secret"
                elif op[1] in sh or op[1] in lg:
                    what = "material derived from the stored salt/digest (%r...) as the secret" % (op[1][:24],)
                bad.append("op %d: challenge with %s did not raise ValueError: %r" % (i, what, o))
        if k == "challenge" and isinstance(stored, Digest) and not is_secret(op[1]) and ok:
            bad.append("op %d: challenge with a %s (not a str/bytes secret) was accepted" % (i, type(op[1]).__name__))
        if k == "challenge" and isinstance(stored, Digest) and isinstance(op[1], str) and enc(op[1]) is None:
            # no stored secret can contain a character str.encode() refuses (hashing it raises), so this q differs from
            # the secret: the challenge must fail, and fail as a ValueError (UnicodeEncodeError is one; measured below)
            if o not in (("err", "unicode"), ("err", "value")):
                bad.append("op %d: challenge with %r, which differs from the stored secret by characters that cannot be "
                           "encoded, did not fail with a ValueError: %r" % (i, op[1], o))
        if k == "create" and is_secret(op[1]) and enc(op[1]) is not None:
            given = op[2]
            if given and len(given) < ds:
                if ok:
                    bad.append("op %d: a given salt shorter than the digest size was accepted" % i)
            elif not ok or not isinstance(o[1], Digest):
                bad.append("op %d: hashing a secret with %s salt failed: %r" % (i, "a given" if given else "a fresh", o))
            else:
                dv = o[1]
                if given and (dv.salt != given[:ds] or calls):
                    bad.append("op %d: the given salt was not used (truncated to the digest size) or random bytes were drawn" % i)
                if not given and (len(calls) != 1 or calls[0] != (ds, dv.salt)):
                    bad.append("op %d: no fresh os.urandom(digest_size) salt" % i)
                if dv.digest != hh(a, dv.salt + enc(op[1])) or dv.alg != a:
                    bad.append("op %d: digest is not %s(salt + plaintext) recomputed with hashlib" % (i, ALGS[a]))
        if k == "basic" and isinstance(stored, Digest):
            want = {"salt": base64.b64encode(stored.salt).decode(), "digest": base64.b64encode(stored.digest).decode()}
            if o != ("ok", want):
                bad.append("op %d: to_basic is not {salt, digest} in base64" % i)
        if k == "str" and isinstance(stored, Digest):
            if o != ("ok", str_of(stored)):
                bad.append("op %d: str(value) is not b64(salt):b64(digest)" % i)
        if k in ("python", "load") and isinstance(op[1], dict):
            v = op[1]
            well = (isinstance(v.get("salt"), str) and isinstance(v.get("digest"), str)
                    and b64d(v["salt"]) is not None and b64d(v["digest"]) is not None)
            if well:
                if not ok or not isinstance(o[1], Digest) or (o[1].salt, o[1].digest, o[1].alg) != (b64d(v["salt"]), b64d(v["digest"]), a):
                    bad.append("op %d %s: a well-formed salt/digest map did not load as that digest value: %r" % (i, k, o))
            elif ok:
                bad.append("op %d %s: a malformed salt/digest map was accepted: %r" % (i, k, v))
        # the in-memory objects never show a plaintext
        mem = e.get("mem", "")
        if mem:
            mb = mem.encode("utf-8", "backslashreplace")
            for p in known:
                b = enc(p)
                if b is None or len(b) < 6:
                    continue
                pats = {repr(p)[1:-1].encode("utf-8", "backslashreplace"), repr(b)[2:-1].encode()}
                if isinstance(p, str):
                    pats.add(p.encode())
                if any(x and x in mb for x in pats):
                    bad.append("op %d %s: the plaintext %r is visible in the in-memory value / config / field" % (i, k, p))
                    break
        if "shape" in e and e["shape"] != (3, []):
            bad.append("op %d %s: the stored value is not a bare (salt, digest, algorithm) triple: %r" % (i, k, e["shape"]))
        if "stored" in e:
            stored = e["stored"]
    if len(set(fresh_salts)) != len(fresh_salts):
        bad.append("two hashings in this case used the same salt")
    return bad


def tags(c, obs):
    t = {"alg:" + ALGS[c["alg"]], "default:" + type(c["default"]).__name__}
    if not isinstance(obs, list):
        return t | {"setup-failed"}
    for op, o in zip(c["ops"], obs):
        k = op[0]
        res = "ok" if o[0] == "ok" else "err"
        if k == "assign":
            t.add("assign:%s:%s" % (type(op[1]).__name__, res))
        elif k == "challenge":
            t.add("challenge:%s:%s" % (type(op[1]).__name__, res))
        elif k == "load":
            t.add("load:%s:%s:%s" % (op[2], type(op[1]).__name__, res))
        elif k == "saveload":
            t.add("saveload:%s:%s" % (op[1], res))
        elif k == "python":
            t.add("python:%s:%s" % (type(op[1]).__name__, res))
        elif k == "create":
            t.add("create:salt=%s:%s" % ("none" if op[2] is None else len(op[2]) - SIZES[c["alg"]], res))
        else:
            t.add("%s:%s" % (k, res))
    return t


def nontrivial(c, obs):
    return isinstance(obs, list) and any(isinstance(o[1], Digest) for o in obs if o[0] == "ok")
