"""
stream `secrets` (C03): real Schema / Config objects with SecureFields at the root, in nested
sub-configurations (depth <= 4), in config types (make_type with a class-level key file) and in items of
ListField(schema | config type); histories of key-file assignments at any node, secret assignments, list
assignments and intermediate dumps; then a final dump in one of the five formats and a load into a NEW
configuration object (fresh schema call) given a root key file.  Compared with Secrets.v (`run_secrets`).
Configurations may also hold secrets inside containers, ListField(SecureField) and DictField(StringField,
SecureField); the model sees such a container as K extra secrets of the same configuration (see `node`), the
direct oracle checks the real document (each item a {method, ciphertext} map, no plaintext in the bytes).
Two configurations A and B of one schema with different root key files may live in one case: Config OBJECTS
are moved from A into B by every assignment route (attribute / item / dotted assignment of a sub-configuration;
list assignment, slice assignment, item assignment, append / insert / extend / += with plain lists and with
A's ListProxy itself, copy(), +); the observation is of B (model: Secrets.v `sop2` / `run_secrets2`, the moved
sub-tree keeps its own key file, what it inherits changes).  Key-file NAMES may contain `~` (ids 6, 7; HOME is
private to the check process): the file must be read and created at the expanded location only, and an existing
key file is compared byte for byte before and after dump and load.
Every case also takes the CONSTRUCTOR route for the saved tree: schema(key_filename=K, **tree) and
schema(**tree, key_filename=K) (the root's own secrets as plaintext -- a SecureField keyword is an assignment --,
sub-configuration maps and lists of maps as saved), and Type(**tree) for config types with a class-level key file:
same plaintexts, only key files the new configuration names are touched (no ~/.cincokey), keyword order irrelevant.

Observed (never ciphertext bytes: os.urandom stays real, the byte layer is C08's):
  * the key file in force at every secret field (KeyFile object actually used: cfg._keyfile.filename);
  * the key files read / created by the final dump (sys audit hook, 'open' events);
  * whether the state lies in the region of the open finding F34 (computed from the real objects);
  * the to_tree document with ciphertexts blanked (concrete method name per non-empty secret, null otherwise);
  * the new-session load: "same" plaintexts everywhere + key files read / created, or "broken".
"""
import base64
import os
import shutil
import sys
import tempfile

from common import g_str, g_bool, g_list, g_opt, Broken

NAME = "secrets"
IMPORTS = "From Cinco Require Import Base Secrets."
RUN = "run_secrets2"
CASE_TYPE = "scase2"

FORMATS = ["json", "yaml", "xml", "bson", "pickle"]
METHODS = ["xor", "aes", "best"]
GM = {"xor": "SXor", "aes": "SAes", "best": "SBest"}

# ---------------------------------------------------------------------------------------------
# audit hook: installed once per process, records opens below the active case directory / of the
# default key path
# ---------------------------------------------------------------------------------------------
_AUDIT = {"installed": False, "dir": None, "default": None, "extra": (), "events": []}
TILDE = {6: "~/verif_k6", 7: "~/verif_k7"}      # key-file NAMES with ~ (HOME is private to the check process)


def _hook(ev, args):
    if ev != "open" or _AUDIT["dir"] is None:
        return
    p = args[0]
    if isinstance(p, bytes):
        try:
            p = p.decode()
        except Exception:  # noqa
            return
    if not isinstance(p, str):
        return
    if p == _AUDIT["default"] or p.startswith(_AUDIT["dir"] + os.sep) or p in _AUDIT["extra"] or p.startswith("~"):
        mode = args[1] if len(args) > 1 else None
        flags = args[2] if len(args) > 2 and isinstance(args[2], int) else 0
        writing = (isinstance(mode, str) and any(c in mode for c in "wax+")) or bool(flags & (os.O_WRONLY | os.O_RDWR | os.O_CREAT))
        _AUDIT["events"].append((p, "w" if writing else "r"))


def _install():
    if not _AUDIT["installed"]:
        sys.addaudithook(_hook)
        _AUDIT["installed"] = True


# ---------------------------------------------------------------------------------------------
# schema descriptions:  node = {"ct": None | key id, "secs": [(name, method)], "ch": [(name, kind, node)]}
# kind: "sub" (sub-schema, or config-type field when node["ct"] is not None or node.get("type")) | "list"
# a node with "type": True is wrapped by make_type (class-level key file node["ct"], possibly None)
# ---------------------------------------------------------------------------------------------
K = 3                      # capacity of a ListField(SecureField) in the generated histories
DKEYS = ["a", "b", "c"]    # keys used in a DictField(StringField, SecureField)


def node(secs, ch=(), ct=None, typ=False, cont=()):
    """cont: [(name, "slist" | "sdict", method)] -- ListField(SecureField(method)) / DictField(StringField(),
    SecureField(method)) of this configuration.  For the model such a container IS K extra secrets of the same
    configuration, named name[0..K-1] / name[a|b|c] (same key file, same method, one key-file context per
    non-empty item); the harness flattens the rendered list / map accordingly before the comparison."""
    return {"ct": ct, "type": bool(typ or ct is not None), "secs": list(secs), "ch": list(ch), "cont": list(cont)}


def slots(name, kind):
    return ["%s[%s]" % (name, i) for i in (range(K) if kind == "slist" else DKEYS)]


def all_secs(n):
    """the secrets of a configuration as the model sees them: declared ones, then the container slots"""
    out = list(n["secs"])
    for name, kind, m in n.get("cont", ()):
        out += [(sl, m) for sl in slots(name, kind)]
    return out


def walk_desc(n, pos=()):
    """positions of all declared (non-item) nodes"""
    yield pos, n
    for name, kind, c in n["ch"]:
        if kind == "sub":
            yield from walk_desc(c, pos + (("sub", name),))


ALNUM = "abcdefghijklmnopqrstuvwxyzABCDEFGHJKLMNPQRSTUVWXYZ0123456789"
LONG_LENGTHS = [32, 33, 40, 64, 65, 100, 200]      # UTF-8 lengths around and beyond the 32-byte key / 16-byte block


def plaintext(rng, k=0):
    """mostly 6..12 characters; about a third are long: UTF-8 length exactly 32, 64, 65 or 33..200 (a cipher
    that only covers the first key length / block would leave the tail readable); sometimes non-ASCII"""
    r = rng.random()
    if r < 0.65:
        return "".join(rng.choice(ALNUM) for _ in range(rng.randint(6, 12)))
    n = rng.choice(LONG_LENGTHS) if r < 0.9 else rng.randint(33, 200)
    if rng.random() < 0.15:
        # two-byte code points in front, ASCII fill: the UTF-8 length is n
        k2 = rng.randint(1, 4)
        return "".join(rng.choice("\u00e9\u00fc\u03bb\u0416") for _ in range(k2)) + \
               "".join(rng.choice(ALNUM) for _ in range(n - 2 * k2))
    return "".join(rng.choice(ALNUM) for _ in range(n))


def windows(pb, w):
    """every window of w bytes of the plaintext (head, middle, tail); the whole text when it is shorter"""
    if len(pb) <= w:
        return [pb]
    return [pb[i:i + w] for i in range(len(pb) - w + 1)]


def _ciphertexts(tree, acc):
    """base64-decoded ciphertext of every {method, ciphertext} value of a document"""
    if isinstance(tree, dict):
        ct = tree.get("ciphertext")
        if isinstance(ct, str) and "method" in tree:
            try:
                acc.append(base64.b64decode(ct))
            except Exception:  # noqa
                pass
        for v in tree.values():
            _ciphertexts(v, acc)
    elif isinstance(tree, (list, tuple)):
        for v in tree:
            _ciphertexts(v, acc)
    return acc


# ---- simulation of the tree shape (which list has how many items), for generating valid positions
class Shape:
    def __init__(self, desc):
        self.desc = desc
        self.items = {}          # (pos, name) -> n

    def nodes(self):
        out = []

        def go(n, pos):
            out.append((pos, n))
            for name, kind, c in n["ch"]:
                if kind == "sub":
                    go(c, pos + (("sub", name),))
                else:
                    for i in range(self.items.get((pos, name), 0)):
                        go(c, pos + (("item", name, i),))
        go(self.desc, ())
        return out

    def clear_prefix(self, prefix):
        for key in list(self.items):
            if key[0][:len(prefix)] == prefix:
                del self.items[key]

    def graft(self, src_shape, src_pos, dst_pos):
        """the configuration at src_pos of src_shape now sits at dst_pos of this shape"""
        self.clear_prefix(dst_pos)
        for (p, name), k in list(src_shape.items.items()):
            if p[:len(src_pos)] == src_pos:
                self.items[(dst_pos + p[len(src_pos):], name)] = k

    def set_items(self, pos, name, k):
        # items below the replaced list disappear
        for key in list(self.items):
            p = key[0]
            if len(p) > len(pos) and p[:len(pos)] == pos and p[len(pos)][0] == "item" and p[len(pos)][1] == name:
                del self.items[key]
        self.items[(pos, name)] = k


# ---------------------------------------------------------------------------------------------
# generators
# ---------------------------------------------------------------------------------------------
def chain(depth, method):
    """root -> s1 -> s2 ... each with one secret `pw`"""
    n = node([("pw", method)])
    for d in range(depth, 0, -1):
        n = node([("pw", method)], [("s%d" % d, "sub", n)])
    return n


def shapes(method):
    m = method
    out = []
    out.append(("root", node([("pw", m), ("tok", "xor")])))
    for d in (1, 2, 4):
        out.append(("chain%d" % d, chain(d, m)))
    out.append(("ct", node([("pw", m)], [("ct", "sub", node([("tok", m)], ct=4)), ("plainct", "sub", node([("tok", m)], typ=True))])))
    out.append(("ct-nested", node([("pw", m)], [("a", "sub", node([("pw", m)], [("ct", "sub", node([("tok", m)], [("in", "sub", node([("pw", m)]))], ct=4))]))])))
    out.append(("list", node([("pw", m)], [("items", "list", node([("tok", m)]))])))
    out.append(("list-ct", node([("pw", m)], [("cts", "list", node([("tok", m)], ct=5))])))
    out.append(("seclist", node([("pw", m)], [("a", "sub", node([("pw", m)], cont=[("keys", "slist", m)]))],
                                cont=[("keys", "slist", m), ("d", "sdict", m)])))
    out.append(("seclist-item", node([("pw", m)], [("items", "list", node([("tok", m)], [("in", "sub", node([("pw", m)], cont=[("d", "sdict", m)]))],
                                                                        cont=[("keys", "slist", m)])),
                                                   ("cts", "list", node([("tok", m)], ct=5, cont=[("keys", "slist", m)]))])))
    out.append(("list-deep", node([("pw", m)], [("a", "sub", node([("pw", m)], [("items", "list", node([("tok", m)], [("in", "sub", node([("pw", m)]))]))]))])))
    return out


def fill_ops(rng, shape, frac=1.0):
    ops = []
    for pos, n in shape.nodes():
        for name, _ in n["secs"]:
            r = rng.random()
            if r < frac:
                ops.append(("sec", pos, name, plaintext(rng)))
            elif r < frac + 0.1:
                ops.append(("sec", pos, name, ""))
        for name, kind, _m in n.get("cont", ()):
            if frac > 0:
                ops.append(random_cont_op(rng, pos, name, kind, full=True))
    return ops


def random_cont_op(rng, pos, name, kind, full=False):
    def val():
        return plaintext(rng) if (full or rng.random() < 0.8) else ""
    if kind == "slist":
        k = rng.randint(1, K) if full else rng.randint(0, K)
        return ("seclist", pos, name, [val() for _ in range(k)])
    keys = [k for k in DKEYS if rng.random() < 0.7] or (["b"] if full else [])
    return ("secdict", pos, name, [(k, val()) for k in keys])


def mk_case(desc, existing, ops, root2, fmt, kind):
    return {"desc": desc, "existing": sorted(set(existing)), "ops": ops, "root2": root2, "fmt": fmt, "kind": kind}


def generate(rng, tier):
    import random
    det = random.Random(7)       # the matrix is the same on every run
    cases = []
    k = 0
    for mi, m in enumerate(METHODS):
        for sname, desc in shapes(m):
            for rootkf in (None, 1):
                for scen in ("plain", "reroot", "subassign", "itemassign", "clear-ct", "unset", "preexisting"):
                    fmt = FORMATS[k % 5]
                    k += 1
                    sh = Shape(desc)
                    ops = []
                    if rootkf is not None:
                        ops.append(("kf", (), rootkf))
                    for pos, n in list(sh.nodes()):
                        for name, kind, c in n["ch"]:
                            if kind == "list":
                                ops.append(("items", pos, name, 2, k % 3))
                                sh.set_items(pos, name, 2)
                    existing = []
                    root2 = rootkf
                    if scen == "unset":
                        ops += fill_ops(det, sh, 0.0)
                    else:
                        ops += fill_ops(det, sh, 1.0)
                    nodes = sh.nodes()
                    if scen == "reroot":
                        ops += [("dump", fmt), ("kf", (), 2)]
                        root2 = 2
                    elif scen == "subassign":
                        subs = [p for p, n in nodes if p and all(e[0] == "sub" for e in p)]
                        if not subs:
                            continue
                        ops += [("kf", subs[-1], 3)]
                    elif scen == "itemassign":
                        its = [p for p, n in nodes if p and any(e[0] == "item" for e in p)]
                        if not its:
                            continue
                        ops += [("kf", its[0], 3)]
                    elif scen == "clear-ct":
                        cts = [p for p, n in nodes if n["ct"] is not None]
                        if not cts:
                            continue
                        ops += [("dump", fmt), ("kf", cts[0], None)]
                    elif scen == "preexisting":
                        existing = [0, 1, 2, 3, 4, 5]
                    cases.append(mk_case(desc, existing, ops, root2, fmt, "matrix:" + sname + ":" + scen))
    # ---- key-file names with ~ : root / nested / class-level, existing (used verbatim) or created
    for mi, m in enumerate(METHODS):
        for sname, desc in [("chain2", chain(2, m)), ("list", node([("pw", m)], [("items", "list", node([("tok", m)]))])),
                            ("ct~", node([("pw", m)], [("ct", "sub", node([("tok", m)], ct=7))]))]:
            for existing in ([], [6, 7], [6]):
                for where in ("root", "nested", "both"):
                    fmt = FORMATS[k % 5]
                    k += 1
                    sh = Shape(desc)
                    ops = []
                    if where in ("root", "both"):
                        ops.append(("kf", (), 6))
                    for pos, n in list(sh.nodes()):
                        for name, kind, c in n["ch"]:
                            if kind == "list":
                                ops.append(("items", pos, name, 2, k % 3))
                                sh.set_items(pos, name, 2)
                    ops += fill_ops(det, sh, 1.0)
                    if where in ("nested", "both"):
                        ops.append(("kf", sh.nodes()[-1][0], 7))
                    ops.append(("dump", fmt))
                    cases.append(mk_case(desc, existing, ops, 6 if where in ("root", "both") else None, fmt,
                                         "matrix:tilde-%s:%s" % (sname, where)))
    # ---- long plaintexts: UTF-8 length exactly 32, 33, 40, 64, 65, 100, 200 at the root, nested, in a list item
    #      and as items of a list of secrets, every method, ASCII and with two-byte code points
    for mi, m in enumerate(METHODS):
        desc = node([("pw", m)], [("sub", "sub", node([("pw", m)], cont=[("keys", "slist", m)])),
                                  ("items", "list", node([("tok", m)]))])
        for n in LONG_LENGTHS:
            for nonascii in (False, True):
                fmt = FORMATS[k % 5]
                k += 1

                def text():
                    if nonascii:
                        return "\u00e9\u03bb" + "".join(det.choice(ALNUM) for _ in range(n - 4))
                    return "".join(det.choice(ALNUM) for _ in range(n))
                ops = [("kf", (), 1), ("items", (), "items", 1, k % 3), ("sec", (), "pw", text()),
                       ("sec", (("sub", "sub"),), "pw", text()), ("seclist", (("sub", "sub"),), "keys", [text(), text()]),
                       ("sec", (("item", "items", 0),), "tok", text())]
                cases.append(mk_case(desc, [1] if k % 2 else [], ops, 1, fmt, "matrix:long:%d" % n))
    # ---- two configurations of one schema, Config objects moved from the first into the second
    for mi, m in enumerate(METHODS):
        desc = node([("pw", m)], [("sub", "sub", node([("pw", m)], [("in2", "sub", node([("pw", m)]))])),
                                  ("items", "list", node([("tok", m)], [("deep", "sub", node([("pw", m)]))])),
                                  ("cts", "list", node([("tok", m)], ct=5))])
        for route in MOVE_ROUTES:
            for kb in (1, None):
                for own in (False, True):
                    fmt = FORMATS[k % 5]
                    k += 1
                    cases.append(two_tree_case(det, desc, "matrix:move:" + route[0] + (":%d" % route[1]), fmt, ka=3, kb=kb,
                                               routes=[route], own=own))
    nrand = 1000 if tier == "quick" else 12000
    for i in range(nrand):
        if i % 4 == 3:
            desc = random_desc(rng)
            cases.append(two_tree_case(rng, desc, "random-move", rng.choice(FORMATS), ka=rng.choice([2, 3, 6]),
                                       kb=rng.choice([None, 1, 1, 7]), routes=None, own=rng.random() < 0.4))
        else:
            cases.append(random_case(rng))
    return cases


# (route, style): how a Config OBJECT of the first configuration is put into the second
# sub:     0 setattr(dst, name, x)   1 dst[name] = x   2 root["a.b.name"] = x
# replace: 0 dst.name = [x, ..]      1 dst.name[:] = [x, ..]   2 dst.name[:] = a.name   3 dst.name = a.name
#          4 dst.name = a.name.copy()                       (2-4: the source ListProxy itself; 3, 4 = F54)
# append:  0 append(x) each   1 extend([x, ..])   2 += [x, ..]   3 insert(len, x) each
#          4 extend(a.name)   5 += a.name   6 dst.name = dst.name + a.name             (4-6 = F54)
MOVE_ROUTES = [("sub", 0), ("sub", 1), ("sub", 2), ("sub-deep", 0), ("sub-deep", 2),
               ("replace", 0), ("replace", 1), ("replace", 2), ("replace", 3), ("replace", 4), ("setitem", 0),
               ("append", 0), ("append", 1), ("append", 2), ("append", 3), ("append", 4), ("append", 5), ("append", 6)]


def schema_path(pos):
    return tuple(e[1] for e in pos)


def two_tree_case(rng, desc, kind, fmt, ka, kb, routes, own):
    """phase 1: build A (key file ka) and B (key file kb); phase 2: move objects A -> B; phase 3: more on B.
    A is never used again after the first move (the moved objects are aliased there)."""
    sha, shb = Shape(desc), Shape(desc)
    ops = [("A", ("kf", (), ka))]
    if kb is not None:
        ops.append(("kf", (), kb))
    # lists: outermost first, so nested ones exist
    for sh, tag, lo in ((sha, True, 1), (shb, False, 0)):
        done = set()
        while True:
            todo = [(p, name) for p, n in sh.nodes() for name, kd, c in n["ch"] if kd == "list" and (p, name) not in done]
            if not todo:
                break
            for p, name in todo:
                cnt = rng.randint(lo, 2)
                op = ("items", p, name, cnt, rng.randrange(3))
                ops.append(("A", op) if tag else op)
                sh.set_items(p, name, cnt)
                done.add((p, name))
    ops += [("A", o) for o in fill_ops(rng, sha, 1.0)]
    ops += fill_ops(rng, shb, 0.5)
    if own:
        # a moved configuration keeps the key file it names itself
        cands = [p for p, n in sha.nodes() if p]
        if cands:
            ops.append(("A", ("kf", rng.choice(cands), rng.choice([1, 2]))))
    if rng.random() < 0.4:
        ops.append(("A", ("dump", rng.choice(FORMATS))))
    if rng.random() < 0.3:
        ops.append(("dump", rng.choice(FORMATS)))
    used = []

    def free(p):
        return not any(p[:len(u)] == u or u[:len(p)] == p for u in used)

    nmoves = len(routes) if routes else rng.randint(1, 3)
    for mi in range(nmoves):
        route, style = routes[mi] if routes else rng.choice(MOVE_ROUTES)
        a_nodes = sha.nodes()
        b_nodes = shb.nodes()
        if route in ("sub", "sub-deep"):
            srcs = [p for p, n in a_nodes if p and p[-1][0] == "sub" and free(p)]
            if route == "sub-deep":
                srcs = [p for p in srcs if len(p) >= 2] or srcs
            else:
                srcs = [p for p in srcs if len(p) == 1] or srcs
            rng.shuffle(srcs)
            for src in srcs:
                dsts = [p for p, n in b_nodes if schema_path(p) == schema_path(src[:-1])]
                if dsts:
                    dst = rng.choice(dsts)
                    if style == 2 and not all(e[0] == "sub" for e in dst):
                        style = rng.choice([0, 1])
                    ops.append(("move", dst, "sub", src[-1][1], None, [src], style, None))
                    shb.graft(sha, src, dst + (("sub", src[-1][1]),))
                    used.append(src)
                    break
        else:
            lists = [(p, name) for p, n in a_nodes for name, kd, c in n["ch"]
                     if kd == "list" and sha.items.get((p, name), 0) > 0 and free(p)
                     and all(free(p + (("item", name, i),)) for i in range(sha.items[(p, name)]))]
            rng.shuffle(lists)
            for pa, name in lists:
                dsts = [p for p, n in b_nodes if schema_path(p) == schema_path(pa) and (p, name) in shb.items]
                if not dsts:
                    continue
                dst = rng.choice(dsts)
                na, nb = sha.items[(pa, name)], shb.items[(dst, name)]
                allsrc = [pa + (("item", name, i),) for i in range(na)]
                whole = None
                if route == "replace":
                    if style >= 2:
                        srcs, whole = allsrc, (pa, name)          # the ListProxy itself is handed over
                    else:
                        srcs = allsrc[:rng.randint(1, na)]
                    for i in range(nb):
                        shb.clear_prefix(dst + (("item", name, i),))
                    shb.items[(dst, name)] = len(srcs)
                    for i, sp in enumerate(srcs):
                        shb.graft(sha, sp, dst + (("item", name, i),))
                    ops.append(("move", dst, "replace", name, None, srcs, style, whole))
                elif route == "setitem":
                    if nb == 0:
                        continue
                    i = rng.randrange(nb)
                    srcs = [rng.choice(allsrc)]
                    shb.graft(sha, srcs[0], dst + (("item", name, i),))
                    ops.append(("move", dst, "setitem", name, i, srcs, 0, None))
                else:
                    srcs = allsrc[:rng.randint(1, na)]
                    if style >= 4:
                        srcs, whole = allsrc, (pa, name)          # the ListProxy itself is handed over
                    for i, sp in enumerate(srcs):
                        shb.graft(sha, sp, dst + (("item", name, nb + i),))
                    shb.items[(dst, name)] = nb + len(srcs)
                    ops.append(("move", dst, "append", name, None, srcs, style, whole))
                used.extend(srcs)
                break
    # phase 3: the second configuration lives on
    cur_root = kb
    b_nodes = shb.nodes()
    for _ in range(rng.randint(0, 3)):
        r = rng.random()
        p, n = rng.choice(b_nodes)
        if r < 0.6:
            name, _m = rng.choice(n["secs"])
            ops.append(("sec", p, name, plaintext(rng)))
        elif r < 0.75:
            ops.append(("kf", p, rng.choice([None, 1, 2])))
            if p == ():
                cur_root = ops[-1][2]
        elif r < 0.9:
            ops.append(("dump", rng.choice(FORMATS)))
        else:
            ops.append(("kf", (), rng.choice([1, 2, 7])))
            cur_root = ops[-1][2]
    existing = [i for i in range(8) if rng.random() < 0.3]
    c = mk_case(desc, existing, ops, cur_root, fmt, kind)
    c["two"] = True
    return c


def random_desc(rng, depth=0, in_list=False):
    names = ["pw", "tok", "key2"]
    secs = [(nm, rng.choice(METHODS)) for nm in names[:rng.randint(1, 2)]]
    cont = []
    if rng.random() < 0.3:
        cont.append(("keys", "slist", rng.choice(METHODS)))
    if rng.random() < 0.2:
        cont.append(("d", "sdict", rng.choice(METHODS)))
    ch = []
    if depth < 4:
        nsub = rng.choice([0, 1, 1, 2]) if depth < 2 else rng.choice([0, 0, 1])
        for i in range(nsub):
            c = random_desc(rng, depth + 1)
            r = rng.random()
            if r < 0.25:
                c["ct"], c["type"] = rng.choice([4, 5]), True
            elif r < 0.35:
                c["type"] = True
            ch.append(("s%d" % i, "sub", c))
        if rng.random() < (0.45 if depth < 2 else 0.2):
            c = random_desc(rng, depth + 2)
            r = rng.random()
            if r < 0.3:
                c["ct"], c["type"] = rng.choice([4, 5]), True
            elif r < 0.4:
                c["type"] = True
            ch.append(("items", "list", c))
    return node(secs, ch, cont=cont)


def random_case(rng):
    desc = random_desc(rng)
    sh = Shape(desc)
    ops = []
    rootkf = rng.choice([None, 1, 1, 6])
    if rootkf is not None:
        ops.append(("kf", (), rootkf))
    cur_root = rootkf
    nsteps = rng.randint(2, 12)
    assign_p = rng.choice([0.0, 0.1, 0.3])
    for _ in range(nsteps):
        nodes = sh.nodes()
        r = rng.random()
        if r < 0.30:
            # set a list
            lists = [(p, name) for p, n in nodes for name, kind, c in n["ch"] if kind == "list"]
            if lists:
                p, name = rng.choice(lists)
                k = rng.randint(0, 2)
                ops.append(("items", p, name, k, rng.randrange(3)))
                sh.set_items(p, name, k)
                continue
        if r < 0.45:
            conts = [(p, name, kind) for p, n in nodes for name, kind, _m in n["cont"]]
            if conts and rng.random() < 0.6:
                p, name, kind = rng.choice(conts)
                ops.append(random_cont_op(rng, p, name, kind))
                continue
        if r < 0.65:
            p, n = rng.choice(nodes)
            name, _ = rng.choice(n["secs"])
            ops.append(("sec", p, name, rng.choice([plaintext(rng)] * 6 + ["", None])))
        elif r < 0.65 + assign_p:
            p, n = rng.choice(nodes)
            ops.append(("kf", p, rng.choice([None, 1, 2, 3, 7])))
            if p == ():
                cur_root = ops[-1][2]
        elif r < 0.85 + assign_p:
            ops.append(("kf", (), rng.choice([None, 1, 2, 2])))
            cur_root = ops[-1][2]
        else:
            ops.append(("dump", rng.choice(FORMATS)))
    # most secrets set at the end
    for p, n in sh.nodes():
        for name, _ in n["secs"]:
            if rng.random() < 0.5:
                ops.append(("sec", p, name, plaintext(rng)))
        for name, kind, _m in n["cont"]:
            if rng.random() < 0.4:
                ops.append(random_cont_op(rng, p, name, kind))
    if rng.random() < 0.3:
        ops.append(("dump", rng.choice(FORMATS)))
        if rng.random() < 0.6:
            ops.append(("kf", (), rng.choice([None, 1, 2])))
            cur_root = ops[-1][2]
    existing = [i for i in range(8) if rng.random() < 0.3]
    root2 = cur_root if rng.random() < 0.93 else rng.choice([None, 1, 2])
    return mk_case(desc, existing, ops, root2, rng.choice(FORMATS), "random")


# ---------------------------------------------------------------------------------------------
# Gallina
# ---------------------------------------------------------------------------------------------
def g_path(i):
    return "%d%%N" % i


def g_node(n):
    ct = g_opt(n["ct"], g_path)
    secs = g_list(all_secs(n), lambda s: "(%s,{|s_method:=%s;s_val:=None;s_iv:=[]|})" % (g_str(s[0]), GM[s[1]]))
    ch = g_list(n["ch"], lambda c: "(%s,%s)" % (g_str(c[0]), ("CSub %s" % g_node(c[2])) if c[1] == "sub" else ("CList %s []" % g_node(c[2]))))
    return "(SNode %s %s %s %s)" % (ct, ct, secs, ch)


def g_pos(pos):
    return g_list(pos, lambda e: "StSub %s" % g_str(e[1]) if e[0] == "sub" else "StItem %s %d%%nat" % (g_str(e[1]), e[2]))


GROUTE = {"sub": "MSub %s", "replace": "MReplace %s", "setitem": "MSetItem %s %d%%nat", "append": "MAppend %s"}


def g_ops(ops):
    out = []
    for op in ops:
        tag = "OnB"
        if op[0] == "A":
            tag, op = "OnA", op[1]
        if op[0] == "move":
            r = GROUTE[op[2]] % ((g_str(op[3]), op[4]) if op[2] == "setitem" else (g_str(op[3]),))
            out.append("OMove %s (%s) %s" % (g_pos(op[1]), r, g_list(op[5], g_pos)))
            continue
        for g in g_ops1(op):
            out.append("%s (%s)" % (tag, g))
    return "[%s]" % ";".join(out)


def g_ops1(op):
    out = []
    if True:
        if op[0] == "seclist":
            vals = list(op[3]) + [None] * (K - len(op[3]))
            out += [g_op(("sec", op[1], sl, v)) for sl, v in zip(slots(op[2], "slist"), vals)]
        elif op[0] == "secdict":
            d = dict(op[3])
            out += [g_op(("sec", op[1], sl, d.get(k))) for sl, k in zip(slots(op[2], "sdict"), DKEYS)]
        else:
            out.append(g_op(op))
    return out


def g_op(op):
    if op[0] == "kf":
        return "OKf %s %s" % (g_pos(op[1]), g_opt(op[2], g_path))
    if op[0] == "sec":
        return "OSec %s %s %s" % (g_pos(op[1]), g_str(op[2]), g_opt(op[3], g_str))
    if op[0] == "items":
        return "OItems %s %s %d%%nat" % (g_pos(op[1]), g_str(op[2]), op[3])
    if op[0] == "dump":
        return "ODump"
    raise Broken("bad op %r" % (op,))


def gcase(c):
    from cincoconfig.encryption import AES_AVAILABLE
    return "(%s, %s, %s, %s, %s)" % (g_bool(AES_AVAILABLE), g_list(c["existing"], g_path), g_node(c["desc"]),
                                     g_ops(c["ops"]), g_opt(c["root2"], g_path))


# ---------------------------------------------------------------------------------------------
# implementation runner
# ---------------------------------------------------------------------------------------------
def _build_schema(n, paths, counter):
    from cincoconfig import Schema, SecureField, ListField, DictField, StringField, make_type
    s = Schema()
    for name, m in n["secs"]:
        setattr(s, name, SecureField(method=m))
    for name, kind, m in n.get("cont", ()):
        if kind == "slist":
            setattr(s, name, ListField(SecureField(method=m)))
        else:
            setattr(s, name, DictField(StringField(), SecureField(method=m)))
    for name, kind, c in n["ch"]:
        sub = _build_schema(c, paths, counter)
        if c["type"]:
            counter[0] += 1
            sub = make_type(sub, "CT%d" % counter[0], key_filename=(paths[c["ct"]] if c["ct"] is not None else None))
        if kind == "sub":
            setattr(s, name, sub)
        else:
            setattr(s, name, ListField(sub))
    return s


def _item_field(cfg, name):
    f = cfg._schema._fields[name]
    return f.field


def _resolve(root, pos):
    cfg = root
    for e in pos:
        if e[0] == "sub":
            cfg = cfg._data[e[1]]
        else:
            cfg = cfg._data[e[1]][e[2]]
    return cfg


def _walk(cfg, n, chain=()):
    """containment walk (NOT via _parent): yields (cfg, desc, ancestors incl. self)"""
    chain = chain + (cfg,)
    yield cfg, n, chain
    for name, kind, c in n["ch"]:
        v = cfg._data.get(name)
        if kind == "sub":
            yield from _walk(v, c, chain)
        else:
            for item in (v or []):
                yield from _walk(item, c, chain)


def _own(cfg, tbl):
    """the key file this configuration NAMES: what the history assigned to it (side table keyed by id(), the
    objects are kept alive), else the class-level key file of its config type, else none.  Deliberately not
    read from the private Config.__keyfile attribute (a cache there would fool the oracle)."""
    from cincoconfig.core import ConfigType
    if id(cfg) in tbl:
        return tbl[id(cfg)][1]
    if isinstance(cfg, ConfigType):
        return type(cfg).__key_filename__ or None
    return None


def _plain(cfg, n):
    out = {"secs": [(cfg._data.get(name) or None) for name, _ in n["secs"]], "ch": [], "cont": []}
    for name, kind, _m in n.get("cont", ()):
        v = cfg._data.get(name)
        if kind == "slist":
            out["cont"].append([(x or None) for x in (v or [])])
        else:
            out["cont"].append(sorted((k, (x or None)) for k, x in (v or {}).items()))
    for name, kind, c in n["ch"]:
        v = cfg._data.get(name)
        if kind == "sub":
            out["ch"].append(_plain(v, c))
        else:
            out["ch"].append([_plain(i, c) for i in (v or [])])
    return out


def _leaf(v):
    """a rendered secret with the ciphertext blanked"""
    if isinstance(v, dict) and isinstance(v.get("method"), str):
        return (v["method"],)
    return v


def _shape(tree, n, bad):
    """the to_tree document of configuration `n`, ciphertexts blanked, secret containers flattened into
    their slots (what the model renders); `bad` collects container items that are not a
    {method, ciphertext} map / null"""
    out = {}
    for name, _m in n["secs"]:
        out[name] = _leaf(tree.get(name))
    for name, kind, _m in n.get("cont", ()):
        v = tree.get(name)
        if kind == "slist":
            items = list(v or [])
            vals = items + [None] * (K - len(items))
        else:
            items = list((v or {}).values())
            vals = [(v or {}).get(k) for k in DKEYS]
        for it in items:
            if it is not None and not (isinstance(it, dict) and set(it) == {"method", "ciphertext"}
                                       and isinstance(it["ciphertext"], str) and it["ciphertext"]):
                bad.append(name)
        for sl, x in zip(slots(name, kind), vals):
            out[sl] = _leaf(x)
    for name, kind, c in n["ch"]:
        v = tree.get(name)
        if kind == "sub":
            out[name] = _shape(v, c, bad)
        else:
            out[name] = [_shape(x, c, bad) for x in (v or [])] or None    # unset typed list (null) = empty list
    return out


def _values(cfg, n):
    """every secret value this configuration holds: declared SecureFields, then items of its containers"""
    out = [cfg._data.get(name) for name, _m in n["secs"]]
    for name, kind, _m in n.get("cont", ()):
        v = cfg._data.get(name)
        out += list(v or []) if kind == "slist" else list((v or {}).values())
    return out


def _exec(root, root_a, op, paths, tbl):
    """one operation of the history on the configuration `root`"""
    if op[0] == "kf":
        tgt = _resolve(root, op[1])
        tgt._key_filename = (paths[op[2]] if op[2] is not None else None)
        tbl[id(tgt)] = (tgt, paths[op[2]] if op[2] is not None else None)
    elif op[0] == "sec":
        setattr(_resolve(root, op[1]), op[2], op[3])
    elif op[0] == "seclist":
        setattr(_resolve(root, op[1]), op[2], list(op[3]))
    elif op[0] == "secdict":
        setattr(_resolve(root, op[1]), op[2], dict(op[3]))
    elif op[0] == "items":
        cfg = _resolve(root, op[1])
        field = _item_field(cfg, op[2])
        if op[4] == 0:
            setattr(cfg, op[2], [{} for _ in range(op[3])])
        elif op[4] == 1:
            setattr(cfg, op[2], [field() for _ in range(op[3])])
        else:
            setattr(cfg, op[2], [])
            for _ in range(op[3]):
                cfg._data[op[2]].append(field() if _ % 2 else {})
    elif op[0] == "dump":
        root.dumps(op[1])
    elif op[0] == "move":
        _, dstpos, route, name, idx, srcs, style, whole = op
        dst = _resolve(root, dstpos)
        objs = [_resolve(root_a, sp) for sp in srcs]
        proxy = _resolve(root_a, whole[0])._data[whole[1]] if whole else None
        if route == "sub":
            if style == 0:
                setattr(dst, name, objs[0])
            elif style == 1:
                dst[name] = objs[0]
            else:
                root[".".join([e[1] for e in dstpos] + [name])] = objs[0]
        elif route == "replace":
            if style == 0:
                setattr(dst, name, list(objs))
            elif style == 1:
                dst._data[name][:] = list(objs)
            elif style == 2:
                dst._data[name][:] = proxy
            elif style == 3:
                setattr(dst, name, proxy)
            else:
                setattr(dst, name, proxy.copy())
        elif route == "setitem":
            dst._data[name][idx] = objs[0]
        elif route == "append":
            lst = dst._data[name]
            if style == 0:
                for o in objs:
                    lst.append(o)
            elif style == 1:
                lst.extend(list(objs))
            elif style == 2:
                lst += list(objs)
            elif style == 3:
                for o in objs:
                    lst.insert(len(lst), o)
            elif style == 4:
                lst.extend(proxy)
            elif style == 5:
                lst += proxy
            else:
                setattr(dst, name, lst + proxy)
    else:
        raise Broken("bad op %r" % (op,))


def _effects(events, exists):
    exists = set(exists)
    read, created = set(), set()
    for p, mode in events:
        if mode == "w":
            created.add(p)
            exists.add(p)
        elif p in exists:
            read.add(p)
    return read, created


def impl(c):
    import cincoconfig  # noqa: F401
    from cincoconfig.core import Config, ConfigType
    _install()
    default = Config.DEFAULT_CINCOKEY_FILEPATH
    d = tempfile.mkdtemp(prefix="verif_sec_")
    paths = {0: default}           # the NAME given to cincoconfig
    for i in range(1, 6):
        paths[i] = os.path.join(d, "k%d" % i)
    paths.update(TILDE)
    real = {i: os.path.expanduser(p) for i, p in paths.items()}     # where the file must be
    ids = {p: i for i, p in paths.items()}
    ids.update({p: i for i, p in real.items()})
    st = {}
    c["_o"] = st
    try:
        if os.path.exists(default):
            os.unlink(default)
        for i in TILDE:
            if os.path.exists(real[i]):
                os.unlink(real[i])
        for i in c["existing"]:
            with open(real[i], "wb") as fp:
                fp.write(os.urandom(32))
        _AUDIT["dir"], _AUDIT["default"], _AUDIT["events"] = d, default, []
        _AUDIT["extra"] = tuple(real[i] for i in TILDE)
        try:
            schema = _build_schema(c["desc"], paths, [0])
            root = schema()
            root_a = schema() if c.get("two") else None
            tbl = {}
            for op in c["ops"]:
                root_b = root
                if op[0] == "A":
                    root, op = root_a, op[1]
                try:
                    _exec(root, root_a, op, paths, tbl)
                finally:
                    root = root_b
            # ---- final dump, audited
            nodes = list(_walk(root, c["desc"]))
            before = [p for p in real.values() if os.path.exists(p)]
            content = {p: open(p, "rb").read() for p in before}
            _AUDIT["events"] = []
            out = root.dumps(c["fmt"])
            ev_dump = list(_AUDIT["events"])
            if isinstance(out, str):
                out = out.encode()
            read, created = _effects(ev_dump, before)
            # ---- resolution as the objects report it (after the dump: a cached KeyFile would show)
            kfs = []
            st["resolution"] = []
            for cfg, n, chain in nodes:
                used = cfg._keyfile.filename
                named = cfg._key_filename
                # nearest ancestor (by containment) naming a key file
                want = default
                for a in reversed(chain):
                    if _own(a, tbl) is not None:
                        want = _own(a, tbl)
                        break
                parent_ok = (cfg._parent is (chain[-2] if len(chain) > 1 else None))
                st["resolution"].append((used, named, want, parent_ok))
                kfs.extend([ids.get(used, -1)] * len(all_secs(n)))
            st["expected_dump"] = set()
            st["plaintexts"] = []
            for (cfg, n, chain), (used, named, want, _) in zip(nodes, st["resolution"]):
                for v in _values(cfg, n):
                    if v:
                        st["expected_dump"].add(os.path.expanduser(want))
                        st["plaintexts"].append(v)
            st["touched_dump"] = {p for p, _ in ev_dump}
            # plaintext absence: every 8-byte window (head, middle, tail) in the output bytes, every 6-byte window
            # in the base64-DECODED ciphertexts of the document that was written (parsed back by the formatter)
            # and of a second rendering
            cts = []
            try:
                from cincoconfig.core import ConfigFormat
                _ciphertexts(ConfigFormat.get(c["fmt"]).loads(root, out), cts)
            except Exception:  # noqa
                pass
            _ciphertexts(root.to_tree(), cts)
            st["n_ciphertexts"] = len(cts)
            st["leaks"] = []
            for v in st["plaintexts"]:
                pb = v.encode()
                if any(w in out for w in windows(pb, 8)):
                    st["leaks"].append(("output", len(pb)))
                elif any(w in ct for ct in cts for w in windows(pb, 6)):
                    st["leaks"].append(("ciphertext", len(pb)))
            # F34 region, from the real objects
            f34 = False
            for cfg, n, chain in nodes[1:]:
                cls_kf = (type(cfg).__key_filename__ or None) if isinstance(cfg, ConfigType) else None
                if _own(cfg, tbl) != cls_kf:
                    f34 = True
            st["f34"] = f34
            root_own = _own(root, tbl)
            st["same_root_kf"] = (ids.get(root_own, -1) if root_own is not None else None) == c["root2"]
            st["bad_items"] = []
            shape = _shape(root.to_tree(), c["desc"], st["bad_items"])
            st["methods"] = []

            def collect(v):
                if isinstance(v, tuple):
                    st["methods"].append(v[0])
                elif isinstance(v, dict):
                    for x in v.values():
                        collect(x)
                elif isinstance(v, list):
                    for x in v:
                        collect(x)
            collect(shape)
            want_plain = _plain(root, c["desc"])
            # ---- new session: new objects, same file system
            before2 = [p for p in real.values() if os.path.exists(p)]
            content.update({p: open(p, "rb").read() for p in before2 if p not in content})
            root2 = schema(key_filename=paths[c["root2"]]) if c["root2"] is not None else schema()
            tbl2 = {id(root2): (root2, paths[c["root2"]] if c["root2"] is not None else None)}
            _AUDIT["events"] = []
            try:
                root2.loads(out, c["fmt"])
                loaded = True
            except Exception as e:  # noqa
                loaded = False
                st["load_exc"] = type(e).__name__
            ev_load = list(_AUDIT["events"])
            st["touched_load"] = {p for p, _ in ev_load}
            # what a fresh configuration can name: the new root key file and the class-level key files
            allowed = {real[c["root2"]] if c["root2"] is not None else default}
            for _p, n in _all_desc(c["desc"]):
                if n["ct"] is not None:
                    allowed.add(real[n["ct"]])
            st["allowed_load"] = allowed
            if loaded:
                got_plain = _plain(root2, c["desc"])
                st["expected_load"] = set()
                for cfg, n, chain in _walk(root2, c["desc"]):
                    want = default
                    for a in reversed(chain):
                        if _own(a, tbl2) is not None:
                            want = _own(a, tbl2)
                            break
                    if any(_values(cfg, n)):
                        st["expected_load"].add(os.path.expanduser(want))
                if got_plain == want_plain:
                    r2, c2 = _effects(ev_load, before2)
                    rt = ("same", (sorted(ids.get(p, -1) for p in r2), sorted(ids.get(p, -1) for p in c2)))
                else:
                    rt = "broken"
            else:
                rt = "broken"
            st["rt"] = rt
            # ---- the constructor route: schema(key_filename=K, **tree) and schema(**tree, key_filename=K).
            # A SecureField keyword is an assignment (an encrypted map is refused there), so the root's own
            # secrets go in as plaintext; maps under sub-configuration keys and lists of maps are loaded.
            tree = root.to_tree()
            kwargs = dict(tree)
            for name, _m in c["desc"]["secs"]:
                kwargs[name] = root._data.get(name) or None
            for name, kind, _m in c["desc"].get("cont", ()):
                v = root._data.get(name)
                if v is not None:
                    kwargs[name] = list(v) if kind == "slist" else dict(v)
            kfname = paths[c["root2"]] if c["root2"] is not None else None
            ctor_obs = []
            st["ctor"] = []
            for order in ("first", "last"):
                for p in real.values():
                    if p not in before2 and os.path.exists(p):
                        os.unlink(p)          # back to the file system the dump left behind
                _AUDIT["events"] = []
                try:
                    if kfname is None:
                        b = schema(**kwargs)
                    elif order == "first":
                        b = schema(key_filename=kfname, **kwargs)
                    else:
                        b = schema(**kwargs, key_filename=kfname)
                    got = _plain(b, c["desc"])
                    exc = None
                except Exception as e:  # noqa
                    got, exc = None, type(e).__name__
                ev = list(_AUDIT["events"])
                touched = {p for p, _ in ev}
                if got is not None and got == want_plain:
                    r3, c3 = _effects(ev, before2)
                    o = ("same", (sorted(ids.get(p, -1) for p in r3), sorted(ids.get(p, -1) for p in c3)))
                else:
                    o = "broken"
                ctor_obs.append(o)
                st["ctor"].append({"order": order, "obs": o, "exc": exc, "touched": touched})
            # a config type with a class-level key file, built on its own from its part of the tree
            st["ctor_ct"] = []
            for name, kind, cd in c["desc"]["ch"]:
                sub = root._data.get(name)
                if kind == "sub" and cd["ct"] is not None and isinstance(sub, ConfigType) and not f34:
                    kw = dict(tree[name])
                    for sn, _m in cd["secs"]:
                        kw[sn] = sub._data.get(sn) or None
                    for sn, sk, _m in cd.get("cont", ()):
                        v = sub._data.get(sn)
                        if v is not None:
                            kw[sn] = list(v) if sk == "slist" else dict(v)
                    _AUDIT["events"] = []
                    try:
                        b = type(sub)(**kw)
                        ok = _plain(b, cd) == _plain(sub, cd)
                        exc = None
                    except Exception as e:  # noqa
                        ok, exc = False, type(e).__name__
                    allowed_ct = {real[n["ct"]] for _p, n in _all_desc(cd) if n["ct"] is not None}
                    st["ctor_ct"].append({"name": name, "ok": ok, "exc": exc,
                                          "stray": {p for p, _ in _AUDIT["events"]} - allowed_ct})
            st["rewritten"] = sorted(os.path.basename(p) for p, b in content.items()
                                     if not os.path.exists(p) or open(p, "rb").read() != b)
            return (kfs, (sorted(ids.get(p, -1) for p in read), sorted(ids.get(p, -1) for p in created)), f34, shape, rt,
                    ctor_obs[0])
        except Exception as e:  # noqa
            st["exc"] = "%s: %s" % (type(e).__name__, e)
            return ("exc", type(e).__name__)
    finally:
        _AUDIT["dir"] = None
        shutil.rmtree(d, ignore_errors=True)
        for i in TILDE:
            try:
                os.unlink(os.path.expanduser(TILDE[i]))
            except OSError:
                pass
        try:
            os.unlink(default)
        except OSError:
            pass


def _all_desc(n, pos=()):
    yield pos, n
    for name, kind, c in n["ch"]:
        yield from _all_desc(c, pos + ((kind, name),))


# ---------------------------------------------------------------------------------------------
# direct oracle (independent of the model)
# ---------------------------------------------------------------------------------------------
def oracle(c, obs):
    st = c.get("_o", {})
    bad = []
    if "exc" in st:
        return ["an operation of the history raised: %s" % st["exc"]]
    def base(p):
        return p if p.startswith("~") else os.path.basename(p)     # an unexpanded ~ name that reached open() is shown as such
    for used, named, want, parent_ok in st["resolution"]:
        if used != want or named != want:
            bad.append("key-file resolution: a configuration uses %s / reports %s, nearest ancestor names %s" % (base(used), base(named), base(want)))
            break
    if not all(r[3] for r in st["resolution"]):
        bad.append("key-file resolution: a (sub)configuration is not linked to its containing configuration")
    if st["touched_dump"] != st["expected_dump"]:
        bad.append("key files touched by the dump %s differ from the key files of the non-empty secrets %s" % (
            sorted(map(base, st["touched_dump"])), sorted(map(base, st["expected_dump"]))))
    if st.get("rewritten"):
        bad.append("an existing key file was rewritten / removed by dump or load: %s" % st["rewritten"])
    if st["leaks"]:
        where, n = st["leaks"][0]
        bad.append("plaintext of a secret (%d bytes) present in the serialised output: a window of it is readable in the %s" % (
            n, "output bytes" if where == "output" else "base64-decoded ciphertext"))
    if any(m not in ("aes", "xor") for m in st["methods"]):
        bad.append("recorded encryption method is not concrete: %r" % (st["methods"],))
    if st["bad_items"]:
        bad.append("an item of a list/dict of secrets is not written as a {method, ciphertext} map: field(s) %s" % sorted(set(st["bad_items"])))
    if len(st["methods"]) != len(st["plaintexts"]):
        bad.append("number of encrypted values in the document differs from the number of non-empty secrets")
    if not st["touched_load"] <= st["allowed_load"]:
        bad.append("load touched a key file that no configuration of the new session names: %s" % sorted(map(base, st["touched_load"] - st["allowed_load"])))
    if "expected_load" in st and st["touched_load"] != st["expected_load"] and st["rt"] != "broken":
        bad.append("key files touched by the load %s differ from the key files of the loaded secrets %s" % (
            sorted(map(base, st["touched_load"])), sorted(map(base, st["expected_load"]))))
    for r in st.get("ctor", ()):
        label = "schema(key_filename=K, **tree)" if r["order"] == "first" else "schema(**tree, key_filename=K)"
        if not r["touched"] <= st["allowed_load"]:
            bad.append("constructor route %s touched a key file that the new configuration does not name: %s" % (
                label, sorted(map(base, r["touched"] - st["allowed_load"]))))
        if r["obs"] == "broken" and st["same_root_kf"] and st["plaintexts"]:
            bad.append("round trip: constructor route %s with the same root key file does not give back the plaintexts (%s)" % (
                label, r["exc"] or "values differ"))
    if len(st.get("ctor", ())) == 2 and st["ctor"][0]["obs"] != st["ctor"][1]["obs"]:
        bad.append("constructor route: the position of the key_filename keyword changes the result: %r vs %r" % (
            st["ctor"][0]["obs"], st["ctor"][1]["obs"]))
    for r in st.get("ctor_ct", ()):
        if r["stray"]:
            bad.append("constructor route: config type %s(**tree) touched a key file it does not name: %s" % (r["name"], sorted(map(base, r["stray"]))))
        if not r["ok"]:
            bad.append("constructor route: config type %s(**tree) does not give back the plaintexts (%s)" % (r["name"], r["exc"] or "values differ"))
    if st["rt"] == "broken" and st["same_root_kf"] and st["plaintexts"]:
        bad.append("round trip: loading the output in a new configuration with the same root key file does not give back the plaintexts (%s)" % st.get("load_exc", "values differ"))
    return bad


def classify(c, msg):
    st = c.get("_o", {})
    if msg.startswith("round trip:") and st.get("f34"):
        return "F34"
    return None


def tags(c, obs):
    t = {"fmt:" + c["fmt"], c["kind"].split(":")[0]}
    st = c.get("_o", {})
    descs = list(_all_desc(c["desc"]))
    t.add("depth:%d" % max(len(p) for p, _ in descs))
    if any(p and p[-1][0] == "list" for p, _ in descs):
        t.add("list")
    if any(n["ct"] is not None for _, n in descs):
        t.add("config-type-keyfile")
    if any(n["type"] and n["ct"] is None for _, n in descs):
        t.add("config-type-plain")
    for _, n in descs:
        for _nm, m in all_secs(n):
            t.add("method:" + m)
    for p, n in descs:
        for _nm, kind, _m in n.get("cont", ()):
            t.add("secret-list" if kind == "slist" else "secret-dict")
            if any(e[0] == "list" for e in p):
                t.add("secret-container-in-item")
            elif p:
                t.add("secret-container-nested")
    for op in c["ops"]:
        if op[0] == "move":
            t.add("move:%s:%d" % (op[2], op[6]))
    if any((op[1] if op[0] == "A" else op)[0] == "kf" and (op[1] if op[0] == "A" else op)[2] in TILDE for op in c["ops"]) or \
            any(n["ct"] in TILDE for _, n in descs):
        t.add("tilde-keyfile")
    for v in st.get("plaintexts", ()):
        n = len(v.encode())
        t.add("plaintext-len:" + ("6-31" if n < 32 else "32" if n == 32 else "33-63" if n < 64 else "64-65" if n <= 65 else "66-200"))
        if n != len(v):
            t.add("plaintext-non-ascii")
    seen_dump = False
    for op in c["ops"]:
        if op[0] == "dump":
            seen_dump = True
        if op[0] == "kf":
            t.add("assign:" + ("root" if op[1] == () else ("item" if any(e[0] == "item" for e in op[1]) else "sub")))
            if seen_dump:
                t.add("assign-after-dump")
    if st.get("f34"):
        t.add("F34-region")
    if st.get("ctor_ct"):
        t.add("ctor:config-type")
    if isinstance(obs, tuple) and len(obs) == 6:
        t.add("ctor:" + (obs[5] if isinstance(obs[5], str) else obs[5][0]))
        t.add("rt:" + (obs[4] if isinstance(obs[4], str) else obs[4][0]))
        if 0 in obs[1][0] or 0 in obs[1][1]:
            t.add("default-keyfile-used")
        if obs[1][1]:
            t.add("keyfile-created")
        if not obs[1][0] and not obs[1][1]:
            t.add("nothing-opened")
    else:
        t.add("exception")
    return t


def nontrivial(c, obs):
    return bool(c.get("_o", {}).get("plaintexts"))
