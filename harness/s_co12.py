"""stream configops with the direct oracle and generator emphasis of C12 (see s_configops.py)"""
from s_configops import *  # noqa: F401,F403
import s_configops as _base

NAME = "co12"


def generate(rng, tier):
    return _base.generate_for("C12", rng, tier)


def oracle(c, obs):
    return _base.oracle_for("C12", c, obs)
