"""
stream `merge` (C18): IncludeField.combine_trees(base, child) on random tree pairs, compared with
Tree.v (`run_merge`); purity checked by deep copies.
"""
import copy

from common import gal, g_str, g_list

NAME = "merge"
IMPORTS = "From Cinco Require Import Base Tree."
RUN = "run_merge"
CASE_TYPE = "(list (str * tree) * list (str * tree))"
KEYS = ["a", "b", "c", "d", "k1", "k2", "", "x.y", "café"]


def g_tree(t):
    if isinstance(t, dict):
        return "(TMap %s)" % g_map(t)
    return "(TLeaf %s)" % gal(t)


def g_map(m):
    return g_list(m.items(), lambda kv: "(%s,%s)" % (g_str(kv[0]), g_tree(kv[1])))


def rleaf(rng):
    return rng.choice([None, True, False, 0, 1, -5, 2.5, "", "s", "other", [], [1, 2], [{"a": 1}], [[]]])


def rtree(rng, depth, keys=KEYS):
    n = rng.choice([0, 1, 2, 3, 4]) if depth > 0 else rng.choice([0, 1, 2])
    m = {}
    for k in rng.sample(keys, min(n, len(keys))):
        if depth > 0 and rng.random() < 0.4:
            m[k] = rtree(rng, depth - 1, keys)
        else:
            m[k] = rleaf(rng)
    return m


def generate(rng, tier):
    cases = []
    # deterministic matrix: every pairing of {absent, leaf, empty map, map} under one key, with a sibling
    vals = {"absent": None, "leaf": 1, "null": "NULL", "emptymap": {}, "map": {"x": 1, "y": {"z": 2}}, "map2": {"y": {"w": 3}, "x": None}}
    for bk, bv in vals.items():
        for ck, cv in vals.items():
            base, child = {"s": 0}, {"t": 1}
            if bk != "absent":
                base["k"] = None if bv == "NULL" else copy.deepcopy(bv)
            if ck != "absent":
                child["k"] = None if cv == "NULL" else copy.deepcopy(cv)
            cases.append({"base": base, "child": child})
    for _ in range(600 if tier == "quick" else 20000):
        cases.append({"base": rtree(rng, 3), "child": rtree(rng, 3)})
    return cases


def gcase(c):
    return "(%s, %s)" % (g_map(c["base"]), g_map(c["child"]))


def impl(c):
    from cincoconfig import IncludeField
    base, child = copy.deepcopy(c["base"]), copy.deepcopy(c["child"])
    f = IncludeField()
    try:
        ret = f.combine_trees(base, child)
    except Exception as e:  # noqa
        c["_exc"] = type(e).__name__
        return ("err", type(e).__name__)
    c["_pure"] = (base == c["base"] and child == c["child"]
                  and repr(base) == repr(c["base"]) and repr(child) == repr(c["child"]))
    c["_fresh"] = ret is not base and ret is not child
    return ret


def spec_merge(base, child):
    out = dict(base)
    for k, v in child.items():
        if k in base and isinstance(base[k], dict) and isinstance(v, dict):
            out[k] = spec_merge(base[k], v)
        else:
            out[k] = v
    return out


def oracle(c, obs):
    bad = []
    if isinstance(obs, tuple):
        return ["combine_trees raised %s" % obs[1]]
    if not c.get("_pure"):
        bad.append("combine_trees mutated one of its inputs")
    if not c.get("_fresh"):
        bad.append("combine_trees returned one of its inputs")
    exp = spec_merge(c["base"], c["child"])
    if obs != exp or repr(obs) != repr(exp):
        bad.append("result is not the deep merge with the child winning (or key order differs)")
    return bad


def tags(c, obs):
    common_keys = set(c["base"]) & set(c["child"])
    t = {"common=%d" % min(3, len(common_keys))}
    for k in common_keys:
        t.add("%s/%s" % ("map" if isinstance(c["base"][k], dict) else "leaf", "map" if isinstance(c["child"][k], dict) else "leaf"))
    return t


def nontrivial(c, obs):
    return bool(set(c["base"]) & set(c["child"]))
