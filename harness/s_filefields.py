"""
stream `filefields` (C05): FilenameField and UrlField, the two field classes whose constraints are about the outside world
(the file system, URL syntax), compared with FileFields.v (`run_filefields`).  The file system, the os.path algebra and
urlparse are not code of /repo: every case carries the table of the os.path / urllib answers (obtained by calling them
DIRECTLY, never through cincoconfig, while the case's directory layout exists) for the paths the model may ask about; a
missing row makes the model answer Unmodelled, which shows up as a disagreement.  The temporary root is written "/R" in
cases and observations.  The direct oracle (independent of the model) is kept: exactness against a re-statement from the
layout, idempotence, determinism, the on-disk round trip -- with the process working in a directory DIFFERENT from the
field's start directory and decoy entries of the same names in it.
"""
import os
import shutil
import tempfile

import re

from common import gal, g_str, g_bool, g_list, g_opt, g_z

# inherited StringField options (the region of the open finding F56 when combined with a start directory)
SOPTS = [("case", "lower"), ("case", "upper"), ("min", 3), ("max", 12), ("regex", "^[a-z./]+$"), ("regex", "txt"), ("regex", "sub|a"),
         ("choices", ["a.txt", "sub", "sub/b.txt", "missing.txt"])]

NAME = "filefields"
IMPORTS = "From Cinco Require Import Base Str Fields FileFields."
RUN = "run_filefields"
CASE_TYPE = "ffcase"

EXISTS = [None, True, False, "dir", "file"]
NAMES = ["a.txt", "sub/b.txt", "sub", "missing.txt", "nodir/x", "", "  a.txt  ", "decoy-only.txt", "both.txt", "ABS:a.txt", "ABS:missing",
         ".", "sub/", "sub/../a.txt", "./a.txt", "../start/a.txt", "../cwd/decoy-only.txt", "a.txt/", "ABS:sub", "ABS:sub/b.txt",
         # leading dots and slashes are part of the name: "../x.json" is not "x.json", ".hidden.json" is not "hidden.json"
         "../x.json", ".hidden.json", "..x.json", "./a", "././a", ".../a", "x.json", "hidden.json", "a", "./", ".."]
# start directories given RELATIVE to the working directory of the process (root/cwd): "REL:<text as given to the field>"
RELSD = ["REL:../start", "REL:./sub", "REL:sub", "REL:../start/sub", "REL:../x", "REL:.", "REL:..", "REL:../Up/../start"]


def _sd(root, c):
    sd = c.get("startdir")
    if sd is None:
        return None
    return sd[4:] if sd.startswith("REL:") else os.path.join(root, sd)
URLS = ["http://example.com", "https://example.com/a?b=c#d", "ftp://host/file", "example.com", "/relative/path", "http://", "://x",
        "mailto:user@example.com", "", "  http://example.com  ", "HTTP://EXAMPLE.COM", "http://[::1]:80/", "http://exa mple.com", "file:///etc/hosts"]


def generate(rng, tier):
    cases = []
    for ex in EXISTS:
        for sd in (None, "start"):
            for name in NAMES:
                cases.append({"cls": "file", "exists": ex, "startdir": sd, "value": name, "strip": name != name.strip(), "src": "matrix"})
    for sd in RELSD:
        for name in ("a.txt", "sub/b.txt", "b.txt", "sub", "missing.txt", "decoy-only.txt", "../start/a.txt", "./a.txt", "ABS:a.txt", "", ".hidden.json"):
            for ex in EXISTS:
                cases.append({"cls": "file", "exists": ex, "startdir": sd, "value": name, "strip": False, "src": "matrix"})
    # FilenameField with an inherited string option: each option x start directory unset / set x relative / absolute names x modes
    for so in SOPTS:
        for sd in (None, "start", "Up"):
            for name in ("a.txt", "sub/b.txt", "sub", "missing.txt", "ABS:a.txt", "ABS:sub", "A.TXT", ""):
                for ex in EXISTS:
                    cases.append({"cls": "file", "exists": ex, "startdir": sd, "value": name, "strip": False, "sopt": so, "src": "matrix"})
    for u in URLS:
        for req in (False, True):
            cases.append({"cls": "url", "value": u, "required": req, "strip": u != u.strip(), "src": "matrix"})
    for rx in ("example", "^http", "com$", "ftp|https", "(?i)http"):
        for u in URLS:
            cases.append({"cls": "url", "value": u, "required": False, "strip": False, "sopt": ("regex", rx), "src": "matrix"})
    for v in (None, 5, b"a.txt", ["a.txt"], True):
        cases.append({"cls": "file", "exists": None, "startdir": "start", "value": v, "strip": False, "src": "matrix"})
        cases.append({"cls": "url", "value": v, "required": False, "strip": False, "src": "matrix"})
    for _ in range(100 if tier == "quick" else 3000):
        if rng.random() < 0.7:
            cases.append({"cls": "file", "exists": rng.choice(EXISTS), "startdir": rng.choice([None, "start", "start/sub", "Up"] + RELSD),
                          "value": rng.choice(NAMES + ["A.TXT", "Sub"]), "strip": rng.random() < 0.3,
                          "sopt": rng.choice(SOPTS) if rng.random() < 0.35 else None, "src": "random"})
        else:
            cases.append({"cls": "url", "value": rng.choice(URLS), "required": rng.random() < 0.3, "strip": rng.random() < 0.3, "src": "random"})
    return cases


def gcase(c):
    t = c["_tab"]
    so = c.get("sopt") or (None, None)
    sopts = "(mk_sopts %s %s %s %s %s %s)" % (
        g_opt(so[1] if so[0] == "min" else None, g_z), g_opt(so[1] if so[0] == "max" else None, g_z),
        g_opt(so[1] if so[0] == "regex" else None, g_str), g_list(so[1] if so[0] == "choices" else [], g_str),
        {"lower": "CLower", "upper": "CUpper"}.get(so[1] if so[0] == "case" else None, "CNone"), "SWs" if c["strip"] else "SNone")
    if c["cls"] == "file":
        mode = {None: "ENone", True: "ETrue", False: "EFalse", "dir": "EDir", "file": "EFile"}[c["exists"]]
        f = "(FFile false %s %s %s)" % (sopts, mode, g_opt(t["startdir"], g_str))
    else:
        f = "(FUrl %s %s)" % (g_bool(c["required"]), sopts)
    rows = g_list(t["rows"], lambda r: "(%s,(%s,%s,%s,%s,%s,%s))" % (g_str(r[0]), g_bool(r[1]), g_str(r[2]), g_str(r[3]),
                                                                     g_bool(r[4]), g_bool(r[5]), g_bool(r[6])))
    joins = g_list(t["joins"], lambda r: "(%s,%s,%s)" % (g_str(r[0]), g_str(r[1]), g_str(r[2])))
    urls = g_list(t["urls"], lambda r: "(%s,%s)" % (g_str(r[0]), g_opt(r[1], g_str)))
    rx = g_list(t["rx"], lambda r: "(%s,%s,%s)" % (g_str(r[0]), g_str(r[1]), g_bool(r[2])))
    return "(%s, %s, %s, %s, %s, %s)" % (f, rx, rows, joins, urls, gal(t["x"]))


def _cz(root, s):
    """the temporary root written canonically: same length (length options see it), lower case with an upper-case twin"""
    canon = "/r" + "0" * (len(root) - 2)
    return s.replace(root, canon).replace(root.upper(), canon.upper())


def _tables(c, root, v, sd):
    """what os.path / urlparse answer, asked directly, for every path / text the model may ask about"""
    cz = lambda s: _cz(root, s)   # noqa: E731
    so = c.get("sopt") or (None, None)
    cands = []

    depth = {}

    def add(s, d=0):
        if isinstance(s, str) and (s != "" or c["cls"] == "url") and s not in cands:
            cands.append(s)
            depth[s] = d
            if so[0] == "case":        # the pipeline's case transform is applied to the text, and again to a stored path
                for t in (s.lower(), s.upper()):
                    if t not in cands:
                        cands.append(t)
                        depth[t] = d
    if isinstance(v, str):
        add(v)
        add(v.strip())
    rows, joins, urls = [], [], []
    i = 0
    while i < len(cands) and i < 80:
        pth = cands[i]
        i += 1
        if c["cls"] == "file":
            e, a = os.path.expanduser(pth), os.path.abspath(pth)
            rows.append((cz(pth), os.path.isabs(pth), cz(e), cz(a), os.path.exists(pth), os.path.isdir(pth), os.path.isfile(pth)))
            if sd and not os.path.isabs(pth) and depth.get(pth, 0) <= 1:
                # (a relative start directory gives a relative join: the chain of re-joins is cut after two levels, which is
                #  more than any resolution of the value and of its stored form asks for)
                j = os.path.join(sd, pth)
                joins.append((cz(sd), cz(pth), cz(j)))
                d1 = depth.get(pth, 0) + 1
                add(j, d1)
                add(os.path.expanduser(j), d1)
                add(os.path.abspath(os.path.expanduser(j)), d1)
                add(os.path.abspath(os.path.expanduser(j)).strip(), d1)
        else:
            from urllib.parse import urlparse
            try:
                urls.append((pth, urlparse(pth).scheme))
            except Exception:  # noqa
                urls.append((pth, None))
    rx = []
    if so[0] == "regex":
        pat = re.compile(so[1])
        rx = [(so[1], cz(t), bool(pat.match(t))) for t in cands + ([""] if "" not in cands else [])]
    return {"rows": rows, "joins": joins, "urls": urls, "rx": rx, "x": cz(v) if isinstance(v, str) else v,
            "startdir": cz(sd) if sd else sd}


def _layout(root):
    """start/ (the field's start directory) and cwd/ (where the process works) hold different entries under the same names"""
    for d in ("start/sub", "cwd/sub", "home", "Up/sub", "start/..."):
        os.makedirs(os.path.join(root, d))
    for rel in ("start/a.txt", "start/sub/b.txt", "start/both.txt", "cwd/decoy-only.txt", "cwd/both.txt", "cwd/missing.txt", "home/home.txt",
                "Up/a.txt", "Up/sub/b.txt", "x.json", "start/.hidden.json", "start/..x.json", "start/a", "start/.../a", "cwd/sub/b.txt"):
        with open(os.path.join(root, rel), "w") as fp:
            fp.write(rel)


def impl(c):
    from cincoconfig import Schema, FilenameField, UrlField
    root = os.path.realpath(tempfile.mkdtemp(prefix="verif_ff_"))
    out = {"root": root}
    cwd = os.getcwd()
    home = os.environ.get("HOME")
    try:
        _layout(root)
        os.chdir(os.path.join(root, "cwd"))
        os.environ["HOME"] = os.path.join(root, "home")
        v = c["value"]
        if isinstance(v, str) and v.startswith("ABS:"):
            v = os.path.join(root, "start", v[4:])
        out["value"] = v
        c["_tab"] = _tables(c, root, v, None if c["cls"] != "file" else _sd(root, c))
        if c["cls"] == "file":
            sd = _sd(root, c)
            so = c.get("sopt")
            kw = {} if not so else {{"case": "transform_case", "min": "min_len", "max": "max_len", "regex": "regex", "choices": "choices"}[so[0]]: so[1]}
            mk = lambda: FilenameField(exists=c["exists"], startdir=sd, transform_strip=True if c["strip"] else None, **kw)   # noqa: E731
            out["startdir"] = sd
        else:
            so = c.get("sopt")
            kw = {} if not so else {"regex": so[1]}
            mk = lambda: UrlField(required=c["required"], transform_strip=True if c["strip"] else None, **kw)   # noqa: E731
        s = Schema()
        s.f = mk()
        cfg = s()
        f = s._fields["f"]

        def run(field, x):
            try:
                return ("ok", field.validate(cfg, x))
            except ValueError as e:
                return ("rejected", type(e).__name__)
            except Exception as e:  # noqa
                return ("raised", type(e).__name__)
        r1 = run(f, v)
        out["first"] = r1
        out["again_fresh"] = run(mk(), v)
        if r1[0] == "ok" and r1[1] is not None:
            out["second"] = run(f, r1[1])
            try:
                b = f.to_basic(cfg, r1[1])
                p = f.to_python(cfg, b)
                out["roundtrip"] = run(f, p)
                out["basic_plain"] = isinstance(b, str)
            except Exception as e:  # noqa
                out["roundtrip"] = ("raised", type(e).__name__)
    except Exception as e:  # noqa
        out["setup"] = "%s: %s" % (type(e).__name__, e)
    finally:
        os.chdir(cwd)
        if home is None:
            os.environ.pop("HOME", None)
        else:
            os.environ["HOME"] = home
        shutil.rmtree(root, ignore_errors=True)
    c["_out"] = out
    if "_tab" not in c:
        c["_tab"] = {"rows": [], "joins": [], "urls": [], "rx": [], "x": None, "startdir": None}

    def oc(r):
        if r is None or r[0] != "ok":
            return "err"
        return ("ok", _cz(out["root"], r[1]) if isinstance(r[1], str) else r[1])
    first = out.get("first")
    if first is not None and first[0] == "ok" and first[1] is not None:
        return (oc(first), oc(out.get("second")), oc(out.get("roundtrip")))
    return (oc(first),)


def _expect_file(c, obs):
    """independent re-statement: ("ok", stored value) / "rejected" / None (no opinion)"""
    v = obs["value"]
    if v is None:
        return ("ok", None)
    if not isinstance(v, str):
        return "rejected"
    if c["strip"]:
        v = v.strip()
    so = c.get("sopt") or (None, None)       # the inherited options govern the text as typed (strip, case, then the checks)
    if so[0] == "case":
        v = v.lower() if so[1] == "lower" else v.upper()
    if (so[0] == "min" and len(v) < so[1]) or (so[0] == "max" and len(v) > so[1]) or (so[0] == "regex" and not re.match(so[1], v)) \
            or (so[0] == "choices" and v not in so[1]):
        return "rejected"
    if v == "":
        return ("ok", "")
    root = obs["root"]
    full = v
    if not os.path.isabs(v) and obs.get("startdir"):
        sd = obs["startdir"]
        if not os.path.isabs(sd):           # a relative start directory is relative to the working directory of the process
            sd = os.path.join(root, "cwd", sd)
        full = os.path.normpath(os.path.join(sd, v))
    # what exists, decided from the layout (the directory tree is gone by now): relative to start/ or to cwd/
    base = full if os.path.isabs(full) else os.path.join(root, "cwd", full)
    rel = os.path.relpath(os.path.normpath(base), root)
    if rel == ".." or rel.startswith("../"):
        # the path leaves the scratch tree (e.g. start directory ".." with the value ".."): what exists out there (/tmp, /) is not
        # part of the layout this oracle knows -- no opinion on the existence mode; the model/implementation comparison, which
        # works from os.path's own answers, still covers the case
        return None if c["exists"] is not None else ("ok", full)
    files = {"start/a.txt", "start/sub/b.txt", "start/both.txt", "cwd/decoy-only.txt", "cwd/both.txt", "cwd/missing.txt", "home/home.txt",
             "Up/a.txt", "Up/sub/b.txt", "x.json", "start/.hidden.json", "start/..x.json", "start/a", "start/.../a", "cwd/sub/b.txt"}
    dirs = {"start", "start/sub", "cwd", "cwd/sub", "home", ".", "Up", "Up/sub", "start/..."}
    is_file, is_dir = rel in files, rel in dirs
    if base.endswith("/") and is_file:
        is_file = False
    ex = c["exists"]
    exists = is_file or is_dir
    ok = (ex is None or (ex is True and exists) or (ex is False and not exists) or (ex == "dir" and is_dir) or (ex == "file" and is_file))
    return ("ok", full) if ok else "rejected"


def oracle(c, obs):
    obs = c["_out"]
    what = "%s %r" % ("FilenameField(exists=%r, startdir=%r)" % (c.get("exists"), c.get("startdir")) if c["cls"] == "file"
                      else "UrlField(required=%r)" % c.get("required"), c["value"])
    if "setup" in obs:
        return ["%s: setup failed: %s" % (what, obs["setup"])]
    bad = []
    r1 = obs["first"]
    if r1[0] == "raised":
        bad.append("%s: rejected with %s, not a ValueError" % (what, r1[1]))
    if obs["again_fresh"] != r1:
        bad.append("%s: determinism: a second field object with the same options gives %r, the first %r" % (what, obs["again_fresh"], r1))
    if r1[0] == "ok" and r1[1] is not None:
        if obs.get("second") != r1:
            bad.append("%s: idem: the accepted result %r validates again to %r" % (what, r1[1], obs.get("second")))
        if obs.get("roundtrip") != r1:
            bad.append("%s: roundtrip: to_python(to_basic(v)) validates to %r, v is %r" % (what, obs.get("roundtrip"), r1[1]))
    if c["cls"] == "file":
        exp = _expect_file(c, obs)
        if exp == "rejected" and r1[0] == "ok":
            bad.append("%s: exact: a value that violates the declared constraints is accepted (stored %r)" % (what, r1[1]))
        elif isinstance(exp, tuple) and r1[0] != "ok":
            bad.append("%s: exact: a value that meets the declared constraints is rejected" % what)
        elif isinstance(exp, tuple) and r1 != exp:
            bad.append("%s: exact: stored %r, the normal form is %r" % (what, r1[1], exp[1]))
    else:
        v = obs["value"]
        if isinstance(v, str):
            from urllib.parse import urlparse
            t = v.strip() if c["strip"] else v
            try:
                pr = urlparse(t)
                good = bool(pr.scheme)          # the field's documented rule: a valid URL that contains a scheme
                if c.get("sopt") and c["sopt"][0] == "regex" and re.compile(c["sopt"][1]).match(t) is None:
                    good = False                # the inherited pattern: re.match, anchored at the start only
            except ValueError:
                good = False
            if good and r1[0] != "ok":
                bad.append("%s: exact: a URL with a scheme is rejected" % what)
            if not good and r1[0] == "ok" and t != "":
                bad.append("%s: exact: a value without a scheme (or one the inherited pattern does not match) is accepted" % what)
        elif v is not None and r1[0] == "ok":
            bad.append("%s: exact: a non-string is accepted" % what)
    return bad


def classify(c, msg):
    """F56 (open): start directory + inherited string option + a relative name: the stored resolved path is changed or
    refused by the options when validated again.  Only idempotence / round-trip messages, only in that region."""
    if c["cls"] != "file" or not c.get("startdir"):
        return None
    if not (c.get("sopt") or c.get("strip")):
        return None
    v = c["value"]
    if not isinstance(v, str) or v.startswith("ABS:") or os.path.isabs(v.strip()):
        return None
    if ": idem: " in msg or ": roundtrip: " in msg:
        return "F56"
    return None


def tags(c, obs):
    obs = c["_out"]
    return {"cls:" + c["cls"], "exists:%r" % (c.get("exists"),), "startdir:%r" % (c.get("startdir") is not None,),
            "sopt:%s" % ((c.get("sopt") or ("none",))[0],),
            "result:" + str(obs.get("first", ("?",))[0])}


def nontrivial(c, obs):
    return isinstance(c["value"], str) and c["value"] != ""
