from registry import KERNEL, TIE, HARNESS
PROP = "C09"
SPEC = {
    "manifest": {"technique": "tbd", "text": "tbd", "note": "tbd", "design_ref": "DESIGN.md section 6 C09"},
    "streams": ["challenge"],
    "witnesses": [],
    "rule": "tbd",
    "trusted_base": [KERNEL, TIE, HARNESS],
    "assumptions": [],
}
