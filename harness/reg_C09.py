from registry import KERNEL, TIE, HARNESS

PROP = "C09"
SPEC = {
    "manifest": {
        "technique": ("machine-checked proof in Coq (ChallengeField/DigestValue over an abstract hash, an explicit os.urandom "
                      "stream, abstract utf-8 and base64 with their laws as premises) + bit-for-bit model/implementation "
                      "correspondence by vm_compute with digests recomputed by hashlib directly"),
        "text": ("Twenty-one theorems in coq/theories/Challenge*.v for all six algorithms, all secrets and all random streams: "
                 "assigning p stores exactly DigestValue(salt, H(salt ++ bytes p), alg) where salt is the next digest_size bytes "
                 "of the urandom stream, which advances by exactly that; the salt has the digest's length; a challenge succeeds "
                 "exactly when the candidate hashes to the stored digest, hence p always verifies and (for a collision-free H, "
                 "with salt ++ p = salt ++ q -> p = q proved, and utf-8 injectivity for text) every other secret fails; two "
                 "assignments use consecutive draws, so distinct draws give distinct salts; to_python(to_basic dv) = dv and a "
                 "save/load into a fresh configuration keeps salt and digest, so every challenge answers as before; a plaintext "
                 "string found in a file is hashed with a fresh salt on load; malformed salt/digest maps are rejected; what is "
                 "kept (state, on-disk map, str()) is a function of (alg, salt, H(salt ++ bytes p)) only. The model is tied to "
                 "secure_field.py by running the same operation sequences on a real Schema/Config under a recorded os.urandom, "
                 "through json/yaml/bson/xml/pickle, and comparing every observation inside Coq; the model's hash is a per-case "
                 "table filled from hashlib directly, its utf-8 and base64 are concrete Gallina functions, for which the two codec "
                 "premises are proved outright (utf8_enc injective; b64_decode(b64_encode b) = b on bytes, b64_decode being "
                 "CPython's lenient decoder), so save/load keeps salt and digest for any hash function."),
        "note": ("Trusted: Coq kernel + vm_compute; the correspondence harness; hashlib/str.encode/base64 enter the theorems as "
                 "universally quantified functions with named premises (the codec premises are additionally discharged for the "
                 "concrete Gallina codecs the correspondence compares with CPython); 'every other secret fails' is proved under the "
                 "idealisation H a x = H a y -> x = y (collision freedom), and exactly (no idealisation) as 'fails iff the "
                 "digests differ'. No axioms (Print Assumptions: closed under the global context)."),
        "design_ref": "DESIGN.md section 6 C09"},
    "streams": ["challenge"],
    "witnesses": [],
    "rule": ("deterministic matrix: 6 algorithms x 6 plaintext kinds (empty, ASCII, Unicode, 200 chars, bytes, non-UTF-8 bytes) "
             "x default {none, plaintext, digest value}, each a history new / assign p / to_basic / str / challenge p and mutated "
             "q / assign p again / save+load through json, yaml, bson, xml, pickle with challenges after each / hand-written "
             "plaintext documents in every format; plus per algorithm the shapes of _validate, to_python (14 malformed maps), "
             "create with given salts, parse, invalid defaults, required fields; then seeded random histories (3-9 operations) "
             "over the same alphabet with lenient/invalid base64, foreign-algorithm digest values, lone surrogates; plus 28 secrets with "
             "leading / trailing / inner / only whitespace (space, tab, newline, CRLF, NBSP, ideographic space, NEL, LS, BOM, ZWSP), "
             "NUL and control characters and case variants on every route (assign, default, to_python, load by tree and by every "
             "format measured to carry the text unchanged), each challenged with the exact text and with its stripped / re-cased / "
             "re-spaced variants; plus, per algorithm, secrets stored by every route and challenged with the same text plus lone "
             "surrogates (start, middle, end; high and low; str and bytes routes) which must fail with a ValueError, and the "
             "(stored, challenge) pairs a replace / surrogateescape / surrogatepass / ascii-ignore error handler would confuse. "
             "After every operation that stores a value (new / assign / load / save+load) the history challenges with material derived "
             "from the stored value -- always the raw digest bytes, in rotation the salt, base64 / hex / printed salt:digest / repr / "
             "{salt,digest} map forms, halves, reversals, a re-hash, as bytes and as text, and the value object itself -- all of "
             "which must fail. Long deterministic histories are cut into pieces of <= 10 operations (+ the derived challenges), each starting from a fresh configuration. "
             "non-trivial = some operation produced a digest value; distinct = distinct (field, default, stream, history)"),
    "trusted_base": [KERNEL, "Print Assumptions: closed under the global context (no axioms)", TIE, HARNESS,
                     "modelled, not verified: hashlib as a function H with |H a x| = digest_size a (theorems) and as a per-case "
                     "table of digests obtained from hashlib directly (correspondence); os.urandom as a recorded byte stream; "
                     "str.encode and base64 as functions with the premises utf8 injective and b64dec(b64enc b) = b (general theorems); "
                     "both premises are proved for the concrete Gallina codecs (C09_utf8_injective, C09_b64_roundtrip), whose "
                     "agreement with CPython's str.encode / base64 is checked on every case, not proved",
                     "idealisation (premise of C09_challenge_other_fails, C09_challenge_other_str_fails, "
                     "C09_assign_then_challenge): the hash is collision free, H a x = H a y -> x = y",
                     "the five codecs are trusted to return the {salt, digest} map of two ASCII strings they were given "
                     "(exercised for real in every saveload/load case)"],
    "assumptions": ["collision freedom of the hash is an idealisation; without it the exact statement is C09_challenge_exact "
                    "(a candidate verifies iff it hashes, under the stored salt, to the stored digest)",
                    "'fresh random salt' means: one os.urandom(digest_size) draw per hashing, never reused; that two draws "
                    "differ is a property of the operating system's generator (premise s1 <> s2 of C09_salts_differ)",
                    "a DigestValue of another algorithm than the field's is accepted unchanged by assignment and comes back "
                    "under the field's algorithm after save/load (saveload_foreign_algorithm); the round-trip theorems "
                    "require the stored algorithm to be the field's",
                    "ChallengeField with an environment variable (finding F20, property C14) is outside this stream"],
}
