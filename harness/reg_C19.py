from registry import KERNEL, TIE, HARNESS

PROP = "C19"
SPEC = {
    "manifest": {
        "technique": ("machine-checked proof in Coq (frame invariant of the serialisation pipeline over all configurations, "
                      "fault schedules and file systems) + deterministic fault-point enumeration against the real "
                      "Config.save on real files, compared with the model by vm_compute"),
        "text": ("Eleven theorems over the statement-by-statement model of Config.save / dumps / to_tree / load "
                 "(coq/theories/Save.v: format lookup, then every field's to_basic in order with key-file opening -- which "
                 "may create the key file -- and encryption for secrets, nested and listed configurations, then the "
                 "formatter, and only then open(dest,'wb') + write). For all file systems, configurations, outcome "
                 "assignments (which step fails), destinations and formats: a save that fails leaves every existing file "
                 "byte-identical, touches no path that is not a key file of one of the secrets and opens nothing else for "
                 "writing; an unknown format touches nothing at all; a save that returns wrote exactly the bytes dumps "
                 "produced as its last write and load hands the decoder those bytes (so a decoder inverting the formatter "
                 "returns the serialised tree); a streaming variant that opens first is shown to lose the file; over any "
                 "history of saves of one configuration object with files changed by others in between, a file keeps "
                 "its bytes unless someone else changed it or a save that returned had it as destination. Tied to "
                 "core.py by stream savefaults: every injectable fault point enumerated on a destination that holds a "
                 "previous document, all five formats, with every open-for-writing audited, and histories of several saves "
                 "on ONE configuration object (fault, repair, save, key file rotated / destination changed by someone "
                 "else, save) where every successful save is loaded into a brand-new configuration and compared with an "
                 "independent serialisation under the key files then on disk."),
        "note": ("Trusted: Coq kernel + vm_compute; the correspondence harness; the formatter and per-field encoders are "
                 "abstract outcomes (their bytes are C02/C04's business); a crash inside the final write is outside the "
                 "property. No axioms (Print Assumptions: closed under the global context)."),
        "design_ref": "DESIGN.md section 6 C19"},
    "streams": ["savefaults"],
    "witnesses": ["F58"],
    "rule": ("deterministic matrix, identical on every run: for each of the 5 formats, a schema with plain fields + xor/aes "
             "secrets + a nested sub-configuration + a list of two configurations + an untyped field + a virtual field, "
             "destination holding a previous valid document, and ONE case per injectable fault point: to_basic of each "
             "field position raising (RuntimeError, and ValidationError with its own path), the cipher raising for each "
             "secret, key file short/empty/long/in a missing directory/missing-and-created (root and sub-configuration "
             "key files, also under ~), each combined with an earlier and a later field fault, formatter raising, values "
             "outside the format's domain (bytes under JSON/XML, 2^70 under BSON, NUL under XML), unwritable "
             "destination, absent destination, ~ destination, N = 0..3 plain fields with a fault at each i, plus the "
             "unknown format name on top of every other fault kind; 11 histories per format on one configuration object "
             "(key file short/empty/long -> repaired -> rotated twice; good -> damaged -> restored -> rotated; repaired "
             "key + later field fault -> rotated; field fault -> good -> destination overwritten externally -> cipher "
             "fault -> good; key file created -> deleted -> created again, destination deleted -> formatter fault -> "
             "good; key file in a missing directory; several destinations; formats alternating; sub-configuration key "
             "file repaired and rotated; the ROOT's key file NAME re-assigned between saves of one object (K1 -> K2 -> K1, "
             "to a missing file that gets created, to one under ~, to a short / empty / missing-directory one where the save "
             "must fail -- also when only nested secrets are set -- and back) with secrets at the root, in a "
             "sub-configuration, two levels deep, in list items and in a sub-configuration of a list item, the list "
             "items kept alive across saves, reload by a fresh configuration naming the CURRENT key file); then seeded random schemas (depth <= 2) x random 0-2 faults x random key-file "
             "states, and random histories of 2-6 steps (saves with fresh faults, external writes/deletes of key files "
             "and destinations); the round-trip matrix of the success clause: every kind of plain Python value an untyped "
             "field accepts (tuples, nested tuples, tuples inside lists/dicts, int dict keys, sets, frozensets, bytes, "
             "bytearray, 2^70, inf, complex, NUL / non-ASCII strings, nested maps) x AnyField / untyped ListField / "
             "untyped DictField x 5 formats -- the save fails exactly where the format's dumps refuses the value "
             "(measured table OUTSIDE) and otherwise the file must load into a fresh configuration holding an equal "
             "value of the same types (only JSON/BSON tuple -> list allowed) -- and secrets of UTF-8 length "
             "0,1,15,16,17,31,32,33,48 (2-byte characters) x aes/best/xor at the root, in a sub-configuration, two "
             "levels deep and in list items, with an existing and a freshly created key file; typed field kinds, each at "
             "the root, in a sub-configuration, two levels deep and in list items, x 5 formats: BytesField base64 and hex "
             "with values whose base64 text has '+', '/', '=' padding of length 0/1/2, empty bytes, typed lists and dicts of "
             "them; StringField with leading / trailing / inner blanks, tabs, newlines, blank-only, empty, no-break spaces, "
             "CR (not under XML), typed lists and dicts of them; FloatField inf / -inf / nan / -0.0 / 1e300 / 5e-324 / 0.1 / "
             "3.0, 21 values with 7..17 significant digits and large/small exponents whose repr differs from the %g / %f / "
             "%.6f / %.12g renderings (pi, 1234567.891, 0.1+0.2, 1e-7+1e-13, 1/3, max, min normal, 1e22, 1e23, 2^53+1 ...) "
             "and lists of them (sign of zero compared); for every int/str/bool/float/bytes kind the variant 'the field "
             "has that value as its DEFAULT and was explicitly assigned None before the save' (the fresh configuration "
             "must hold None, not the default); map keys that are not XML names (blank inside, leading digit, empty, tab, "
             "newline, ':', leading '-', '<', '>' (F58), '&', quote, '/', leading blank, all digits, '=', two keys differing only in "
             "blanks) next to keys that are (non-ASCII, '.', 'xml' prefix, '_') in AnyField / untyped list / untyped dict "
             "/ typed DictField values x 5 formats: either the save fails and the destination is unchanged (XML) or the "
             "file reloads into an equal map -- never a successful save that reloads unequal; BoolField True/False next to IntField 1/0/-7/2^40; None in "
             "every field type; empty typed list/dict -- reload into a fresh configuration, values compared with exact "
             "types. non-trivial = the destination existed before or a fault was injected; "
             "distinct = distinct (schema, values, faults, world)"),
    "trusted_base": [KERNEL, "Print Assumptions: closed under the global context (no axioms)", TIE, HARNESS,
                     "modelled, not verified: the file system as a map path -> bytes with a set of unwritable paths; "
                     "os.urandom(32) as a recorded stream; per-field encoders, cipher calls and the formatter as abstract "
                     "outcomes (the model is told whether they fail, and the bytes a successful formatter returns as a "
                     "SHA-1 of an independent dumps of a twin configuration)",
                     "which key file a secret resolves to is given to the model by the harness (nearest named ancestor; "
                     "resolution itself is C03)",
                     "interpreter facts used: open(p,'wb') truncates on open; the sys audit event 'open' fires for every "
                     "open attempt of builtins.open / io.open / os.open"],
    "assumptions": ["a crash inside the final file.write (after the open succeeded) is not covered, as in the property text",
                    "no key-file context is open when save is called, also after an earlier save failed inside one: every KeyFile "
                    "object is closed and holds no key between saves, so each save of a history starts from the file "
                    "system alone (the model threads only the world through `save`; the KeyFile machine is C07's "
                    "KeyFile.v). This assumption is CHECKED by the history cases: a key cached across saves shows as a "
                    "document that differs from an independent serialisation and does not load back",
                    "sensitive_mask / virtual=True variants of dumps, lists or dicts of SecureField items and IncludeField "
                    "are not in the modelled schemas (generators avoid them)",
                    "the reload comparison skips configurations whose sub-configuration names its own key file and holds a "
                    "secret (open finding F34 of C03); bytes-on-disk are still checked there",
                    "observed, not counted (outside the formats' representable domain: C02/C04 speak of string-keyed maps, XML keys "
                    "are XML names): an untyped field holding a map with non-string keys saves under JSON and BSON and loads "
                    "back with string keys ({1: 'a'} -> {'1': 'a'}; True -> 'true'/'True', None -> 'null'/'None'), and under "
                    "XML {None: 1} saves and loads back as {}. Generated untyped maps have string keys under json/bson/xml; "
                    "int keys are kept under yaml/pickle, where they round-trip (NOT_REPRESENTABLE in s_savefaults.py)",
                    "observed, not counted: XML reads '\\r\\n' and '\\r' in a string back as '\\n' (line-end normalisation of XML; "
                    "CR strings are generated for the other four formats only); a typed ListField / DictField that was never "
                    "set holds None and loads back as [] / {} in every format (not generated). Every other typed kind of "
                    "the matrix round-trips exactly in all five formats on the unchanged tree, nan, inf and -0.0 included",
                    "observed, not counted: YAML writes map keys sorted, so the ORDER of a map's keys changes on reload (maps are "
                    "compared as Python dicts: same keys with the same types, same values, any order)",
                    "an empty SecureField value '' is stored as null and loads back as None: treated as equal",
                    "load_after_save is stated over a decoder assumed to invert the formatter (C04); equality of the "
                    "reloaded configuration is C02 and is only sampled here (oracle)"],
}
