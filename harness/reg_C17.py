from registry import KERNEL, TIE, HARNESS
PROP = "C17"
SPEC = {
    "manifest": {"technique": "wip", "text": "wip", "note": "wip", "design_ref": "DESIGN.md section 6 C17"},
    "streams": ["proxyops"],
    "witnesses": ["F6", "F7", "F8", "F31", "F43"],
    "rule": "wip",
    "trusted_base": [KERNEL, TIE, HARNESS],
    "assumptions": [],
}
