from registry import KERNEL, TIE, HARNESS
PROP = "C17"
SPEC = {
    "manifest": {
        "technique": ("machine-checked proof in Coq (refinement of ListProxy/DictProxy to the CPython builtin list/dict over "
                      "all operation histories, invariants, kernel-checked override tables) + three-way differential "
                      "correspondence (real proxy / real builtin fed normalised items / model) evaluated by vm_compute"),
        "text": ("Seventeen theorems in coq/theories/ListModel*.v and DictModel*.v for every item/key/value validator V "
                 "(any function), every state and every finite history: (1) the override tables contain no entry point "
                 "that inserts caller-supplied items or must return a typed container and resolves to the builtin slot, "
                 "and every such operation of the alphabet is dispatched to the Python override; (2) whenever every "
                 "inserted item is accepted, a ListProxy/DictProxy step equals the builtin list/dict step on the "
                 "operation with inserted items replaced by their normal forms (for dicts: outside the boolean region kw_clash of "
                 "open finding F51 - update(**kw) with a keyword named iterable/self - where the full statement is "
                 "refuted by a kernel-checked witness) - same contents, order, length and return "
                 "value, for every iterable kind (list, tuple, iterator, proxy of the same field, proxy of another field, "
                 "the container itself) and update call form (dict, pairs, iterator, non-dict mapping, compatible proxy, "
                 "other proxy, keywords) - lifted to histories by induction over fold_left; (3) given V idempotent on its "
                 "outputs, every held item is a fixed point of V after any history, accepted or refused; (4) copy and + "
                 "return typed containers of valid items, += and |= return the container itself; (5) the fast paths that "
                 "skip re-validation equal the validating paths on valid contents; (6) a refused single-item operation "
                 "leaves the container unchanged. The builtin side (index normalisation, insert clamping, slice.indices, "
                 "extended-slice length check, stable sort, insertion-ordered update keeping key positions, LIFO popitem, "
                 "setdefault, pop with default, == across bool/int/float) and the proxy side are tied to CPython and to "
                 "list_field.py / dict_field.py by running the same histories on a real ListProxy/DictProxy taken from a "
                 "real configuration and on a real list/dict twin, and comparing every step inside Coq. The override "
                 "tables are re-measured on the running classes (MRO owner of each name in dir(list)/dir(dict)) on every "
                 "check and compared with the tables the theorems are about."),
        "note": ("Trusted: Coq kernel + vm_compute; the correspondence harness; the item validators enter the model as "
                 "finite per-case tables computed by calling the real item field's validate (the model has no field "
                 "logic); the CPython rule that an inherited C method never calls back into a Python override is "
                 "hard-coded in the dispatch and observed by the stream. No axioms."),
        "design_ref": "DESIGN.md section 6 C17"},
    "streams": ["proxyops"],
    "witnesses": ["F6", "F7", "F8", "F31", "F43"],
    "rule": ("deterministic matrix: every public operation of dir(list)/dir(dict) x {valid, normalisable, invalid} item x "
             "every iterable kind (incl. typed lists of another item field held by another and by the SAME configuration) / "
             "update / |= / constructor call form (dict, pairs as list of tuples / list of 2-lists / tuple of pairs / iterator / generator, UserDict, MappingProxyType, a Mapping "
             "subclass, a duck-typed keys()+__getitem__ object, compatible proxy, same field of another configuration, another "
             "field of another and of the same configuration, keywords) x containers of length 0/1/3 x 4 list item fields (IntField with "
             "bounds, required IntField, StringField lower+strip, BoolField) and 3 dict field pairs (str->int, int->str, "
             "any->bool), each followed by an observing copy; the F51 keyword-name cases (last operation of their history); "
             "the validating operations again on containers held by a sub-configuration and by a configuration inside a list, "
             "whole-value assignments with an unacceptable item / entry in every placement (a refusal is observed with its full "
             "reference path <configuration path>.<field>[<key as given>], compared with the model: C15_dict_* theorems); "
             "whole-value assignment (list / tuple / iterator, the typed list or dict of the same field of another configuration, of "
             "another field of the same and of another configuration - same class with stricter and looser constraints -, the "
             "value itself) followed by further insertions: the RECEIVING field validates every item; item fields that are not "
             "idempotent (validator= adding 40) and mutable items (typed dicts): per operation the number of item-validator "
             "calls is observed and compared with the model (copy and the fast paths validate nothing), results built from held "
             "items must hold the very same item objects as the builtin's shallow result; "
             "the reflected positions and their neighbours (list + proxy, tuple + proxy, sum([...], []), [*a, *p, *b], o == p, p < o, o < p, "
             "dict | proxy, {**a, **p, **b}): contents, order and result type as the builtin gives them; refused entries under keys "
             "of every hashable kind (tuples, bytes, None, bool, float, int, strings with % characters, very long keys); "
             "plus the two override-table cases; then seeded random "
             "histories (quick <= 14 ops, thorough <= 40 ops). A case is non-trivial when it performs at least one "
             "operation; distinct = distinct (field, initial value, history)"),
    "trusted_base": [KERNEL, "Print Assumptions: closed under the global context (no axioms)", TIE, HARNESS,
                     "modelled, not verified: item/key/value validators as finite tables computed from the real fields per "
                     "case; CPython dispatch rule (C-level list/dict methods do not call Python overrides); iterators and "
                     "generators as the sequence of values they yield"],
    "assumptions": ["open finding F51: DictProxy.update is not positional-only, so the keyword call form cannot carry the keys "
                    "'iterable' / 'self'; modelled faithfully (signature binding), C17_dict_refines_refuted + _partial",
                    "scalar item/key/value fields only (lists of configurations / schemas are C01/C15 business)",
                    "V idempotent on its outputs is a hypothesis of the all_valid / typed_results theorems (C05 proves it per field; "
                    "F13 is the one known field configuration where it fails)",
                    "sort is modelled on homogeneous int/bool or str contents only; ordering comparisons (<, <=) of whole "
                    "containers, pickling and repr are inherited unchanged and not in the operation alphabet",
                    "proxy * n, proxy[a:b], proxy | other return plain builtins (outside the property's typedness clause)",
                    "ListProxy.extend keeps the items accepted before a refused one (progressive append): modelled as is",
                    "the number of validator calls per operation (vcount) is a parallel reading of override_step, tied to the code by "
                    "counting the real calls; object identity of items is decided on the implementation only (oracle)"],
}
