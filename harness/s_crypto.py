"""
stream `crypto` (C08): KeyFile.encrypt / KeyFile.decrypt under every method, with a recorded os.urandom,
compared byte for byte with Crypto.v + Aes.v (`run_crypto_aes`).  The model computes everything itself:
IV layout, PKCS7, the CBC chaining AND the AES-256 block function (coq/theories/Aes.v, whose inverse law
is proved in AesLemmas.v); nothing but key, IV and text is given to it.  (Until the Gallina AES existed
the model was handed a per-case table of single-block results of `cryptography`'s AES-ECB:
`Crypto.run_crypto`, still in Crypto.v.)  The oracle keeps an independent CBC/PKCS7 recomputation over
`cryptography`'s AES-ECB and the openssl command line.
"""
import os
import shutil
import subprocess
import tempfile

from common import g_bytes, Broken

NAME = "crypto"
IMPORTS = "From Cinco Require Import Base Crypto Aes."
RUN = "run_crypto_aes"
CASE_TYPE = "(bytes * cop)"
GM = {"xor": "CXor", "aes": "CAes", "best": "CBest", "bogus": "CBogus"}
LENS = [0, 1, 15, 16, 17, 31, 32, 33, 47, 48, 64, 100]


def _ecb(key):
    from cryptography.hazmat.backends import default_backend
    from cryptography.hazmat.primitives.ciphers import Cipher, algorithms, modes
    return Cipher(algorithms.AES(key), modes.ECB(), backend=default_backend())


def block_e(key, b):
    e = _ecb(key).encryptor()
    return e.update(b) + e.finalize()


def block_d(key, b):
    d = _ecb(key).decryptor()
    return d.update(b) + d.finalize()


def rb(rng, n):
    return bytes(rng.getrandbits(8) for _ in range(n))


def enc_table(key, iv, pt):
    """the block encryptions an independent CBC/PKCS7 implementation performs"""
    k = 16 - len(pt) % 16
    padded = pt + bytes([k]) * k
    prev = iv
    table = []
    out = iv
    for i in range(0, len(padded), 16):
        x = bytes(a ^ b for a, b in zip(padded[i:i + 16], prev))
        c = block_e(key, x)
        table.append((x, c))
        prev = c
        out += c
    return table, out


def generate(rng, tier):
    cases = []
    keys = [bytes(range(32)), bytes([255]) * 32]
    # deterministic matrix: every method x every boundary length, encrypt and decrypt of the result
    for key in keys:
        for m in ("xor", "aes", "best", "bogus"):
            for n in LENS:
                pt = bytes((i * 7 + n) % 256 for i in range(n))
                iv = bytes((i * 13 + n) % 256 for i in range(16))
                cases.append({"op": "enc", "key": key, "method": m, "iv": iv, "pt": pt})
    nrand = 400 if tier == "quick" else 6000
    for _ in range(nrand):
        key = rb(rng, 32)
        m = rng.choice(["xor", "aes", "aes", "best", "bogus"])
        r = rng.random()
        if r < 0.5:
            n = rng.choice(LENS + [rng.randint(0, 200)])
            cases.append({"op": "enc", "key": key, "method": m, "iv": rb(rng, 16), "pt": rb(rng, n)})
        else:
            kind = rng.choice(["valid", "short", "misaligned", "badpad", "garbage", "otherkey", "empty"])
            pt = rb(rng, rng.choice(LENS))
            _, good = enc_table(key, rb(rng, 16), pt)
            if kind == "valid":
                ct = good
            elif kind == "short":
                ct = good[:rng.choice([0, 1, 15, 16, 17, 31])]
            elif kind == "misaligned":
                ct = good + rb(rng, rng.randint(1, 15))
            elif kind == "badpad":
                ct = good[:-1] + bytes([good[-1] ^ (1 + rng.getrandbits(7))])
            elif kind == "otherkey":
                _, ct = enc_table(rb(rng, 32), rb(rng, 16), pt)
            elif kind == "empty":
                ct = b""
            else:
                ct = rb(rng, rng.choice([32, 48, 64]))
            cases.append({"op": "dec", "key": key, "method": m, "ct": ct, "kind": kind})
    return cases


def gcase(c):
    if c["op"] == "enc":
        return "(%s, CEnc %s %s %s)" % (g_bytes(c["key"]), GM[c["method"]], g_bytes(c["iv"]), g_bytes(c["pt"]))
    return "(%s, CDec %s %s)" % (g_bytes(c["key"]), GM[c["method"]], g_bytes(c["ct"]))


def _errkind(e):
    from cincoconfig.encryption import EncryptionError
    if isinstance(e, EncryptionError):
        return "encryption"
    if isinstance(e, TypeError):
        return "type"
    if isinstance(e, ValueError):
        return "value"
    if isinstance(e, OSError):
        return "os"
    return "other"


def impl(c):
    import os as _os
    from cincoconfig.encryption import KeyFile, SecureValue
    d = tempfile.mkdtemp(prefix="verif_cr_")
    path = os.path.join(d, "key")
    with open(path, "wb") as fp:
        fp.write(c["key"])
    real = _os.urandom
    drawn = []

    def fake(n):
        if n != 16 or c["op"] != "enc":
            raise Broken("unexpected os.urandom(%d)" % n)
        drawn.append(n)
        return c["iv"]
    _os.urandom = fake
    try:
        if c["op"] == "enc":
            try:
                with KeyFile(path) as kf:
                    sv = kf.encrypt(c["pt"], method=c["method"])
                obs = (sv.method, bytes(sv.ciphertext))
                c["_sv"] = (sv.method, bytes(sv.ciphertext))
                # a new provider object / new session decrypts it
                with KeyFile(path) as kf2:
                    c["_back"] = bytes(kf2.decrypt(SecureValue(sv.method, sv.ciphertext)))
                c["_draws"] = len(drawn)
                # one provider object used several times, and a second object: every call stands on its own
                from cincoconfig.encryption import XorProvider, AesProvider
                cls = XorProvider if sv.method == "xor" else AesProvider
                p1, p2 = cls(c["key"]), cls(c["key"])
                e1 = bytes(p1.encrypt(c["pt"]))
                e2 = bytes(p1.encrypt(c["pt"]))
                c["_prov"] = {"first": e1 == bytes(sv.ciphertext), "second": e2 == bytes(sv.ciphertext),
                              "dec_same": bytes(p1.decrypt(e2)) == c["pt"], "dec_same_again": bytes(p1.decrypt(e1)) == c["pt"],
                              "dec_other": bytes(p2.decrypt(e2)) == c["pt"], "dec_other_again": bytes(p2.decrypt(e1)) == c["pt"]}
            except Broken:
                raise
            except Exception as e:  # noqa
                obs = ("err", _errkind(e))
        else:
            try:
                with KeyFile(path) as kf:
                    r = kf.decrypt(SecureValue(c["method"], c["ct"]))
                obs = ("ok", bytes(r))
            except Exception as e:  # noqa
                obs = ("err", _errkind(e))
    finally:
        _os.urandom = real
        shutil.rmtree(d, ignore_errors=True)
    return obs


_OPENSSL = shutil.which("openssl")


def openssl_decrypt(key, ct):
    p = subprocess.run([_OPENSSL, "enc", "-d", "-aes-256-cbc", "-K", key.hex(), "-iv", ct[:16].hex()],
                       input=ct[16:], capture_output=True, timeout=30)
    return p.stdout if p.returncode == 0 else None


_openssl_budget = [0]


def oracle(c, obs):
    """C08 evaluated directly on the implementation"""
    bad = []
    if c["op"] == "enc":
        if c["method"] == "bogus":
            if obs[0] != "err":
                bad.append("unknown method was not rejected: %r" % (obs[0],))
            return bad
        if obs[0] == "err":
            bad.append("encrypt failed: %r" % (obs,))
            return bad
        method, ct = obs
        if method not in ("aes", "xor"):
            bad.append("recorded method is not concrete: %r" % method)
        if c.get("_back") != c["pt"]:
            bad.append("decrypt(encrypt(p)) != p for method %s" % c["method"])
        wrong = sorted(k for k, v in (c.get("_prov") or {"missing": False}).items() if not v)
        if wrong:
            # (the recorded os.urandom hands out the same IV each time, so equal ciphertexts are expected here)
            bad.append("a %s provider object used more than once does not repeat what a fresh one does: %s" % (method, ", ".join(wrong)))
        if method == "xor":
            if ct != bytes(b ^ c["key"][i % 32] for i, b in enumerate(c["pt"])):
                bad.append("xor ciphertext is not data xor cycled key")
        else:
            if ct[:16] != c["iv"] or c.get("_draws") != 1:
                bad.append("AES value does not start with the fresh 16-byte IV (draws=%r)" % c.get("_draws"))
            if len(ct) != 16 + 16 * (len(c["pt"]) // 16 + 1):
                bad.append("AES value has the wrong length %d" % len(ct))
            if enc_table(c["key"], c["iv"], c["pt"])[1] != ct:
                bad.append("AES value differs from independent CBC/PKCS7 over the AES block primitive")
            if _OPENSSL and _openssl_budget[0] < c.get("_openssl_max", 25):
                _openssl_budget[0] += 1
                if openssl_decrypt(c["key"], ct) != c["pt"]:
                    bad.append("openssl enc -d -aes-256-cbc does not decrypt the value to the plaintext")
    else:
        ct = c["ct"]
        if c["method"] in ("aes", "best"):
            if (len(ct) < 32 or len(ct) % 16) and obs[0] != "err":
                bad.append("short / misaligned ciphertext returned a value")
            if c["kind"] == "valid" and obs[0] != "ok":
                bad.append("valid ciphertext rejected")
            # what an independent CBC / PKCS7 decryption (AES-ECB block primitive of `cryptography` + the padding rule) gives
            if len(ct) >= 32 and len(ct) % 16 == 0:
                prev, plain = ct[:16], b""
                for i in range(16, len(ct), 16):
                    blk = ct[i:i + 16]
                    plain += bytes(a ^ b for a, b in zip(block_d(c["key"], blk), prev))
                    prev = blk
                k = plain[-1]
                well_padded = 1 <= k <= 16 and plain[-k:] == bytes([k]) * k
                if not well_padded and obs[0] != "err":
                    bad.append("a ciphertext whose PKCS7 padding is invalid returned a value (%d bytes)" % len(obs[1]))
                if well_padded and obs != ("ok", plain[:-k]):
                    bad.append("a well-formed ciphertext did not decrypt to what AES-256-CBC/PKCS7 gives")
        if c["method"] == "bogus" and obs[0] != "err":
            bad.append("unknown method returned a value")
    return bad


def tags(c, obs):
    t = {"%s:%s" % (c["op"], c["method"])}
    if c["op"] == "enc":
        t.add("ptlen%%16=%d" % (len(c["pt"]) % 16))
    else:
        t.add("dec:%s:%s" % (c["kind"], obs[0] if obs[0] != "err" else "err-" + obs[1]))
    return t


def nontrivial(c, obs):
    return c["method"] != "bogus"
