"""
stream `roundtrip` (C02): reach a state of a real configuration by a history of public operations, then for
every format x option: dumps, loads into a fresh configuration of the same schema with the same key file,
compare every persistent value exactly and with its type.

Two kinds of cases
  * "rich" (oracle only; the model observes the constant "oracle-only"): schemas over all persistent built-in
    field types, nested schemas, config types, lists of configurations, typed lists/dicts of encoded items,
    dynamic schemas, virtual fields and instance methods, secrets with a per-case key file;
  * "model": schemas in the vocabulary of Config.v/ConfigInst.v (stream configops); in addition to the direct
    oracle the final state, its tree, the outcome of loading the tree into a fresh configuration, the state of
    that configuration and the verdict "same values" are compared with `run_roundtrip` inside Coq.

A case is plain data (schema description + history, all drawn from the rng at generate() time); real objects
exist only inside impl(), which also evaluates the direct oracle (it needs the live objects, temp dir and key
file) and leaves its findings as plain data under case["_res"].
"""
import copy
import itertools
import os
import random
import shutil
import sys
import tempfile

from common import Proxy
import s_configops as co

NAME = "roundtrip"
IMPORTS = "From Cinco Require Import Base Config ConfigInst Roundtrip."
RUN = "run_roundtrip"
CASE_TYPE = "rtcase"

COMBOS = [("json", {"pretty": True}), ("json", {"pretty": False}), ("yaml", {}), ("yaml", {"root_key": "root"}),
          ("bson", {}), ("xml", {}), ("xml", {"root_tag": "cfg"}), ("pickle", {})]

# a list-of-configurations slot that is None on both sides (possible only when the load stopped half way) counts as equal,
# as in Roundtrip.v `same_slotb`
NONE_NONE_CFGLIST_SAME = True

# =============================================================================================
# 1. rich cases: neutral schema description, values, histories
# =============================================================================================
RKEYS = ["alpha", "beta", "gamma", "k1", "k_2", "port", "host", "name", "level", "data", "secret", "pw", "tags",
         "opts", "url", "ip", "net", "x", "y", "z", "clé", "v-1", "w2", "Item", "n"]
RSUB = ["sub", "inner", "db", "srv", "auth"]
RLIST = ["items", "rows", "peers"]
LEAF_KINDS = ["int", "int", "float", "str", "str", "bool", "port", "ip", "net", "host", "url", "bytes", "bytes",
              "challenge", "secure", "secure", "any", "list", "list", "dict", "dict", "loglevel", "appmode", "file"]
ITEM_KINDS = ["int", "float", "str", "bool", "ip", "bytes", "bytes", "challenge", "secure", "any", "port", "host"]
STRINGY = ("str", "ip", "net", "host", "url", "loglevel", "appmode", "file")

XML_ALPHA = list("abcdefXYZ0189 _-.,:;#{}[]&*!|>'\"%@`<=?~/\\\n\t") + [
    "é", "Ä", "ß", "\u00a0", "\u0085", "\u2028", "\U0001F600", "\u200b", "\u007f", "\ufeff"]
NONXML = ["\r", "\x00", "\x01", "\x1b", "\uffff", "\ufffe", "\x0b"]
SPECIAL = ["", " ", "  pad  ", "yes", "No", "null", "~", "1", "1.5", "true", "- x", "a: b", "#c", "<&>", "]]>", "'", '"',
           "\n", "a\nb", "é", "0x10", "010", "1e3", "2001-01-01", "=", "<<", "{}", "[]", "!!str x", "%", "@a", "`",
           "\t", " lead", "trail ", "a\n", "\n\n", "NaN", ".inf", "None", "<a type=\"int\">1</a>", "&amp;"]
NCKEYS = ["a", "b1", "k_2", "x-y", "z.w", "été", "Key", "_u", "item", "type"]
ODDKEYS = ["1", "yes", "a b", "", "<<", "a:b", "$x", "null", " ", "a\nb", "-"]
HASHES = ["md5", "sha1", "sha224", "sha256", "sha384", "sha512"]


SECRET_LENS = [31, 32, 33, 47, 48, 64, 65, 100, 200, 1000]      # around the 32-byte key and the 16-byte AES block
LONG_STR_LENS = [33, 64, 65, 100, 255, 256, 1000, 2000]
LONG_BYTES_LENS = [31, 32, 33, 48, 64, 65, 100, 255, 256, 300]


def sized_text(n, multibyte=False, salt=0):
    """a string whose UTF-8 encoding has exactly n bytes; the character at each position depends on the position (a
    truncated, repeated or shifted copy differs); XML characters only, no whitespace at the ends"""
    out, size, i = [], 0, salt
    wide = ["\u00e9", "\u20ac", "\U0001F600", "\u00df", "\u4e2d"]
    while size < n:
        ch = wide[i % len(wide)] if multibyte and i % 3 == 0 else "abcdefghijklmnopqrstuvwxyzABCDEFGHIJKLMNOPQRSTUVWXYZ0123456789"[(i * 7 + i // 62) % 62]
        b = len(ch.encode("utf-8"))
        if size + b > n:
            ch, b = "x", 1
        out.append(ch)
        size += b
        i += 1
    return "".join(out)


def sized_bytes(rng, n):
    return bytes(rng.randrange(256) for _ in range(n))


DIGEST_SIZE = {"md5": 16, "sha1": 20, "sha224": 28, "sha256": 32, "sha384": 48, "sha512": 64}
CHALLENGE_WORDS = ["pw", "hunter22", "", "p\u00e4ss w\u00f6rd", "wrong-guess", "PW"]


def digest_of_plain(alg, plain, salt):
    """neutral form of DigestValue(salt, hash(salt + plain), alg) (computed with hashlib, not with the library)"""
    import hashlib
    return {"__digest__": [salt, hashlib.new(alg, salt + plain.encode("utf-8")).digest()], "__plain__": plain}


def r_text(rng, prof):
    if rng.random() < 0.3:
        return rng.choice(SPECIAL)
    alpha = XML_ALPHA if prof["xml"] or rng.random() < 0.6 else XML_ALPHA + NONXML * 4
    return "".join(rng.choice(alpha) for _ in range(rng.randint(0, 8)))


def r_key(rng, prof):
    if prof["xml"] or rng.random() < 0.5:
        return rng.choice(NCKEYS)
    return rng.choice(ODDKEYS)


def r_int(rng, prof, lo=None, hi=None):
    cands = [0, 1, -1, 7, 42, 1000, 65535, 2 ** 31, 2 ** 31 - 1, -2 ** 31, 2 ** 40, 2 ** 63 - 1, -2 ** 63, rng.randint(-10 ** 6, 10 ** 6),
             rng.randint(-100, 100)]
    if not prof["bson"]:
        cands += [2 ** 63, 2 ** 64 - 1, 2 ** 70, -2 ** 63 - 1] * 2
    for b in (lo, hi):
        if b is not None:
            cands += [b, b]
    cands = [c for c in cands if (lo is None or c >= lo) and (hi is None or c <= hi)]
    return rng.choice(cands) if cands else (lo if lo is not None else hi)


def r_float(rng, lo=None, hi=None):
    cands = [0.0, -0.0, 1.5, -2.25, 1e300, 5e-324, 1e16, 1e22, 0.1, 3.141592653589793, 1.0 / 3, 2.0 ** 53, 1e-5, 100.0,
             rng.uniform(-1e6, 1e6), rng.random()]
    if lo is None and hi is None and rng.random() < 0.12:
        return rng.choice([float("inf"), float("-inf"), float("nan")])
    cands = [c for c in cands if (lo is None or c >= lo) and (hi is None or c <= hi)]
    return rng.choice(cands) if cands else 1.0


def r_plain(rng, prof, depth=2):
    r = rng.random()
    if r < 0.1:
        return None
    if r < 0.2:
        return rng.random() < 0.5
    if r < 0.4:
        return r_int(rng, prof)
    if r < 0.5:
        return r_float(rng)
    if r < 0.7 or depth <= 0:
        return r_text(rng, prof)
    if r < 0.85:
        return [r_plain(rng, prof, depth - 1) for _ in range(rng.randint(0, 3))]
    return {r_key(rng, prof): r_plain(rng, prof, depth - 1) for _ in range(rng.randint(0, 3))}


def norm_str(p, s):
    if p.get("strip"):
        s = s.strip()
    if p.get("case") == "lower":
        s = s.lower()
    elif p.get("case") == "upper":
        s = s.upper()
    return s


def ok_str(p, s, required):
    if required and not s:
        return False
    if p.get("min_len") is not None and len(s) < p["min_len"]:
        return False
    if p.get("max_len") is not None and len(s) > p["max_len"]:
        return False
    return True


def r_item_node(rng, nest=True):
    k = rng.choice(ITEM_KINDS + (["list", "dict"] if nest else []))
    return {"kind": k, "p": r_params(rng, k, nest=False)}


def r_params(rng, k, nest=True):
    if k == "int":
        lo = rng.choice([None, None, -5, 0])
        return {"min": lo, "max": rng.choice([None, None, 100, 2 ** 40])}
    if k == "float":
        return {"min": rng.choice([None, None, -10.0]), "max": rng.choice([None, None, 1e6])}
    if k == "str":
        return {"min_len": rng.choice([None, None, 0, 1, 2]), "max_len": rng.choice([None, None, 6, 20]),
                "case": rng.choice([None, None, "lower", "upper"]), "strip": rng.choice([None, None, True])}
    if k == "bytes":
        return {"enc": rng.choice(["base64", "hex"])}
    if k == "challenge":
        return {"alg": rng.choice(HASHES)}
    if k == "secure":
        return {"method": rng.choice(["xor", "aes", "best"])}
    if k == "list":
        return {"item": None if rng.random() < 0.25 else r_item_node(rng, nest)}
    if k == "dict":
        if rng.random() < 0.25:
            return {"key": None, "value": None}
        if nest and rng.random() < 0.45:
            # a KEY field with an on-disk form of its own: binary keys (hex / base64 text in the document) or integer
            # keys (JSON turns them into strings; region of the open finding F53: non-string key in the tree)
            key = rng.choice([{"kind": "bytes", "p": {"enc": "hex"}}, {"kind": "bytes", "p": {"enc": "base64"}},
                              {"kind": "bytes", "p": {"enc": rng.choice(["hex", "base64"])}}, {"kind": "int", "p": {"min": None, "max": None}}])
            return {"key": key, "value": r_item_node(rng, False) if rng.random() < 0.85 else None}
        return {"key": rng.choice(["str", "str", None]), "value": r_item_node(rng, nest) if rng.random() < 0.85 else None}
    if k == "appmode":
        return {"helpers": rng.random() < 0.7}
    return {}


def gen_val(rng, nd, prof, normal=False):
    """a value the field accepts (mostly); normal=True: already in the form the field stores (for defaults)"""
    k, p, req = nd["kind"], nd.get("p", {}), nd.get("required", False)
    if k in ("int", "port"):
        lo, hi = (1, 65535) if k == "port" else (p.get("min"), p.get("max"))
        n = r_int(rng, prof, lo, hi)
        r = rng.random()
        if normal or r < 0.75:
            return n
        if r < 0.9:
            return str(n)
        return float(n) if abs(n) < 2 ** 53 else n
    if k == "float":
        x = r_float(rng, p.get("min"), p.get("max"))
        r = rng.random()
        if normal or r < 0.75 or x != x or x in (float("inf"), float("-inf")):
            return x
        if r < 0.88:
            return repr(x)
        return rng.randint(0, 9)
    if k == "str":
        if rng.random() < 0.15:
            n = rng.choice([x for x in LONG_STR_LENS if p.get("max_len") is None or x <= p["max_len"]] or [p.get("max_len") or 8])
            s = sized_text(n, rng.random() < 0.4, rng.randrange(1000))
            s = s[:p["max_len"]] if p.get("max_len") is not None else s
            if ok_str(p, norm_str(p, s), req):
                return norm_str(p, s) if normal else s
        for _ in range(6):
            s = r_text(rng, prof)
            if ok_str(p, norm_str(p, s), req):
                return norm_str(p, s) if normal else s
        for s in ("abcd", "x1", "Hello", "ab"):
            if ok_str(p, norm_str(p, s), req):
                return norm_str(p, s) if normal else s
        return None
    if k == "bool":
        return rng.choice([True, False]) if normal else rng.choice([True, False, True, False, "yes", "OFF", 0, 1, "T", "n"])
    if k == "ip":
        return ".".join(str(rng.choice([0, 1, 10, 127, 192, 255, rng.randint(0, 255)])) for _ in range(4))
    if k == "net":
        if normal or rng.random() < 0.8:
            return rng.choice(["10.%d.0.0/16" % rng.randint(0, 255), "192.168.%d.0/24" % rng.randint(0, 255), "0.0.0.0/0", "10.1.2.3/32"])
        return "10.1.2.%d" % rng.randint(0, 255)
    if k == "host":
        return rng.choice(["localhost", "a.b-c.example", "10.0.0.1", "MYPC", "srv_01", "x1.y2"])
    if k == "url" and rng.random() < 0.1:
        return "http://abc.com/" + sized_text(rng.choice([64, 300, 1000]), False, rng.randrange(100))
    if k == "url":
        return rng.choice(["http://abc.com/x?y=1&z=2", "ftp://h", "mailto:a@b", "https://e.org/<p>?q='1'", "file:///tmp/a b"])
    if k == "loglevel":
        return rng.choice(["debug", "info", "error"]) if normal else rng.choice(["debug", " INFO ", "Error", "warning", "CRITICAL"])
    if k == "appmode":
        return rng.choice(["production", "development"]) if normal else rng.choice(["production", "development", " Production ", "DEVELOPMENT"])
    if k == "file":
        return rng.choice(["a.txt", "/abs/x", "", "rel/dir/f", "sp ace.cfg"]) if not req else rng.choice(["a.txt", "/abs/x"])
    if k == "bytes":
        b = bytes(rng.randrange(256) for _ in range(rng.randint(0, 6)))
        if rng.random() < 0.2:
            return sized_bytes(rng, rng.choice(LONG_BYTES_LENS))
        if normal or rng.random() < 0.8:
            return rng.choice([b, b, b"", b"\x00\xff", b"abc", b"\x00"])
        return r_text(rng, dict(prof, xml=True))
    if k == "challenge":
        r = rng.random()
        if r < 0.7 or normal:
            return rng.choice(["pw", "hunter22", "", "päss wörd", r_text(rng, dict(prof, xml=True))])
        if r < 0.75:
            return b"raw\x00bytes"
        n = DIGEST_SIZE[p["alg"]]
        if r < 0.87:
            return {"__digest__": [bytes(rng.randrange(256) for _ in range(n)), bytes(rng.randrange(256) for _ in range(n))]}
        # a DigestValue built by hand: salt shorter than, equal to or longer than the digest; the plaintext is kept for the challenge
        return digest_of_plain(p["alg"], rng.choice(CHALLENGE_WORDS[:4]), bytes(rng.randrange(256) for _ in range(rng.choice([1, n // 2, n - 1, n, n + 1, 2 * n, 100]))))
    if k == "secure":
        r = rng.random()
        if r < 0.1 and not req:
            return ""
        if r < 0.5:
            # lengths around the 32-byte key (xor repeats it) and the AES block size, ASCII and multi-byte
            return sized_text(rng.choice(SECRET_LENS), rng.random() < 0.5, rng.randrange(1000))
        return rng.choice(["s3cret!", "p", "über \U0001F600", "0123456789abcdef", "0123456789abcdef0123456789abcdef", "a\r\nb\x00c",
                           r_text(rng, prof) or "x"])
    if k == "any":
        return r_plain(rng, prof)
    if k == "list":
        item = p.get("item")
        n = rng.randint(1 if req else 0, 3)
        if item is None:
            return [r_plain(rng, prof, 1) for _ in range(n)]
        return [None if rng.random() < 0.04 else gen_val(rng, item, prof, normal) for _ in range(n)]
    if k == "dict":
        n = rng.randint(1 if req else 0, 3)
        val = p.get("value")
        out = {}
        kspec = p.get("key")
        for _ in range(n):
            if isinstance(kspec, dict) and kspec["kind"] == "bytes":
                key = rng.choice([bytes(rng.randrange(256) for _ in range(rng.randint(1, 4))), b"\xca\xfe", b"\xab", b"\x00\xff", b"key", b""])
            elif isinstance(kspec, dict) and kspec["kind"] == "int":
                key = rng.choice([0, 1, -1, 7, 42, 2 ** 31, rng.randint(-1000, 1000)])
            else:
                key = r_key(rng, prof)
            out[key] = r_plain(rng, prof, 1) if val is None else gen_val(rng, val, prof, normal)
        return out
    raise ValueError(k)


def r_leaf(rng, prof):
    k = rng.choice(LEAF_KINDS)
    nd = {"t": "leaf", "kind": k, "p": r_params(rng, k), "required": rng.random() < 0.2, "sensitive": rng.random() < 0.2,
          "default": None, "callable": False}
    if rng.random() < 0.45:
        nd["default"] = gen_val(rng, nd, prof, normal=True)
        if k == "int" and nd["p"]["max"] is None and isinstance(nd["default"], int) and abs(nd["default"]) < 2 ** 40 and rng.random() < 0.3:
            nd["callable"] = True
    return nd


def r_fields(rng, depth, prof):
    fields = []
    for k in rng.sample(RKEYS, rng.randint(1, 5)):
        fields.append((k, r_leaf(rng, prof)))
    if depth > 0:
        for k in rng.sample(RSUB, rng.choice([0, 1, 1, 2])):
            t = rng.choice(["sub", "sub", "ctype"])
            fields.append((k, {"t": t, "dyn": t == "sub" and rng.random() < 0.2, "fields": r_fields(rng, depth - 1, prof)}))
        for k in rng.sample(RLIST, rng.choice([0, 0, 1, 1, 2])):
            fields.append((k, {"t": "cfglist", "ctype": rng.random() < 0.4, "required": rng.random() < 0.2,
                               "fields": r_fields(rng, max(0, depth - 2), prof)}))
    if rng.random() < 0.3:
        fields.append((rng.choice(["vcalc", "vsum"]), {"t": "virtual", "const": rng.choice([42, "v", [1, 2], None])}))
    if rng.random() < 0.25:
        fields.append((rng.choice(["hello", "compute"]), {"t": "method", "const": 7}))
    rng.shuffle(fields)
    return fields


def r_ops(rng, fields, prof, dyn, path=()):
    """a history that reaches a valid state: every op is an assignment the field accepts (mostly)"""
    ops = []
    for key, nd in fields:
        t = nd["t"]
        if t == "leaf":
            must = nd["required"] and nd["default"] is None
            if must or rng.random() < 0.7:
                for _ in range(2 if rng.random() < 0.1 else 1):
                    v = gen_val(rng, nd, prof)
                    if v is not None or not must:
                        ops.append(("set", path, key, v, rng.choice(["attr", "attr", "dotted"])))
            elif not nd["required"] and rng.random() < 0.12:
                ops.append(("set", path, key, None, "attr"))       # a user-set None
        elif t in ("sub", "ctype"):
            ops += r_ops(rng, nd["fields"], prof, nd.get("dyn", False), path + (("key", key),))
            if rng.random() < 0.15 and all(n2["t"] == "leaf" and n2["kind"] in ("int", "str", "bool", "float", "any", "ip", "secure")
                                           and not n2["required"] for _, n2 in nd["fields"]):
                tree = {}
                for k2, n2 in nd["fields"]:
                    v = gen_val(rng, n2, prof)
                    if v is not None:
                        tree[k2] = v
                ops.append(("tree", path, key, tree))
        elif t == "cfglist":
            n = rng.choice([0, 1, 1, 2, 3])
            if nd["required"] and n == 0:
                n = 1
            for i in range(n):
                ops.append(("append", path, key, r_ops(rng, nd["fields"], prof, False, ())))
                if rng.random() < 0.3:
                    # valid assignments inside an item that is already in the list
                    leafs = [(k2, n2) for k2, n2 in nd["fields"] if n2["t"] == "leaf"]
                    if leafs:
                        k2, n2 = rng.choice(leafs)
                        v = gen_val(rng, n2, prof)
                        if v is not None:
                            ops.append(("set", path + (("item", key, i),), k2, v, "attr"))
    if dyn:
        for k in rng.sample(["extra", "zz", "dyn-3"], rng.choice([0, 1, 2])):
            ops.append(("set", path, k, r_plain(rng, prof), "attr"))
    return ops


def has_kind(fields, kind):
    def in_leaf(nd):
        if nd["kind"] == kind:
            return True
        p = nd.get("p", {})
        return any(isinstance(p.get(x), dict) and in_leaf(p[x]) for x in ("item", "value"))
    for _, nd in fields:
        if nd["t"] == "leaf" and in_leaf(nd):
            return True
        if nd["t"] in ("sub", "ctype", "cfglist") and has_kind(nd["fields"], kind):
            return True
    return False


def rich_case(rng, combos=None, depth=None, kind="rich-random"):
    prof = {"xml": rng.random() < 0.8, "bson": rng.random() < 0.88}
    depth = rng.choice([0, 1, 1, 2, 2, 3]) if depth is None else depth
    fields = r_fields(rng, depth, prof)
    dyn = rng.random() < 0.2
    ops = r_ops(rng, fields, prof, dyn)
    secure = has_kind(fields, "secure")
    return {"mode": "rich", "kind": kind, "seed": rng.randrange(2 ** 32), "dyn": dyn, "fields": fields, "ops": ops,
            "kf": {"use": secure or rng.random() < 0.5, "exists": rng.random() < 0.5},
            "combos": [list(c) for c in (combos or COMBOS)]}


# ---------------------------------------------------------------------------------------------
# deterministic matrix (same every run)
# ---------------------------------------------------------------------------------------------
def L(kind, p=None, required=False, default=None, sensitive=False, callable_=False):
    return {"t": "leaf", "kind": kind, "p": p if p is not None else {}, "required": required, "sensitive": sensitive,
            "default": default, "callable": callable_}


def rcase(fields, ops, kind, dyn=False, kf=None, combos=None, seed=1, region=None):
    c = {"mode": "rich", "kind": kind, "seed": seed, "dyn": dyn, "fields": fields, "ops": ops,
         "kf": kf or {"use": True, "exists": False}, "combos": [list(x) for x in (combos or COMBOS)]}
    if region:
        c["region"] = region
    return c


MATRIX_KINDS = [("int", {"min": None, "max": None}), ("float", {"min": None, "max": None}),
                ("str", {"min_len": None, "max_len": None, "case": None, "strip": None}),
                ("str", {"min_len": 1, "max_len": 20, "case": "lower", "strip": True}), ("bool", {}), ("port", {}), ("ip", {}), ("net", {}),
                ("host", {}), ("url", {}), ("bytes", {"enc": "base64"}), ("bytes", {"enc": "hex"}), ("challenge", {"alg": "md5"}),
                ("challenge", {"alg": "sha512"}), ("secure", {"method": "xor"}), ("secure", {"method": "aes"}), ("secure", {"method": "best"}),
                ("any", {}), ("loglevel", {}), ("appmode", {"helpers": True}), ("file", {})]


def matrix_rich():
    rng = random.Random(20260926)
    prof = {"xml": True, "bson": True}
    cases = []
    # every leaf kind: at the root (unset / default / set), in a nested schema, in a config type, in list items
    for kind, p in MATRIX_KINDS:
        nd = L(kind, p)
        dflt = L(kind, p, default=gen_val(rng, L(kind, p), prof, normal=True))
        fields = [("v", nd), ("u", L(kind, p)), ("d", dflt), ("d2", copy.deepcopy(dflt)),
                  ("sub", {"t": "sub", "dyn": False, "fields": [("v", L(kind, p)), ("deep", {"t": "ctype", "fields": [("v", L(kind, p))]})]}),
                  ("items", {"t": "cfglist", "ctype": False, "required": False, "fields": [("v", L(kind, p)), ("w", copy.deepcopy(dflt))]})]
        ops = [("set", (), "v", gen_val(rng, nd, prof), "attr"), ("set", (), "d2", None, "attr"),
               ("set", (("key", "sub"),), "v", gen_val(rng, nd, prof), "dotted"),
               ("set", (("key", "sub"), ("key", "deep")), "v", gen_val(rng, nd, prof), "attr"),
               ("append", (), "items", [("set", (), "v", gen_val(rng, nd, prof), "attr")]),
               ("append", (), "items", [])]
        cases.append(rcase(fields, ops, "matrix-kind", seed=len(cases) + 1, kf={"use": True, "exists": len(cases) % 2 == 0}))
    # typed lists / dicts of every item kind (F14), also nested containers, also inside list items
    for kind, p in MATRIX_KINDS:
        if kind in ("loglevel", "appmode", "file", "url", "net"):
            continue
        item = {"kind": kind, "p": p}
        lst = L("list", {"item": item})
        dct = L("dict", {"key": "str", "value": item})
        fields = [("l", lst), ("d", dct), ("unset_l", L("list", {"item": item})), ("unset_d", L("dict", {"key": "str", "value": item})),
                  ("ll", L("list", {"item": {"kind": "list", "p": {"item": item}}})),
                  ("dl", L("dict", {"key": None, "value": {"kind": "list", "p": {"item": item}}})),
                  ("sub", {"t": "sub", "dyn": False, "fields": [("l", copy.deepcopy(lst))]}),
                  ("items", {"t": "cfglist", "ctype": True, "required": False, "fields": [("d", copy.deepcopy(dct))]})]
        vals = [gen_val(rng, dict(item, required=True), prof) for _ in range(6)]
        vals = [v for v in vals if v is not None] or [gen_val(rng, dict(item, required=True), prof)]
        ops = [("set", (), "l", vals[:3], "attr"), ("set", (), "d", {"a": vals[0], "b1": vals[-1]}, "attr"),
               ("set", (), "ll", [vals[:2], []], "attr"), ("set", (), "dl", {"k_2": vals[:2]}, "attr"),
               ("set", (("key", "sub"),), "l", vals[1:4], "attr"),
               ("append", (), "items", [("set", (), "d", {"x-y": vals[0]}, "attr")])]
        cases.append(rcase(fields, ops, "matrix-container", seed=100 + len(cases)))
    # typed dicts whose KEY field has an on-disk form of its own: binary keys written as hex / base64 text must be decoded
    # again on load (DictField.to_python maps key_field.to_python over the keys); at the root, nested, in list items
    # (plain and config type), with plain / binary / secret values.  Integer keys: values still round trip (JSON turns
    # the keys into text and validation turns them back); the tree's non-string keys are the open finding F53.
    for enc in ("hex", "base64"):
        kb = {"kind": "bytes", "p": {"enc": enc}}
        dk_int = L("dict", {"key": kb, "value": {"kind": "int", "p": {"min": None, "max": None}}})
        dk_bytes = L("dict", {"key": kb, "value": {"kind": "bytes", "p": {"enc": "base64"}}})
        dk_sec = L("dict", {"key": kb, "value": {"kind": "secure", "p": {"method": "xor"}}})
        dk_any = L("dict", {"key": kb, "value": None})
        for ctype in (False, True):
            fields = [("by_id", copy.deepcopy(dk_int)), ("blobs", copy.deepcopy(dk_bytes)), ("unset", copy.deepcopy(dk_int)), ("loose", copy.deepcopy(dk_any)),
                      ("sub", {"t": "ctype" if ctype else "sub", "dyn": False,
                               "fields": [("by_token", copy.deepcopy(dk_sec)), ("inner", {"t": "sub", "dyn": False, "fields": [("m", copy.deepcopy(dk_int))]})]}),
                      ("items", {"t": "cfglist", "ctype": ctype, "required": False, "fields": [("d", copy.deepcopy(dk_bytes)), ("n", L("int", {"min": None, "max": None}))]})]
            ops = [("set", (), "by_id", {b"\xca\xfe\xba": 1, b"\xbe\xef\x00": 2, b"\xad\xbe\xef": 3}, "attr"),
                   ("set", (), "blobs", {b"\xab\xcd\xef": b"\x00\x01", b"\xaa\xbb\xcc": b"", b"\xcc\xcc\xcc": b"xyz"}, "attr"),
                   ("set", (), "loose", {b"\xaa\xbb\xcc": [1, "a"], b"\xcc\xcc\xcc": None}, "attr"),
                   ("set", (("key", "sub"),), "by_token", {b"\xab\xab\xab": "s3cret!", b"\xad\xbe\xef": "p"}, "attr"),
                   ("set", (("key", "sub"), ("key", "inner")), "m", {b"\xca\xfe\xba": -7}, "dotted" if not ctype else "attr"),
                   ("append", (), "items", [("set", (), "d", {b"\xca\xfe\xba": b"v1"}, "attr"), ("set", (), "n", 1, "attr")]),
                   ("append", (), "items", [("set", (), "d", {b"\xab\xcd\xef": b"", b"\xbe\xef\x00": b"\xff"}, "attr")])]
            cases.append(rcase(fields, ops, "matrix-dictkey", seed=300 + len(cases)))
    ki = {"kind": "int", "p": {"min": None, "max": None}}
    fields = [("d", L("dict", {"key": ki, "value": {"kind": "str", "p": {}}})), ("unset", L("dict", {"key": ki, "value": None})),
              ("sub", {"t": "sub", "dyn": False, "fields": [("m", L("dict", {"key": ki, "value": {"kind": "bytes", "p": {"enc": "hex"}}}))]}),
              ("items", {"t": "cfglist", "ctype": False, "required": False, "fields": [("d", L("dict", {"key": ki, "value": {"kind": "int", "p": {}}}))]})]
    ops = [("set", (), "d", {1: "a", 20: "b", -3: "c"}, "attr"), ("set", (("key", "sub"),), "m", {0: b"\x00", 7: b"\xca\xfe"}, "attr"),
           ("append", (), "items", [("set", (), "d", {42: 1}, "attr")])]
    cases.append(rcase(fields, ops, "matrix-F53", seed=300 + len(cases), region="F53"))
    # untyped containers, AnyField item, dynamic root and dynamic sub
    fields = [("l", L("list", {"item": None})), ("d", L("dict", {"key": None, "value": None})), ("la", L("list", {"item": {"kind": "any", "p": {}}})),
              ("none_l", L("list", {"item": None})), ("sub", {"t": "sub", "dyn": True, "fields": [("a", L("any"))]})]
    ops = [("set", (), "l", [1, "a", None, [2.5, {"k": True}], {"z.w": []}], "attr"), ("set", (), "d", {"a": [1, {"b1": None}], "Key": "", "_u": {}}, "attr"),
           ("set", (), "la", [True, 1, 1.0, "1", None], "attr"), ("set", (("key", "sub"),), "a", {"a": [[], {}]}, "attr"),
           ("set", (("key", "sub"),), "extra", [1, {"a": "x"}], "attr"), ("set", (), "zz", {"a": None}, "attr"), ("set", (), "dyn-3", None, "attr")]
    cases.append(rcase(fields, ops, "matrix-untyped", dyn=True, seed=7))
    # F1: nested secrets at every depth, in config types and list items, key file not the default one, existing or not
    for method in ("xor", "aes"):
        for exists in (False, True):
            sec = lambda: L("secure", {"method": method})   # noqa: E731
            deep = [("secret", sec()), ("l3", {"t": "ctype", "fields": [("secret", sec()), ("sl", L("list", {"item": {"kind": "secure", "p": {"method": method}}}))]})]
            fields = [("secret", sec()), ("sub", {"t": "sub", "dyn": False, "fields": [("secret", sec()), ("l2", {"t": "sub", "dyn": False, "fields": deep})]}),
                      ("items", {"t": "cfglist", "ctype": False, "required": False,
                                 "fields": [("secret", sec()), ("isub", {"t": "sub", "dyn": False, "fields": [("secret", sec())]})]}),
                      ("titems", {"t": "cfglist", "ctype": True, "required": False, "fields": [("secret", sec())]})]
            ops = [("set", (), "secret", "top", "attr"), ("set", (("key", "sub"),), "secret", "hunter22", "attr"),
                   ("set", (("key", "sub"), ("key", "l2")), "secret", "deeper ü", "dotted"),
                   ("set", (("key", "sub"), ("key", "l2"), ("key", "l3")), "secret", "0123456789abcdef", "attr"),
                   ("set", (("key", "sub"), ("key", "l2"), ("key", "l3")), "sl", ["a", "bb"], "attr"),
                   ("append", (), "items", [("set", (), "secret", "in item", "attr"), ("set", (("key", "isub"),), "secret", "item sub", "attr")]),
                   ("append", (), "titems", [("set", (), "secret", "typed item", "attr")]),
                   ("tree", (), "sub", {"secret": "from a map", "l2": {"secret": "map2"}})]
            cases.append(rcase(fields, ops[:-1], "matrix-F1", kf={"use": True, "exists": exists}, seed=200 + len(cases)))
            cases.append(rcase(fields, ops, "matrix-F1", kf={"use": True, "exists": exists}, seed=200 + len(cases)))
    # long values: secrets of every method with UTF-8 lengths around the 32-byte key file and the 16-byte AES block, ASCII and
    # multi-byte, at the root / nested / deeper / in list items (plain and config type) / in typed lists and dicts of secrets
    # (a cipher that stops at the key length truncates them); long strings and long binary values for the other fields
    for mb in (False, True):
        for n in SECRET_LENS:
            sx = lambda m="xor": L("secure", {"method": m})   # noqa: E731
            isec = {"kind": "secure", "p": {"method": "xor"}}
            fields = [("sx", sx("xor")), ("sa", sx("aes")), ("sb", sx("best")),
                      ("sl", L("list", {"item": isec})), ("sd", L("dict", {"key": "str", "value": isec})),
                      ("sla", L("list", {"item": {"kind": "secure", "p": {"method": "aes"}}})),
                      ("sub", {"t": "sub", "dyn": False, "fields": [("secret", sx("xor")), ("deep", {"t": "ctype", "fields": [("secret", sx("xor")), ("sa", sx("aes"))]})]}),
                      ("items", {"t": "cfglist", "ctype": False, "required": False, "fields": [("secret", sx("xor")), ("sl", L("list", {"item": isec}))]}),
                      ("titems", {"t": "cfglist", "ctype": True, "required": False, "fields": [("secret", sx("best"))]})]
            t = lambda k: sized_text(n, mb, k)   # noqa: E731
            ops = [("set", (), "sx", t(1), "attr"), ("set", (), "sa", t(2), "attr"), ("set", (), "sb", t(3), "attr"),
                   ("set", (), "sl", [t(4), "short", t(5)], "attr"), ("set", (), "sd", {"a": t(6), "b1": "p"}, "attr"), ("set", (), "sla", [t(7)], "attr"),
                   ("set", (("key", "sub"),), "secret", t(8), "dotted"), ("set", (("key", "sub"), ("key", "deep")), "secret", t(9), "attr"),
                   ("set", (("key", "sub"), ("key", "deep")), "sa", t(10), "attr"),
                   ("append", (), "items", [("set", (), "secret", t(11), "attr"), ("set", (), "sl", [t(12)], "attr")]),
                   ("append", (), "titems", [("set", (), "secret", t(13), "attr")])]
            cases.append(rcase(fields, ops, "matrix-long-secret", kf={"use": True, "exists": n % 2 == 0}, seed=400 + len(cases)))
    lrng = random.Random(4242)
    for mb in (False, True):
        ist = {"kind": "str", "p": {}}
        fields = [("s", L("str", {})), ("up", L("str", {"case": "upper", "strip": True})), ("b64", L("bytes", {"enc": "base64"})), ("hexb", L("bytes", {"enc": "hex"})),
                  ("ls", L("list", {"item": ist})), ("ds", L("dict", {"key": "str", "value": {"kind": "bytes", "p": {"enc": "hex"}}})), ("any", L("any")),
                  ("url", L("url")), ("ch", L("challenge", {"alg": "sha256"})),
                  ("sub", {"t": "sub", "dyn": False, "fields": [("s", L("str", {})), ("b", L("bytes", {"enc": "base64"}))]}),
                  ("items", {"t": "cfglist", "ctype": False, "required": False, "fields": [("s", L("str", {})), ("b", L("bytes", {"enc": "hex"}))]})]
        ops = [("set", (), "s", sized_text(2000, mb, 1), "attr"), ("set", (), "up", sized_text(1000, False, 2), "attr"),
               ("set", (), "b64", sized_bytes(lrng, 300), "attr"), ("set", (), "hexb", sized_bytes(lrng, 256), "attr"),
               ("set", (), "ls", [sized_text(k, mb, k) for k in (0, 1, 255, 256, 1000)], "attr"),
               ("set", (), "ds", {"a": sized_bytes(lrng, 33), "b1": sized_bytes(lrng, 300), "Key": b""}, "attr"),
               ("set", (), "any", {"a": [sized_text(1000, mb, 3), {"b1": sized_text(65, mb, 4)}]}, "attr"),
               ("set", (), "url", "http://abc.com/" + sized_text(1000, False, 5), "attr"), ("set", (), "ch", sized_text(200, mb, 6), "attr"),
               ("set", (("key", "sub"),), "s", sized_text(1000, mb, 7), "attr"), ("set", (("key", "sub"),), "b", sized_bytes(lrng, 255), "dotted"),
               ("append", (), "items", [("set", (), "s", sized_text(2000, mb, 8), "attr"), ("set", (), "b", sized_bytes(lrng, 100), "attr")])]
        cases.append(rcase(fields, ops, "matrix-long-values", seed=500 + len(cases)))
    # the FILE route with documents whose first byte is ASCII white space: a BSON document starts with its own length
    # (little endian), so total lengths 9..13, 32, 0x120, 0x2009 start with \t \n \v \f \r or a space.  One field, the length
    # steered by the field name: null value 7+n, bool 8+n, int32 11+n, string 12+n+len
    for name_len, nd, ops in ([(n, L("int", {"min": None, "max": None}), None) for n in (2, 3, 4, 5, 6, 25)]
                              + [(n, L("bool"), True) for n in (1, 2, 3, 4, 5, 24)]
                              + [(n, L("int", {"min": None, "max": None}), 7) for n in (1, 2, 21)]
                              + [(1, L("str", {}), sized_text(0x2009 - 13, False, 3)), (1, L("str", {}), sized_text(0x120 - 13, False, 4)),
                                 (1, L("str", {}), sized_text(0x200a - 13, False, 5))]):
        key = ("abcdefghijklmnopqrstuvwxyz" * 2)[:name_len]
        cases.append(rcase([(key, nd)], [] if ops is None else [("set", (), key, ops, "attr")], "matrix-file-edge", kf={"use": False, "exists": False},
                           seed=600 + len(cases)))
    # text documents that begin / end with white space inside a value
    for val in ("  lead and trail \n", "\n", " ", "x\n\n"):
        cases.append(rcase([("s", L("str", {}))], [("set", (), "s", val, "attr")], "matrix-file-edge", kf={"use": False, "exists": False}, seed=600 + len(cases)))
    # challenge values: plaintexts, raw bytes, DigestValue objects with a salt shorter than / as long as / longer than the digest
    # (built with an explicit salt), at the root / nested / in list items / in typed lists and dicts
    for alg in HASHES:
        n = DIGEST_SIZE[alg]
        ch = lambda: L("challenge", {"alg": alg})   # noqa: E731
        ich = {"kind": "challenge", "p": {"alg": alg}}
        fields = [("short", ch()), ("same", ch()), ("long", ch()), ("huge", ch()), ("plain", ch()), ("raw", ch()),
                  ("cl", L("list", {"item": ich})), ("cd", L("dict", {"key": "str", "value": ich})),
                  ("sub", {"t": "sub", "dyn": False, "fields": [("ch", ch()), ("deep", {"t": "ctype", "fields": [("ch", ch())]})]}),
                  ("items", {"t": "cfglist", "ctype": False, "required": False, "fields": [("ch", ch())]})]
        dg = lambda w, k, fill: digest_of_plain(alg, w, bytes((fill + i) % 256 for i in range(k)))   # noqa: E731
        ops = [("set", (), "short", dg("pw", n // 2, 1), "attr"), ("set", (), "same", dg("hunter22", n, 2), "attr"),
               ("set", (), "long", dg("pw", n + 1, 3), "attr"), ("set", (), "huge", dg("", 3 * n + 5, 4), "attr"),
               ("set", (), "plain", "p\u00e4ss w\u00f6rd", "attr"), ("set", (), "raw", b"pw", "attr"),
               ("set", (), "cl", [dg("pw", n + 9, 5), "hunter22", dg("PW", 1, 6)], "attr"), ("set", (), "cd", {"a": dg("pw", 2 * n, 7), "b1": "pw"}, "attr"),
               ("set", (("key", "sub"),), "ch", dg("hunter22", n + 16, 8), "dotted"), ("set", (("key", "sub"), ("key", "deep")), "ch", dg("pw", n + 2, 9), "attr"),
               ("append", (), "items", [("set", (), "ch", dg("pw", 100, 10), "attr")]), ("append", (), "items", [("set", (), "ch", "hunter22", "attr")])]
        cases.append(rcase(fields, ops, "matrix-challenge", seed=700 + len(cases)))
    # aliasing: untyped list / untyped dict / AnyField-item list fields (root, nested, list items) are assigned the VALUE READ from
    # a typed list / typed dict field of the same configuration or of another one: to_tree() must render builtin lists / dicts
    # (exact types at every depth), and the values round trip.  AnyField targets, tuples and nested mixtures put a typed
    # container INSIDE an untyped value: outside the property's quantifier (tagged skip:non-plain-value), kept for the record.
    istr = {"kind": "str", "p": {}}
    iint = {"kind": "int", "p": {"min": None, "max": None}}
    tl = lambda it: L("list", {"item": it})                   # noqa: E731
    td = lambda it: L("dict", {"key": "str", "value": it})    # noqa: E731
    ul, ud, la, an = (lambda: L("list", {"item": None})), (lambda: L("dict", {"key": None, "value": None})), \
        (lambda: L("list", {"item": {"kind": "any", "p": {}}})), (lambda: L("any"))
    inner = [("names", tl(istr)), ("ports", td(iint)), ("extra", ul()), ("misc", ud()), ("la", la()), ("any", an())]
    fields = copy.deepcopy(inner) + [("nums", tl(iint)),
                                     ("sub", {"t": "sub", "dyn": False, "fields": copy.deepcopy(inner) + [("deep", {"t": "ctype", "fields": [("values", ul()), ("m", ud())]})]}),
                                     ("rows", {"t": "cfglist", "ctype": False, "required": False, "fields": [("db", {"t": "sub", "dyn": False, "fields": [("opts", ul()), ("m", ud())]}), ("l", la())]})]
    base_ops = [("set", (), "names", ["a", "b b", ""], "attr"), ("set", (), "ports", {"x": 1, "k_2": 65535}, "attr"), ("set", (), "nums", [3, 2 ** 40], "attr"),
                ("set", (("key", "sub"),), "names", ["n1"], "attr"), ("set", (("key", "sub"),), "ports", {"a": 0}, "attr")]
    other = [("set", (), "names", ["from", "another"], "attr"), ("set", (), "ports", {"o": 7}, "attr")]
    S, D = ("key", "sub"), ("key", "deep")
    direct = [("copy", (), "extra", (), "names", None, None), ("copy", (), "la", (), "nums", None, None), ("copy", (), "misc", (), "ports", None, None),
              ("copy", (S,), "extra", (), "names", None, None), ("copy", (S,), "misc", (S,), "ports", None, None), ("copy", (S,), "la", (S,), "names", None, None),
              ("copy", (S, D), "values", (), "nums", None, None), ("copy", (S, D), "m", (), "ports", None, None),
              ("append", (), "rows", [("copy", (("key", "db"),), "opts", (), "names", None, other), ("copy", (("key", "db"),), "m", (), "ports", None, other),
                                      ("copy", (), "l", (), "names", None, other)])]
    cases.append(rcase(fields, base_ops + direct, "matrix-alias", seed=800 + len(cases)))
    cases.append(rcase(fields, base_ops + [("copy", (), "extra", (), "names", None, other), ("copy", (), "misc", (), "ports", None, other),
                                           ("copy", (S,), "la", (), "names", None, other)], "matrix-alias", seed=800 + len(cases)))
    for d in direct[:8]:
        cases.append(rcase(fields, base_ops + [d], "matrix-alias", seed=800 + len(cases)))
    for wrap in ("tuple", "list", "dict", "mix"):
        cases.append(rcase(fields, base_ops + [("copy", (), "extra", (), "names", wrap, None)], "matrix-alias-nested", seed=800 + len(cases)))
    cases.append(rcase(fields, base_ops + [("copy", (), "any", (), "names", None, None), ("copy", (S,), "any", (), "ports", None, None)], "matrix-alias-nested", seed=800 + len(cases)))
    # F41: required secret; the empty string is refused, the secret stays; empty optional secret comes back unset
    fields = [("req", L("secure", {"method": "xor"}, required=True)), ("opt", L("secure", {"method": "aes"})), ("dflt", L("secure", {"method": "xor"}, default="")),
              ("sl", L("list", {"item": {"kind": "secure", "p": {"method": "xor"}}}))]
    ops = [("set", (), "req", "needed", "attr"), ("set", (), "req", "", "attr"), ("set", (), "opt", "", "attr"), ("set", (), "sl", ["", "x", ""], "attr")]
    cases.append(rcase(fields, ops, "matrix-F41", seed=9))
    # defaults only (callable default, hashed default with a random salt), user-set None over a default
    fields = [("n", L("int", {"min": None, "max": None}, default=5, callable_=True)), ("pw", L("challenge", {"alg": "sha1"}, default="dflt-pw")),
              ("s", L("str", {}, default="text")), ("b", L("bytes", {"enc": "hex"}, default=b"\x01\x02")), ("l", L("list", {"item": {"kind": "int", "p": {}}}, default=[1, 2])),
              ("sub", {"t": "sub", "dyn": False, "fields": [("pw", L("challenge", {"alg": "md5"}, default="x")), ("k", L("int", {"min": None, "max": None}, default=1, callable_=True))]}),
              ("vcalc", {"t": "virtual", "const": 42}), ("hello", {"t": "method", "const": 7}), ("mode", L("appmode", {"helpers": True}, default="production"))]
    cases.append(rcase(fields, [], "matrix-defaults", seed=11, kf={"use": False, "exists": False}))
    cases.append(rcase(fields, [("set", (), "s", None, "attr"), ("set", (), "l", None, "attr"), ("set", (), "b", None, "attr"), ("set", (), "n", None, "attr"),
                                ("set", (), "pw", None, "attr")], "matrix-user-none", seed=12))
    # ---- regions of the open findings --------------------------------------------------------
    for method in ("xor", "aes"):
        fields = [("secret", L("secure", {"method": method})), ("n", L("int", {"min": None, "max": None})),
                  ("sub", {"t": "sub", "dyn": False, "fields": [("secret", L("secure", {"method": method})), ("m", L("int", {"min": None, "max": None}))]})]
        ops = [("set", (), "secret", "root secret", "attr"), ("set", (), "n", 3, "attr"), ("keyfile", (("key", "sub"),), "k2.key"),
               ("set", (("key", "sub"),), "secret", "secret under its own key file", "attr"), ("set", (("key", "sub"),), "m", 4, "attr")]
        cases.append(rcase(fields, ops, "matrix-F34", seed=21, region="F34"))
    fields = [("x", L("int", {"min": None, "max": None})), ("inc", {"t": "include"}), ("s", L("str", {}))]
    ops = [("include", (), "inc", "included.json", {"x": 5}), ("set", (), "x", 9, "attr"), ("set", (), "s", "kept", "attr")]
    cases.append(rcase(fields, ops, "matrix-F35", seed=22, region="F35", combos=COMBOS[:2]))
    fields = [("n", L("int", {"min": None, "max": None})), ("sub", {"t": "sub", "dyn": False, "fields": [("y", L("str", {})), ("inc", {"t": "include"})]})]
    ops = [("include", (("key", "sub"),), "inc", "sub.json", {"y": "from the include"}), ("set", (("key", "sub"),), "y", "assigned", "attr"), ("set", (), "n", 1, "attr")]
    cases.append(rcase(fields, ops, "matrix-F35", seed=23, region="F35", combos=COMBOS[:2]))
    for flag_default, extra in ((False, []), (None, []), (True, [("set", (("key", "feat"),), "enabled", False, "attr")])):
        fields = [("n", L("int", {"min": None, "max": None}, default=1)),
                  ("feat", {"t": "sub", "dyn": False, "fields": [("enabled", {"t": "flag", "default": flag_default}), ("need", L("int", {"min": None, "max": None}, required=True)),
                                                               ("opt", L("str", {}))]})]
        cases.append(rcase(fields, [("set", (), "n", 2, "attr")] + extra, "matrix-F36", seed=24, region="F36"))
    fields = [("items", {"t": "cfglist", "ctype": False, "required": False,
                         "fields": [("enabled", {"t": "flag", "default": False}), ("need", L("str", {}, required=True))]})]
    cases.append(rcase(fields, [("append", (), "items", [])], "matrix-F36", seed=25, region="F36"))
    fields = [("items", {"t": "cfglist", "ctype": False, "required": False, "fields": [("n", L("int", {"min": None, "max": None}, required=True)), ("s", L("str", {}))]}),
              ("k", L("int", {"min": None, "max": None}))]
    ops = [("append", (), "items", [("set", (), "n", 1, "attr")]), ("append", (), "items", [("set", (), "n", 2, "attr")]),
           ("reset", (("item", "items", 1),), "n"), ("set", (), "k", 3, "attr")]
    cases.append(rcase(fields, ops, "matrix-stale-item", seed=26))
    cases.append(rcase(fields, ops[:1] + [("reset", (("item", "items", 0),), "n")], "matrix-stale-item", seed=27))
    return cases


def matrix_model():
    """cases in the model's vocabulary: plain valid states, the F36 region, stale list items (F50, repaired)"""
    def leaf(kind, required=False, default=None, sensitive=False, callable_=False):
        return {"t": "leaf", "kind": kind, "required": required, "default": default, "callable": callable_, "sensitive": sensitive}
    item = [("n", leaf(("int", 0, 10), required=True)), ("s", leaf(("str", None, 5, True, True), default="d", sensitive=True))]
    inner = [("flag", leaf(("flag",), default=True)), ("t", leaf(("str", 1, None, False, False), required=True, default="x"))]
    sub = [("a", leaf(("int", None, 20), default=5, callable_=True)), ("inner", {"t": "sub", "dyn": False, "vals": [0], "fields": inner}),
           ("b", leaf(("bool",)))]
    fields = [("n", leaf(("int", 1, 100), default=3)), ("s", leaf(("str", 2, 6, True, True), required=True, default="abc", sensitive=True)),
              ("sub", {"t": "sub", "dyn": True, "vals": [], "fields": sub}),
              ("items", {"t": "cfglist", "required": False, "vals": [1], "fields": item}), ("c", leaf(("any",)))]
    vt = [(0, "t", "bad!"), (1, "s", "bad!")]
    base = {"vt": vt, "dyn": True, "vals": [], "fields": fields}
    opts = [("flag", leaf(("flag",), default=False)), ("need", leaf(("int", None, None), required=True)), ("o", leaf(("str", None, None, False, False)))]
    base36 = {"vt": vt, "dyn": False, "vals": [], "fields": fields[:2] + [("opts", {"t": "sub", "dyn": False, "vals": [], "fields": opts})]}
    ilist = [("rows", {"t": "cfglist", "required": False, "vals": [], "fields": [("flag", leaf(("flag",), default=None)), ("need", leaf(("bool",), required=True))]})]
    base36b = {"vt": [], "dyn": False, "vals": [], "fields": ilist}
    hist = [
        ("model-plain", None, base, []),
        ("model-plain", None, base, [((), ("set", "n", "77", "dotted")), ((), ("set", "s", " HeLLo ", "attr")), ((), ("set", "c", {"a": [1, None], "b": 2.5}, "attr")),
                                     ((), ("set", "extra", [1, "v"], "attr")), ((("key", "sub"),), ("set", "zz", {"q": 1}, "attr")),
                                     ((("key", "sub"),), ("set", "b", "yes", "attr")), ((), ("set", "items", [{"n": 4, "s": " AbC "}], "attr")),
                                     ((), ("append", "items", {"n": 0})), ((("item", "items", 0),), ("set", "n", 8, "attr"))]),
        ("model-plain", None, base, [((), ("set", "items", [], "attr")), ((), ("set", "n", None, "attr")), ((), ("reset", "s")),
                                     ((), ("load", {"sub": {"a": 1, "inner": {"t": "ok"}}, "c": True}, True))]),
        ("model-invalid", None, base, [((("key", "sub"), ("key", "inner")), ("set", "t", "bad!", "attr"))]),
        ("model-F36", "F36", base36, []),
        ("model-F36", "F36", base36, [((("key", "opts"),), ("set", "flag", True, "attr")), ((("key", "opts"),), ("set", "o", "text", "attr")),
                                      ((("key", "opts"),), ("set", "flag", "off", "attr")), ((), ("set", "n", 7, "attr"))]),
        ("model-F36", None, base36, [((("key", "opts"),), ("set", "need", 4, "attr"))]),
        ("model-F36", "F36", base36b, [((), ("set", "rows", [{}], "attr")), ((), ("append", "rows", {"flag": True, "need": True}))]),
        ("model-F36", None, base, [((("key", "sub"), ("key", "inner")), ("set", "flag", "off", "attr")), ((("key", "sub"), ("key", "inner")), ("set", "t", "bad!", "attr"))]),
        ("model-stale-item", None, base, [((), ("set", "items", [{"n": 4}], "attr")), ((), ("append", "items", {"n": 5})), ((("item", "items", 1),), ("reset", "n"))]),
        ("model-stale-item", None, base, [((), ("set", "items", ({"n": 4},), "attr")), ((("item", "items", 0),), ("set", "s", "bad!", "attr"))]),
    ]
    cases = []
    for kind, region, bs, ops in hist:
        c = {"mode": "model", "kind": kind, "seed": 31 + len(cases), "co": dict(copy.deepcopy(bs), kw={}, ops=ops),
             "kf": {"use": len(cases) % 2 == 0, "exists": False}, "combos": [list(x) for x in COMBOS]}
        if region:
            c["region"] = region
        cases.append(c)
    return cases


# =============================================================================================
# 2. model cases: schemas of s_configops, histories with mostly valid values
# =============================================================================================
ANYPOOL = [None, 1, "s", [1, "a"], {"k": 1}, True, 2.5, "", {"a": [1, {"z": None}], "b": "x"}, [], {}, 0, -7, "  spaced  ", [[1], [True, None]]]
WRONG = {"int": [None, True, [1], {"a": 1}, "abc", "1x", 10 ** 6, -10 ** 6], "str": [None, 5, True, ["a"], 1.5, "bad!", "", "abcdefghijklmnop"],
         "bool": [None, "maybe", 2, [], 1.5], "flag": [None, "maybe", False, "off"]}


def mv_leaf(rng, nd, bad=0.08):
    k = nd["kind"]
    if k[0] == "any":
        return rng.choice(ANYPOOL)
    if rng.random() < bad:
        return rng.choice(WRONG[k[0]])
    if k[0] == "int":
        lo, hi = k[1], k[2]
        pool = [c for c in [0, 1, 15, 50, -3, 7, 10, 20, 100, lo, hi] if c is not None and (lo is None or c >= lo) and (hi is None or c <= hi)]
        n = rng.choice(pool or [lo if lo is not None else hi])
        return str(n) if rng.random() < 0.15 else n
    if k[0] == "str":
        pool = ["abc", "Hello", "  pad  ", "x", "MiXeD", "abcde", "ab", "a b", "yes", "1", "null", "<&>", "q\nr", ""]
        if not k[3]:
            pool += ["café", "Äb"]        # the model's case transform is ASCII only
        ok = []
        for s in pool:
            n = s.strip() if k[4] else s
            n = n.lower() if k[3] else n
            if (k[1] is None or len(n) >= k[1]) and (k[2] is None or len(n) <= k[2]) and (n or not nd["required"]):
                ok.append(s)
        return rng.choice(ok or ["abc"])
    if k[0] == "flag":
        return rng.choice([True, True, True, "on", 1, False])
    return rng.choice([True, False, 0, 1, "yes", "No", "on", "OFF"])


def mv_tree(rng, fields, depth, dynamic, full=False):
    tree = {}
    for k, nd in fields:
        need = nd["t"] == "leaf" and nd["required"] and nd["default"] is None
        if need or full or rng.random() < 0.55:
            if nd["t"] != "leaf" and depth <= 0:
                continue
            tree[k] = mv_value(rng, nd, depth - 1)
    if dynamic and rng.random() < 0.5:
        tree[rng.choice(["extra", "zz"])] = rng.choice(ANYPOOL)
    items = list(tree.items())
    rng.shuffle(items)
    return dict(items)


def mv_value(rng, nd, depth=2):
    if nd["t"] == "leaf":
        return mv_leaf(rng, nd)
    if nd["t"] == "sub":
        if rng.random() < 0.93:
            return mv_tree(rng, nd["fields"], depth, nd["dyn"])
        return rng.choice([None, 5, "str", [], {}])
    if rng.random() < 0.93:
        items = [mv_tree(rng, nd["fields"], depth, False) for _ in range(rng.choice([0, 1, 1, 2, 3]))]
        return tuple(items) if rng.random() < 0.1 else items
    return rng.choice([None, "str", 5, {}, [5]])


def m_op(rng, fields, root_dyn):
    paths = co.cfg_paths(fields)
    paths.sort(key=lambda p: len(p[0]))
    ps, fs, _ = paths[min(len(paths) - 1, int(abs(rng.gauss(0, 1.2))))] if rng.random() < 0.75 else rng.choice(paths)
    dyn = root_dyn if not ps else False
    in_item = any(p[0] == "item" for p in ps)
    k, nd = rng.choice(fs)
    r = rng.random()
    if r < 0.5:
        if rng.random() < 0.07:
            return (ps, ("set", rng.choice(["extra", "zz"]), rng.choice(ANYPOOL), rng.choice(["attr", "dotted"])))
        return (ps, ("set", k, mv_value(rng, nd), rng.choice(["attr", "dotted"])))
    if r < 0.65:
        return (ps, ("load", mv_tree(rng, fs, 2, dyn), rng.random() < 0.85))
    if r < (0.69 if in_item else 0.73):
        return (ps, ("reset", k))
    lists = [(kk, n2) for kk, n2 in fs if n2["t"] == "cfglist"]
    if not lists:
        return (ps, ("set", k, mv_value(rng, nd), "attr"))
    kk, n2 = rng.choice(lists)
    item = mv_tree(rng, n2["fields"], 1, False) if rng.random() < 0.93 else rng.choice([5, "s", None])
    if rng.random() < 0.65:
        return (ps, ("append", kk, item))
    return (ps, ("setidx", kk, rng.choice([0, 0, 1, 2]), item))


def m_fixups(rng, fields, ps=(), flagged=False):
    """assign the required fields that have no default, so that most final states validate"""
    out = []
    flag_here = any(nd["t"] == "leaf" and nd["kind"][0] == "flag" for _, nd in fields)
    for k, nd in fields:
        if nd["t"] == "leaf":
            if nd["required"] and nd["default"] is None and nd["kind"][0] != "any":
                if rng.random() < (0.45 if (flagged or flag_here) else 0.93):
                    out.append((ps, ("set", k, mv_leaf(rng, nd, bad=0.0), "attr")))
            elif nd["required"] and nd["default"] is None:
                if rng.random() < 0.93:
                    out.append((ps, ("set", k, rng.choice([1, "s", [1]]), "attr")))
        elif nd["t"] == "sub":
            out += m_fixups(rng, nd["fields"], ps + (("key", k),), flagged or flag_here)
        elif nd["required"] and rng.random() < 0.93:
            out.append((ps, ("set", k, [mv_tree(rng, nd["fields"], 1, False, full=True)], "attr")))
    return out


def model_case(rng, nops, combos=None):
    vt = []
    fields = co.rfields(rng, rng.choice([0, 1, 2, 2, 3]), vt)
    root_dyn = rng.random() < 0.2
    root_vals = co.rvals(rng, fields, vt)
    kw = {}
    if rng.random() < 0.25:
        for k, nd in rng.sample(fields, min(len(fields), rng.randint(1, 2))):
            kw[k] = mv_value(rng, nd)
        if root_dyn and rng.random() < 0.3:
            kw["extra"] = 5
    ops = [m_op(rng, fields, root_dyn) for _ in range(rng.randint(1, nops))]
    ops += m_fixups(rng, fields)
    c = {"vt": vt, "dyn": root_dyn, "vals": root_vals, "fields": fields, "kw": kw, "ops": ops}
    return {"mode": "model", "kind": "model-random", "seed": rng.randrange(2 ** 32), "co": c,
            "kf": {"use": rng.random() < 0.5, "exists": False}, "combos": [list(x) for x in (combos or COMBOS)]}


def rotate(rng, tier):
    """random cases: every format, both JSON layouts and a YAML root key; the non-default XML root tag comes with the colliding
    options (two per random case) and the file route, so the fixed `root_tag=cfg` is left to the matrix cases in the quick tier"""
    if tier == "quick":
        return [c for c in COMBOS if c != ("xml", {"root_tag": "cfg"})]
    return COMBOS


XML_WORDS = ["item", "config", "type", "str", "int", "dict", "list", "none", "bool", "float"]


def _dict_keys_in(v, out):
    if isinstance(v, dict):
        for k, x in v.items():
            if isinstance(k, str):
                out.append(k)
            _dict_keys_in(x, out)
    elif isinstance(v, (list, tuple)):
        for x in v:
            _dict_keys_in(x, out)


def colliding_combos(case, rng, everything):
    """format options that collide with the configuration's own names: YAML root_key equal to a top-level field name, a
    nested field name, a key of a dict value; XML root_tag equal to a field name, to the tag of list items, to the
    default root tag, to a type word.  The colliding names are taken from the case's own schema and values.
    everything=True (matrix): every kind of collision; otherwise a random few."""
    fields = case["co"]["fields"] if case["mode"] == "model" else case["fields"]
    top = [k for k, _ in fields]
    nested = []
    for _, nd in fields:
        if "fields" in nd:
            nested += [k for k, _ in nd["fields"]]
            for _, n2 in nd["fields"]:
                if "fields" in n2:
                    nested += [k for k, _ in n2["fields"]]
    vkeys = []
    _dict_keys_in(case["co"]["ops"] if case["mode"] == "model" else case["ops"], vkeys)
    vkeys = [k for k in vkeys if k not in top] or ["a"]
    subs = [k for k, nd in fields if "fields" in nd]
    leaves = [k for k, nd in fields if "fields" not in nd]
    pick = lambda l: [rng.choice(l)] if l else []      # noqa: E731
    ykeys = pick(subs) + pick(leaves) + pick([k for k in nested if k not in top]) + pick(vkeys)
    if top:
        ykeys.append(top[0])
        ykeys.append(top[-1])
    xtags = [t for t in pick(subs) + pick(leaves) + pick(nested) + pick(vkeys) if ncname_ok(t) and all(ord(ch) < 128 for ch in t)]
    xtags += ["item", "config"] + pick(XML_WORDS[2:])
    out = []
    for k in dict.fromkeys(ykeys):
        out.append(["yaml", {"root_key": k}])
    for t in dict.fromkeys(xtags):
        out.append(["xml", {"root_tag": t}])
    if not everything:
        out = rng.sample(out, min(len(out), 2))
    return out


FILE_FORMATS = ["json", "yaml", "bson", "xml", "pickle"]


def file_combos(rng, everything):
    """the file route (save / load take no format options): every format for matrix cases, BSON (binary, length-prefixed)
    and one other format otherwise"""
    fmts = FILE_FORMATS if everything else ["bson", rng.choice(["json", "yaml", "xml", "pickle"])]
    return [[f, {}, "file"] for f in fmts]


def generate(rng, tier):
    cases = matrix_rich() + matrix_model()
    for c in cases:
        r2 = random.Random(c.get("seed", 0) + 77)
        c["combos"] = [list(x) for x in c["combos"]] + colliding_combos(c, r2, True) + file_combos(r2, True)
    n_rich, n_model = (400, 400) if tier == "quick" else (5000, 5000)
    for _ in range(n_rich):
        c = rich_case(rng, combos=rotate(rng, tier))
        c["combos"] = [list(x) for x in c["combos"]] + colliding_combos(c, rng, False) + file_combos(rng, False)
        cases.append(c)
    for _ in range(n_model):
        c = model_case(rng, 7 if tier == "quick" else 16, combos=rotate(rng, tier))
        c["combos"] = [list(x) for x in c["combos"]] + colliding_combos(c, rng, False) + file_combos(rng, False)
        cases.append(c)
    return cases


def gcase(case):
    if case["mode"] != "model":
        return "None"
    return "(Some %s)" % co.gcase(case["co"])


# =============================================================================================
# 3. the implementation side: real objects
# =============================================================================================
def dec(v, field=None):
    """neutral value -> Python value (explicit digests)"""
    if isinstance(v, dict) and "__digest__" in v and set(v) <= {"__digest__", "__plain__"}:
        from cincoconfig import DigestValue
        alg = field.algorithm if field is not None else None
        return DigestValue(bytes(v["__digest__"][0]), bytes(v["__digest__"][1]), alg)
    if isinstance(v, dict):
        return {k: dec(x, _sub_field(field, "value")) for k, x in v.items()}
    if isinstance(v, (list, tuple)):
        return [dec(x, _sub_field(field, "item")) for x in v]
    return v


def _sub_field(field, which):
    if field is None:
        return None
    from cincoconfig import ListField, DictField
    if which == "item" and isinstance(field, ListField):
        return field.field
    if which == "value" and isinstance(field, DictField):
        return field.value_field
    return None


class RBuilt:
    """real schema of a rich case"""
    def __init__(self, case, tmp):
        self.tmp = tmp
        self.counter = itertools.count()
        self.ntypes = itertools.count()
        self.schema = self.mk_schema(case["fields"], case["dyn"])

    def mk_item(self, nd):
        return self.mk_field(dict(nd, t="leaf"), item=True)

    def mk_field(self, nd, item=False):
        import cincoconfig as cc
        k, p = nd["kind"], nd.get("p", {})
        kw = {}
        if not item:
            kw = dict(required=nd["required"], sensitive=nd["sensitive"])
            d = nd["default"]
            if nd.get("callable"):
                base = d
                kw["default"] = lambda: base + next(self.counter)
            elif d is not None:
                kw["default"] = copy.deepcopy(d)
        if k == "int":
            return cc.IntField(min=p.get("min"), max=p.get("max"), **kw)
        if k == "float":
            return cc.FloatField(min=p.get("min"), max=p.get("max"), **kw)
        if k == "str":
            return cc.StringField(min_len=p.get("min_len"), max_len=p.get("max_len"), transform_case=p.get("case"),
                                  transform_strip=p.get("strip"), **kw)
        if k == "bool":
            return cc.BoolField(**kw)
        if k == "port":
            return cc.PortField(**kw)
        if k == "ip":
            return cc.IPv4AddressField(**kw)
        if k == "net":
            return cc.IPv4NetworkField(**kw)
        if k == "host":
            return cc.HostnameField(**kw)
        if k == "url":
            return cc.UrlField(**kw)
        if k == "loglevel":
            return cc.LogLevelField(**kw)
        if k == "appmode":
            return cc.ApplicationModeField(create_helpers=p.get("helpers", True), **kw)
        if k == "file":
            return cc.FilenameField(**kw)
        if k == "bytes":
            return cc.BytesField(encoding=p["enc"], **kw)
        if k == "challenge":
            f = cc.ChallengeField(p["alg"], **kw)
            if isinstance(f._default, dict):
                f._default = dec(f._default, f)
            return f
        if k == "secure":
            return cc.SecureField(method=p["method"], **kw)
        if k == "any":
            return cc.AnyField(**kw)
        if k == "list":
            it = p.get("item")
            f = cc.ListField(self.mk_item(it) if it else None, **kw)
            if isinstance(f._default, list):
                f._default = dec(f._default, f)
            return f
        if k == "dict":
            if p.get("key") is None and p.get("value") is None:
                return cc.DictField(**kw)
            kspec = p.get("key")
            kf_ = cc.StringField() if kspec == "str" else self.mk_item(kspec) if isinstance(kspec, dict) else None
            f = cc.DictField(kf_, self.mk_item(p["value"]) if p.get("value") else None, **kw)
            if isinstance(f._default, dict):
                f._default = dec(f._default, f)
            return f
        raise ValueError(k)

    def mk_schema(self, fields, dyn):
        import cincoconfig as cc
        s = cc.Schema(dynamic=dyn)
        for k, nd in fields:
            t = nd["t"]
            if t == "leaf":
                f = self.mk_field(nd)
            elif t == "sub":
                f = self.mk_schema(nd["fields"], nd.get("dyn", False))
            elif t == "ctype":
                f = cc.make_type(self.mk_schema(nd["fields"], False), "T%d_%s" % (next(self.ntypes), "".join(ch for ch in k if ch.isalnum())))
            elif t == "cfglist":
                inner = self.mk_schema(nd["fields"], False)
                if nd.get("ctype"):
                    inner = cc.make_type(inner, "I%d" % next(self.ntypes))
                f = cc.ListField(inner, required=nd["required"])
            elif t == "virtual":
                const = copy.deepcopy(nd["const"])
                f = cc.VirtualField(lambda cfg, const=const: const)
            elif t == "method":
                const = nd["const"]
                f = cc.InstanceMethodField(method=lambda cfg, const=const: const)
            elif t == "include":
                f = cc.IncludeField(startdir=self.tmp)
            elif t == "flag":
                f = cc.FeatureFlagField(default=nd["default"])
            else:
                raise ValueError(t)
            setattr(s, k, f)
        return s


def pjoin(pre, k):
    return pre + "." + k if pre else k


def is_cfg(v):
    from cincoconfig.core import Config
    return isinstance(v, Config)


def nav(root, path):
    cfg = root
    for st in path:
        v = cfg._data.get(st[1])
        if st[0] == "key":
            if not is_cfg(v):
                return None
            cfg = v
        else:
            if not isinstance(v, list) or not 0 <= st[2] < len(v) or not is_cfg(v[st[2]]):
                return None
            cfg = v[st[2]]
    return cfg


def rich_op(b, root, op):
    """apply one op of a rich history; True = accepted"""
    import cincoconfig as cc
    cfg = nav(root, op[1])
    if cfg is None:
        return False
    try:
        if op[0] == "set":
            key, route = op[2], op[4]
            fld = cfg._get_field(key)
            val = dec(copy.deepcopy(op[3]), fld)
            if route == "dotted" and all(st[0] == "key" for st in op[1]):
                root[".".join([st[1] for st in op[1]] + [key])] = val
            else:
                setattr(cfg, key, val)
        elif op[0] == "tree":
            setattr(cfg, op[2], copy.deepcopy(op[3]))
        elif op[0] == "copy":
            # ("copy", dst path, dst key, src path, src key, wrap, other): assign the VALUE READ from another field -- of this
            # configuration, or (other = list of ops) of a second configuration of the same schema
            src_root = root
            if op[6] is not None:
                src_root = b.schema()
                for sub in op[6]:
                    rich_op(b, src_root, sub)
                b.keep = getattr(b, "keep", []) + [src_root]
            v = getattr(nav(src_root, op[3]), op[4])
            wrap = op[5]
            v = (v,) if wrap == "tuple" else [v, 1] if wrap == "list" else {"a": v} if wrap == "dict" else [{"k": (v, [v])}] if wrap == "mix" else v
            setattr(cfg, op[2], v)
        elif op[0] == "append":
            fld = cfg._get_field(op[2])
            item = fld.field()
            for sub in op[3]:
                rich_op(b, item, sub)
            cur = cfg._data.get(op[2])
            if cur is None:
                setattr(cfg, op[2], [item])
            else:
                cur.append(item)
        elif op[0] == "reset":
            cc.reset_value(cfg, op[2])
        elif op[0] == "keyfile":
            cfg._key_filename = os.path.join(b.tmp, op[2])
        elif op[0] == "include":
            import json
            with open(os.path.join(b.tmp, op[3]), "w") as fp:
                json.dump(op[4], fp)
            setattr(cfg, op[2], op[3])
        else:
            raise ValueError(op[0])
    except Exception:  # noqa
        return False
    return True


# ---------------------------------------------------------------------------------------------
# generic walks over real configurations (driven by the real field objects, not by the model)
# ---------------------------------------------------------------------------------------------
def persistent_fields(cfg):
    from cincoconfig.core import VirtualFieldMixin, InstanceMethodFieldMixin
    out = []
    for k, f in list(cfg._schema._fields.items()) + [(k, f) for k, f in cfg._fields.items() if k not in cfg._schema._fields]:
        out.append((k, f, isinstance(f, VirtualFieldMixin), isinstance(f, InstanceMethodFieldMixin)))
    return out


def shallow_errors(cfg):
    """what whole-configuration validation would report for this object alone with its feature flag ignored"""
    from cincoconfig.core import Field, IncludeFieldMixin
    n = 0
    for k, f, virt, meth in persistent_fields(cfg):
        if virt or meth or isinstance(f, IncludeFieldMixin) or not isinstance(f, Field) or k not in cfg._data:
            continue
        try:
            f.validate(cfg, cfg._data[k])
        except Exception:  # noqa
            n += 1
    for v in cfg._schema._validators:
        try:
            v(cfg)
        except Exception:  # noqa
            n += 1
    return n


def find_regions(root):
    """paths of: disabled configurations holding something invalid (F36), stale list items (key "F50": repaired, a regression region now), include fields
    holding a value (F35: the scope), configurations below the root naming their own key file (F34)"""
    from cincoconfig.core import IncludeFieldMixin
    import cincoconfig as cc
    reg = {"F34": [], "F35": [], "F36": [], "F50": [], "F53": []}
    disabled_cfgs = []

    def walk(cfg, path, disabled, item):
        enabled = True
        try:
            enabled = bool(cfg._schema._is_feature_enabled(cfg))
        except Exception:  # noqa
            pass
        if not enabled and disabled is None:
            disabled = path
            disabled_cfgs.append(path)
        if shallow_errors(cfg):
            if disabled is not None:
                if disabled not in reg["F36"]:
                    reg["F36"].append(disabled)
            elif item is not None:
                if item not in reg["F50"]:
                    reg["F50"].append(item)
        if cfg is not root and cfg.__dict__.get("_Config__keyfile") is not None and cfg.__dict__["_Config__keyfile"].filename != root._key_filename:
            reg["F34"].append(path)
        for k, f, virt, meth in persistent_fields(cfg):
            if virt or meth:
                continue
            v = cfg._data.get(k)
            if isinstance(f, IncludeFieldMixin) and v is not None:
                reg["F35"].append(path)
            if isinstance(f, cc.DictField) and f._use_proxy and isinstance(f.key_field, (cc.IntField, cc.FloatField, cc.BoolField)) and v:
                reg["F53"].append(pjoin(path, k))
            if is_cfg(v):
                walk(v, pjoin(path, k), disabled, item)
            elif isinstance(v, list):
                for i, it in enumerate(v):
                    if is_cfg(it):
                        p = "%s[%d]" % (pjoin(path, k), i)
                        walk(it, p, disabled, item if item is not None else p)
    walk(root, "", None, None)
    return reg, disabled_cfgs


def xml_text_ok(s):
    for ch in s:
        o = ord(ch)
        if not (o in (0x9, 0xA) or 0x20 <= o <= 0xD7FF or 0xE000 <= o <= 0xFFFD or 0x10000 <= o <= 0x10FFFF):
            return False
    return True


def ncname_ok(s):
    def start(ch):
        return ch == "_" or ("a" <= ch <= "z") or ("A" <= ch <= "Z") or ("\u00c0" <= ch <= "\u00ff" and ch not in "\u00d7\u00f7")
    if not s or not start(s[0]):
        return False
    return all(start(ch) or ch in "-." or "0" <= ch <= "9" for ch in s[1:])


def representability(root):
    """which formats can represent the values held (the property's quantifier); plain = no non-plain datum where the
    schema imposes no type"""
    import cincoconfig as cc
    st = {"xml": True, "bson": True, "plain": True, "nonfinite": False, "why": set(), "nonstr_key": False}

    def generic(v, where, top=False):
        if v is None or isinstance(v, bool):
            return
        if type(v) is int:
            if not -2 ** 63 <= v < 2 ** 63:
                st["bson"] = False
            return
        if type(v) is float:
            if v != v or v in (float("inf"), float("-inf")):
                st["nonfinite"] = True
            return
        if type(v) is str:
            if not xml_text_ok(v):
                st["xml"] = False
            try:
                v.encode("utf-8")
            except UnicodeError:
                st["plain"] = False
                st["why"].add("%s: not a Unicode string" % where)
            return
        if isinstance(v, (list, dict)) and type(v) not in (list, dict) and not top:
            # a typed container (ListProxy / DictProxy) INSIDE an untyped value: not plain data (outside the quantifier)
            st["plain"] = False
            st["why"].add("%s: %s inside an untyped value" % (where, type(v).__name__))
            return
        if isinstance(v, list):
            for x in v:
                generic(x, where)
            return
        if isinstance(v, dict):
            for k, x in v.items():
                if type(k) is not str:
                    st["plain"] = False
                    st["why"].add("%s: non-string key" % where)
                    continue
                if not ncname_ok(k) or not xml_text_ok(k):
                    st["xml"] = False
                if "\x00" in k:
                    st["bson"] = False
                generic(k, where)
                generic(x, where)
            return
        st["plain"] = False
        st["why"].add("%s: %s" % (where, type(v).__name__))

    def by_field(f, v, where):
        if v is None:
            return
        if isinstance(f, (cc.BytesField, cc.SecureField, cc.ChallengeField)):
            return          # encoded: base64 / hex text whatever the value
        if isinstance(f, cc.ListField) and f.field is not None and isinstance(f.field, cc.Field) and not isinstance(f.field, cc.AnyField):
            for x in v:
                by_field(f.field, x, where)
            return
        if isinstance(f, cc.DictField) and f._use_proxy:
            for k, x in v.items():
                dk = k
                if isinstance(f.key_field, cc.BytesField) and isinstance(k, bytes):
                    dk = f.key_field.to_basic(None, k)      # the key as the document holds it: hex / base64 text
                if type(dk) is not str:
                    st["xml"] = False                       # an integer is not an XML name (F53 region: non-string tree key)
                    st["nonstr_key"] = True
                else:
                    generic({dk: None}, where)
                by_field(f.value_field, x, where)
            return
        # an untyped list / dict field renders list(value) / dict(value): the container class of the stored value is not part
        # of the tree, its items are; an AnyField renders the stored value itself
        generic(v, where, top=isinstance(f, (cc.ListField, cc.DictField)))

    def walk(cfg, path):
        for k, f, virt, meth in persistent_fields(cfg):
            if virt or meth or k not in cfg._data:
                continue
            if not ncname_ok(k):
                st["xml"] = False
            v = cfg._data[k]
            if is_cfg(v):
                walk(v, pjoin(path, k))
            elif isinstance(v, list) and any(is_cfg(i) for i in v):
                for i, it in enumerate(v):
                    if is_cfg(it):
                        walk(it, "%s[%d]" % (pjoin(path, k), i))
            else:
                by_field(f, v, pjoin(path, k))
    walk(root, "")
    return st


def teq(a, b):
    """equality with types: bool is not int, int is not float, NaN equals NaN, -0.0 is not 0.0; dicts unordered"""
    from cincoconfig import DigestValue
    if type(a) is not type(b):
        return False
    if isinstance(a, float):
        return a.hex() == b.hex() or (a != a and b != b)
    if isinstance(a, DigestValue):
        return a.salt == b.salt and a.digest == b.digest and a.algorithm is b.algorithm and type(a.salt) is type(b.salt) is bytes
    if isinstance(a, (list, tuple)):
        return len(a) == len(b) and all(teq(x, y) for x, y in zip(a, b))
    if isinstance(a, dict):
        if len(a) != len(b):
            return False
        for k, x in a.items():
            hit = [kk for kk in b if type(kk) is type(k) and kk == k]
            if not hit or not teq(x, b[hit[0]]):
                return False
        return True
    return a == b


def short(v):
    r = repr(v)
    return r if len(r) < 70 else r[:67] + "..."


def cmp_cfg(a, b, path, out, norms):
    """a: the original, b: the re-loaded one; out collects (path, what)"""
    if type(a) is not type(b):
        out.append((path, "configuration class %s came back as %s" % (type(a).__name__, type(b).__name__)))
    if sorted(a._fields) != sorted(b._fields):
        out.append((path, "dynamic fields %r came back as %r" % (sorted(a._fields), sorted(b._fields))))
    for k, f, virt, meth in persistent_fields(a):
        if virt or meth or k not in a._data:
            continue
        p = pjoin(path, k)
        if k not in b._data:
            out.append((p, "no value after the reload"))
            continue
        try:
            va, vb = a[k], b[k]
        except Exception as e:  # noqa
            out.append((p, "cannot be read: %s" % type(e).__name__))
            continue
        cmp_val(f, va, vb, p, out, norms)


def _challenge(dv, w):
    try:
        dv.challenge(w)
        return "passes"
    except ValueError:
        return "fails"
    except Exception as e:  # noqa
        return "raises %s" % type(e).__name__


def cmp_val(f, va, vb, p, out, norms):
    import cincoconfig as cc
    from cincoconfig.core import Schema, isconfigtype
    if is_cfg(va) or is_cfg(vb):
        if is_cfg(va) and is_cfg(vb):
            cmp_cfg(va, vb, p, out, norms)
        else:
            out.append((p, "%s came back as %s" % (type(va).__name__, type(vb).__name__)))
        return
    if isinstance(f, cc.ListField) and f.field is not None and not isinstance(f.field, cc.AnyField):
        if va is None:
            if vb is None:
                return
            if isinstance(vb, list) and len(vb) == 0:
                norms.add("norm:list-none->empty")
                return
            out.append((p, "unset list came back as %s" % short(vb)))
            return
        if type(va) is not type(vb) or len(va) != len(vb):
            out.append((p, "%s %s came back as %s %s" % (type(va).__name__, short(va), type(vb).__name__, short(vb))))
            return
        for i, (x, y) in enumerate(zip(va, vb)):
            q = "%s[%d]" % (p, i)
            if isinstance(f.field, Schema) or isconfigtype(f.field):
                cmp_val(None, x, y, q, out, norms)
            else:
                cmp_val(f.field, x, y, q, out, norms)
        return
    if isinstance(f, cc.DictField) and f._use_proxy:
        if va is None:
            if vb is None:
                return
            if isinstance(vb, dict) and len(vb) == 0:
                norms.add("norm:dict-none->empty")
                return
            out.append((p, "unset dict came back as %s" % short(vb)))
            return
        if type(va) is not type(vb) or len(va) != len(vb) or any(not any(teq(k, kk) for kk in vb) for k in va):
            out.append((p, "%s %s came back as %s %s" % (type(va).__name__, short(va), type(vb).__name__, short(vb))))
            return
        for k, x in va.items():
            cmp_val(f.value_field, x, vb[k], "%s[%s]" % (p, k), out, norms)
        return
    if isinstance(f, cc.DictField) and not f._use_proxy and isinstance(va, dict) and isinstance(vb, dict) and type(va) is not type(vb):
        # same for an untyped dict field holding the DictProxy read from a typed one: the entries are compared exactly
        norms.add("untyped-container-class")
        va, vb = dict(va), dict(vb)
    if isinstance(f, cc.ListField) and (f.field is None or isinstance(f.field, cc.AnyField)) and isinstance(va, list) and isinstance(vb, list) \
            and type(va) is not type(vb):
        # a list of AnyField items is a ListProxy when it comes from the field's default and a plain list after
        # an assignment or a load; no item is typed, so the container class is not part of the value (ruled outside C02):
        # the items are compared exactly, the class change is only tagged
        norms.add("anyfield-list-class")
        va, vb = list(va), list(vb)
    if isinstance(f, cc.SecureField) and va == "" and type(va) is str and vb is None:
        norms.add("norm:secret-empty->none")
        return
    if not teq(va, vb):
        out.append((p, "%s %s came back as %s %s" % (type(va).__name__, short(va), type(vb).__name__, short(vb))))
        return
    if isinstance(f, cc.ChallengeField) and isinstance(va, cc.DigestValue) and isinstance(vb, cc.DigestValue):
        # the same challenges succeed and fail before and after
        for w in CHALLENGE_WORDS:
            oa, ob = _challenge(va, w), _challenge(vb, w)
            if oa != ob:
                out.append((p, "challenge(%r) %s before and %s after the reload" % (w, oa, ob)))
                break
            if oa == "passes":
                norms.add("challenge-passes")


PLAIN_TYPES = (str, int, float, bool, type(None), list, dict)


def plain_violations(tree, path=""):
    """list of (message, what, path)"""
    out = []
    if type(tree) not in PLAIN_TYPES:
        return [("%s is a %s" % (path or "<tree>", type(tree).__name__), "type", path)]
    if type(tree) is list:
        for i, x in enumerate(tree):
            out += plain_violations(x, "%s[%d]" % (path, i))
    elif type(tree) is dict:
        for k, x in tree.items():
            if type(k) is not str:
                out.append(("%s has the %s key %r" % (path or "<tree>", type(k).__name__, k), "nonstr-key", path))
                out += plain_violations(x, "%s[%r]" % (path, k))
            else:
                out += plain_violations(x, pjoin(path, k))
    return out


def virtual_violations(root, tree, vtree):
    """virtual / instance-method keys: never in to_tree(); virtual ones present in to_tree(virtual=True)"""
    out = []

    def walk(cfg, t, vt, path, through_list):
        for k, f, virt, meth in persistent_fields(cfg):
            p = pjoin(path, k)
            if (virt or meth) and isinstance(t, dict) and k in t:
                out.append("%s key %s is in to_tree()" % ("virtual" if virt else "instance-method", p))
            if meth and isinstance(vt, dict) and k in vt:
                out.append("instance-method key %s is in to_tree(virtual=True)" % p)
            if virt and not through_list and isinstance(vt, dict):
                if k not in vt:
                    out.append("virtual key %s is missing from to_tree(virtual=True)" % p)
                else:
                    try:
                        want = f.getter(cfg)
                    except Exception:  # noqa
                        continue
                    if not teq(vt[k], want):
                        out.append("virtual key %s is %s in to_tree(virtual=True), the field computes %s" % (p, short(vt[k]), short(want)))
            if virt or meth:
                continue
            v = cfg._data.get(k)
            if is_cfg(v):
                walk(v, t.get(k) if isinstance(t, dict) else None, vt.get(k) if isinstance(vt, dict) else None, p, through_list)
            elif isinstance(v, list) and any(is_cfg(i) for i in v):
                tl = t.get(k) if isinstance(t, dict) else None
                vl = vt.get(k) if isinstance(vt, dict) else None
                for i, it in enumerate(v):
                    if is_cfg(it):
                        walk(it, tl[i] if isinstance(tl, list) and i < len(tl) else None,
                             vl[i] if isinstance(vl, list) and i < len(vl) else None, "%s[%d]" % (p, i), True)
    walk(root, tree, vtree, "", False)
    return out


def has_user_value(cfg):
    for k, f, virt, meth in persistent_fields(cfg):
        if virt or meth or k not in cfg._data:
            continue
        v = cfg._data[k]
        if is_cfg(v):
            if has_user_value(v):
                return True
        elif isinstance(v, list) and any(is_cfg(i) for i in v):
            return True
        elif k not in cfg._default_value_keys and v is not None:
            return True
    return False


# ---------------------------------------------------------------------------------------------
# the verdict of the model part, computed on snapshots (independent of the model)
# ---------------------------------------------------------------------------------------------
def leaf_same(a, b):
    """pyval equality: types matter, dicts in order"""
    if type(a) is not type(b):
        return False
    if isinstance(a, float):
        return a.hex() == b.hex() or (a != a and b != b)
    if isinstance(a, (list, tuple)):
        return len(a) == len(b) and all(leaf_same(x, y) for x, y in zip(a, b))
    if isinstance(a, dict):
        return len(a) == len(b) and all(leaf_same(k1, k2) and leaf_same(a[k1], b[k2]) for k1, k2 in zip(a, b))
    if isinstance(a, Proxy):
        return False
    return a == b


def same_values(fields, sa, sb):
    """sa: snapshot of the re-loaded configuration, sb: of the original (co.snap_cfg)"""
    da, _, dyna = sa
    db, _, dynb = sb
    for k, nd in fields:
        if k not in da or k not in db:
            return False
        a, b = da[k], db[k]
        if nd["t"] == "leaf":
            if not leaf_same(a, b):
                return False
        elif nd["t"] == "sub":
            if not (isinstance(a, tuple) and len(a) == 3 and isinstance(b, tuple) and len(b) == 3 and isinstance(a[0], dict) and isinstance(b[0], dict)):
                return False
            if not same_values(nd["fields"], a, b):
                return False
        else:
            if isinstance(a, Proxy) and isinstance(b, Proxy):
                if len(a.items) != len(b.items) or not all(same_values(nd["fields"], x, y) for x, y in zip(a.items, b.items)):
                    return False
            elif isinstance(a, Proxy) and b is None:
                if a.items:
                    return False
            elif a is None and b is None:
                if not NONE_NONE_CFGLIST_SAME:
                    return False
            else:
                return False
    if list(dyna) != list(dynb):
        return False
    for k in dynb:
        if k not in da or k not in db or not leaf_same(da[k], db[k]):
            return False
    return True


# ---------------------------------------------------------------------------------------------
# impl: build, run the history, observe (model part), evaluate the direct oracle
# ---------------------------------------------------------------------------------------------
class _Urandom:
    """os.urandom replaced by a stream derived from the case (salts, IVs, generated key files are reproducible)"""
    def __init__(self, seed):
        self.rnd = random.Random(seed)
        self.saved = None

    def __enter__(self):
        self.saved = os.urandom
        os.urandom = lambda n: self.rnd.randbytes(n)
        return self

    def __exit__(self, *a):
        os.urandom = self.saved
        return False


def err_path(e):
    from cincoconfig import ValidationError
    if isinstance(e, ValidationError):
        try:
            return e.ref_path
        except Exception:  # noqa
            return None
    return None


def impl(case):
    res = {"viol": [], "info": {}, "tags": set(), "nontrivial": False, "regions": {}}
    case["_res"] = res
    tmp = tempfile.mkdtemp(prefix="verif_rt_")
    try:
        with _Urandom(case.get("seed", 0)):
            return _impl(case, res, tmp)
    except Exception as e:  # noqa
        import traceback
        res["viol"].append("harness: unexpected %s in impl: %s" % (type(e).__name__, traceback.format_exc()[-400:]))
        return "oracle-only" if case["mode"] != "model" else ("harness-error",)
    finally:
        shutil.rmtree(tmp, ignore_errors=True)


def add(res, msg, **info):
    if msg not in res["viol"]:
        res["viol"].append(msg)
    res["info"][msg] = info


def _impl(case, res, tmp):
    from cincoconfig.core import Config
    tags = res["tags"]
    default_key = Config.DEFAULT_CINCOKEY_FILEPATH
    if os.path.exists(default_key):
        os.remove(default_key)
    kf = os.path.join(tmp, "root.key") if case["kf"]["use"] else None
    if kf and case["kf"]["exists"]:
        with open(kf, "wb") as fp:
            fp.write(random.Random(case.get("seed", 0) + 1).randbytes(32))
    obs = "oracle-only"
    root = None
    if case["mode"] == "model":
        c = case["co"]
        b = co.Built(c)
        schema = b.schema
        try:
            root = Config(schema, key_filename=kf, **copy.deepcopy(c["kw"])) if kf else schema(**copy.deepcopy(c["kw"]))
        except Exception as e:  # noqa
            tags.add("ctor-rejected")
            return (("err", co.errkind(e)),)
        rejected = 0
        for ps, o in c["ops"]:
            out = co.apply_op(root, ps, o)
            if out != "ok":
                rejected += 1
        final = co.snap_cfg(root)
        try:
            t = root.to_tree()
        except Exception as e:  # noqa
            obs = ("ok", final, ("err", co.errkind(e)))
            add(res, "to_tree() raised %s" % type(e).__name__, clause="tree")
        else:
            tcopy = copy.deepcopy(t)
            fresh = schema()
            try:
                fresh.load_tree(copy.deepcopy(t))
                outcome = "ok"
            except Exception as e:  # noqa
                outcome = ("err", co.errkind(e))
            fsnap = co.snap_cfg(fresh)
            obs = ("ok", final, ("ok", tcopy), outcome, fsnap, same_values(c["fields"], fsnap, final))
            tags.add("tree-load:" + (outcome if outcome == "ok" else "err"))
    else:
        b = RBuilt(case, tmp)
        schema = b.schema
        root = Config(schema, key_filename=kf) if kf else schema()
        rejected = sum(0 if rich_op(b, root, op) else 1 for op in case["ops"])
    if rejected:
        tags.add("op-rejected")
    direct_oracle(case, res, root, schema, kf, default_key, tmp)
    return obs


def direct_oracle(case, res, root, schema, kf, default_key, tmp=None):
    from cincoconfig.core import Config
    tags = res["tags"]
    # ---- clause 2 and 3: the tree -----------------------------------------------------------------
    tree = vtree = None
    try:
        tree = root.to_tree()
    except Exception as e:  # noqa
        add(res, "to_tree() raised %s at %s" % (type(e).__name__, err_path(e)), clause="tree")
    try:
        vtree = root.to_tree(virtual=True)
    except Exception as e:  # noqa
        add(res, "to_tree(virtual=True) raised %s at %s" % (type(e).__name__, err_path(e)), clause="tree")
    rep = representability(root)
    regions0, _ = find_regions(root)
    if tree is not None and rep["plain"]:
        pv = plain_violations(tree)
        # one message per distinct kind of violation first (a non-string key must not hide a non-plain value)
        pv.sort(key=lambda m: (m[1] == "nonstr-key" and m[2] in regions0["F53"]))
        for m, what, pth in pv[:4]:
            add(res, "to_tree() is not plain data: %s" % m, clause="plain", what=what, path=pth)
    if tree is not None:
        for m in virtual_violations(root, tree, vtree)[:3]:
            add(res, m, clause="virtual")
    # ---- the premise: a valid state ---------------------------------------------------------------------
    try:
        errs = root.validate(collect_errors=True)
        valid = not errs
    except Exception:  # noqa
        valid = False
    regions, disabled = find_regions(root)
    res["regions"] = regions
    for r, ps in regions.items():
        if ps and r != "F50":
            tags.add("region:" + r)
    if disabled:
        tags.add("feature-disabled")
    tags.add("valid-final-state" if valid else "invalid-final-state")
    if regions["F50"]:
        # regression of the repaired defect F50: whole-configuration validation descends into the items of a list
        tags.add("stale-list-item")
        if valid:
            add(res, "F50 is back: validate() reports nothing although the list item(s) %s hold invalid values" % ", ".join(regions["F50"][:3]),
                clause="stale-item")
    if not rep["plain"]:
        tags.add("skip:non-plain-value")
    if rep["nonfinite"]:
        tags.add("float-nonfinite")
    # ---- clause 1: the round trip, per format and option ---------------------------------------------------
    done = 0
    if valid and rep["plain"]:
        for idx, combo in enumerate(case["combos"]):
            fmt, opts = combo[0], combo[1]
            via_file = len(combo) > 2 and tmp is not None     # the FILE route: cfg.save(path, fmt) / fresh.load(path, fmt)
            label = fmt + ("" if not opts else "(" + ",".join("%s=%s" % kv for kv in sorted(opts.items())) + ")") + (" via save/load" if via_file else "")
            if fmt in ("xml", "bson") and not rep[fmt]:
                tags.add("skip:%s-unrepresentable" % fmt)
                continue
            fresh = Config(schema, key_filename=kf) if kf else schema()
            if via_file:
                path = os.path.join(tmp, "doc-%d.%s" % (idx, fmt))
                try:
                    root.save(path, fmt)
                except Exception as e:  # noqa
                    add(res, "%s: save raised %s at %s" % (label, type(e).__name__, err_path(e)), clause="rt", what="dump-raise", path=err_path(e), fmt=fmt)
                    continue
                with open(path, "rb") as fp:
                    doc = fp.read()
                if doc[:1].isspace() or doc[-1:].isspace():
                    tags.add("file-edge-whitespace:" + fmt)      # a document whose first / last byte is ASCII white space
                try:
                    fresh.load(path, fmt)
                except Exception as e:  # noqa
                    add(res, "%s: loading the saved file raised %s at %s" % (label, type(e).__name__, err_path(e)),
                        clause="rt", what="load-raise", path=err_path(e), fmt=fmt)
                    continue
            else:
                try:
                    doc = root.dumps(format=fmt, **opts)
                except Exception as e:  # noqa
                    add(res, "%s: dumps raised %s at %s" % (label, type(e).__name__, err_path(e)), clause="rt", what="dump-raise", path=err_path(e), fmt=fmt)
                    continue
                if not isinstance(doc, bytes):
                    add(res, "%s: dumps returned %s" % (label, type(doc).__name__), clause="rt", what="dump-type", path=None, fmt=fmt)
                    continue
                try:
                    fresh.loads(doc, format=fmt, **opts)
                except Exception as e:  # noqa
                    add(res, "%s: loading the saved document raised %s at %s" % (label, type(e).__name__, err_path(e)),
                        clause="rt", what="load-raise", path=err_path(e), fmt=fmt)
                    continue
            out, norms = [], set()
            cmp_cfg(root, fresh, "", out, norms)
            tags.update(norms)
            for d in out[:3]:
                add(res, "%s: %s: %s" % (label, d[0] or "<root>", d[1]), clause="rt", what=d[2] if len(d) > 2 else "diff", path=d[0], fmt=fmt)
            tags.add("fmt:" + label)
            done += 1
    # ---- clause 4: the default key file is not touched when a key file was given -------------------------------
    if os.path.exists(default_key):
        if kf:
            add(res, "the default key file ~/.cincokey was created although the configuration names its own key file", clause="cincokey")
        os.remove(default_key)
    res["nontrivial"] = bool(done) and has_user_value(root)
    tags.add("keyfile:" + ("none" if not kf else "existing" if case["kf"]["exists"] else "created-on-demand"))


# ---------------------------------------------------------------------------------------------
# oracle / classify / tags / nontrivial
# ---------------------------------------------------------------------------------------------
def oracle(case, obs):
    res = case.get("_res")
    if res is None:
        return ["harness: impl did not run"]
    return list(res["viol"])


def under(p, region):
    return region == "" or p == region or p.startswith(region + ".") or p.startswith(region + "[")


def classify(case, msg):
    res = case.get("_res") or {}
    info = res.get("info", {}).get(msg)
    reg = res.get("regions", {})
    if info and info.get("clause") == "plain" and info.get("what") == "nonstr-key" and info.get("path") in reg.get("F53", []):
        return "F53"        # the map of a typed dict with an int/float/bool key field is rendered with those keys
    if not info or info.get("clause") != "rt":
        return None
    p, what = info.get("path"), info.get("what")
    if what == "load-raise" and p is not None:
        if any(under(p, r) for r in reg.get("F36", [])):
            return "F36"
    if what in ("load-raise", "diff") and p is not None and any(under(p, r) and p != r for r in reg.get("F34", [])) \
            and _is_secret_path(case, p):
        return "F34"
    if what in ("load-raise", "diff") and reg.get("F35") and (p is None or any(under(p, r) for r in reg["F35"])):
        return "F35"
    return None


def _is_secret_path(case, p):
    """does the reference path name a secure field (or an item of a typed list/dict of secrets) of a rich case"""
    import re
    if case["mode"] != "rich":
        return False
    fields = case["fields"]
    parts = [re.sub(r"\[[^\]]*\]$", "", x) for x in p.split(".")]
    for i, part in enumerate(parts):
        nd = dict(fields).get(part)
        if nd is None:
            return False
        if nd["t"] == "leaf":
            def sec(n):
                pp = n.get("p", {})
                return n["kind"] == "secure" or any(isinstance(pp.get(x), dict) and sec(pp[x]) for x in ("item", "value"))
            return i == len(parts) - 1 and sec(nd)
        if "fields" not in nd:
            return False
        fields = nd["fields"]
    return False


def desc_tags(fields, depth=1):
    t, d = set(), depth
    for _, nd in fields:
        if nd["t"] == "leaf":
            k = nd["kind"]
            if isinstance(k, tuple):
                t.add("kind:" + k[0])
                continue
            t.add("kind:" + k)
            p = nd.get("p", {})
            if k == "list":
                t.add("list-of:" + (p["item"]["kind"] if p.get("item") else "untyped"))
            if k == "dict":
                t.add("dict-of:" + (p["value"]["kind"] if p.get("value") else "untyped"))
                ks = p.get("key")
                if isinstance(ks, dict):
                    t.add("dict-key:" + ks["kind"] + ("-" + ks["p"]["enc"] if ks["kind"] == "bytes" else ""))
            if nd.get("callable"):
                t.add("callable-default")
        else:
            t.add("node:" + nd["t"] + ("-ctype" if nd.get("ctype") else "") + ("-dynamic" if nd.get("dyn") else ""))
            if "fields" in nd:
                t2, d2 = desc_tags(nd["fields"], depth + 1)
                t |= t2
                d = max(d, d2)
    return t, d


def tags(case, obs):
    t = set((case.get("_res") or {}).get("tags", ()))
    t.add("kind=" + case.get("kind", "?"))
    t.add("model" if case["mode"] == "model" else "oracle-only")
    fields = case["co"]["fields"] if case["mode"] == "model" else case["fields"]
    dt, depth = desc_tags(fields)
    t |= dt
    t.add("depth=%d" % depth)
    if (case["co"]["dyn"] if case["mode"] == "model" else case["dyn"]):
        t.add("root-dynamic")
    if case["mode"] == "rich" and any(op[0] == "set" and op[3] is None for op in case["ops"]):
        t.add("user-set-none")
    if case["mode"] == "model" and isinstance(obs, tuple) and len(obs) == 6:
        t.add("verdict:%s" % obs[5])
    return t


def nontrivial(case, obs):
    return bool((case.get("_res") or {}).get("nontrivial"))


# =============================================================================================
# standalone self-test of the Python side:  HOME=$(mktemp -d) /venv/bin/python harness/s_roundtrip.py [tier] [seed ...]
# =============================================================================================
def _selftest(argv):
    import time
    tier = argv[1] if len(argv) > 1 and argv[1] in ("quick", "thorough") else "quick"
    seeds = [int(x) for x in argv[2:]] or [20260926]
    import common
    rc = 0
    for seed in seeds:
        rng = random.Random(seed * 1000003 + 0)
        t0 = time.time()
        cases = generate(rng, tier)
        t1 = time.time()
        tagcount, known, viols, nontriv, lit = {}, {}, [], 0, 0
        for i, c in enumerate(cases):
            obs = impl(c)
            lit += len(gcase(c)) + len(common.gal(obs))
            for m in oracle(c, obs):
                k = classify(c, m)
                if k:
                    known[k] = known.get(k, 0) + 1
                else:
                    viols.append((i, c.get("kind"), m))
            for t in tags(c, obs):
                tagcount[t] = tagcount.get(t, 0) + 1
            nontriv += bool(nontrivial(c, obs))
            common.digest_of((NAME, c))
            common.uncanon(common.canon({k: v for k, v in c.items() if not k.startswith("_")}))
        t2 = time.time()
        print("seed %d tier %s: %d cases, generate %.1fs, impl+oracle %.1fs, literals %.0f kB, non-trivial %d" % (
            seed, tier, len(cases), t1 - t0, t2 - t1, lit / 1000.0, nontriv))
        print("known-finding hits:", known)
        for k in sorted(tagcount):
            print("   %-40s %d" % (k, tagcount[k]))
        print("VIOLATIONS: %d" % len(viols))
        for i, kind, m in viols[:25]:
            print("   case %d (%s): %s" % (i, kind, m))
        if viols:
            rc = 1
    return rc


if __name__ == "__main__":
    _home = tempfile.mkdtemp(prefix="verif_home_")
    os.environ["HOME"] = _home
    sys.dont_write_bytecode = True
    sys.path.insert(0, os.environ.get("VERIF_REPO", "/repo"))
    try:
        _rc = _selftest(sys.argv)
    finally:
        shutil.rmtree(_home, ignore_errors=True)
    sys.exit(_rc)
