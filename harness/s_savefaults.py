"""
stream `savefaults` (C19): Config.save onto a destination that already holds a previous configuration,
with a fault injected at each step serialisation goes through; compared with Save.v (`run_savefaults`).

One case = a schema (plain fields, secrets, a nested sub-configuration, a list of configurations, an
untyped field, a virtual field), the state of every key file, the destination, the format and the
faults: field i's to_basic raising (a stub on that field object, for that configuration object),
an unusable key file (wrong size / directory missing), the cipher raising, an unknown format name, the
formatter raising (stub) or being handed a value outside its domain.  Everything is real: real files in
a private directory, real formats, real key files.  Every open-for-writing is recorded twice (audit hook:
attempts, whatever API is used; builtins.open wrapper: successes) and the whole directory is snapshotted
before and after.

A case is a HISTORY on one configuration object: its first save, then optionally more steps -- further
saves (new values, new faults, other destination / format) and changes made by someone else in between
(a key file repaired, rotated, damaged or deleted; the destination overwritten or deleted).

The model (Save.v, run_savefaults) receives per save (fields with their outcomes, format known?, formatter
outcome) plus the world (key-file states, unwritable paths, random draws) and predicts for every step
(outcome, files opened for writing in order, content of destinations and key files afterwards); it
threads only the file system through the saves (KeyFile objects hold nothing between saves).
The oracle does not use the model: failed save => destination byte-identical (or still absent), nothing
but key files written; successful save => bytes == what dumps returned == an independent dumps of a
brand-new configuration with equal values and the key files now on disk, and a brand-new configuration
loaded from the file holds equal values.
"""
import builtins
import hashlib
import math
import os
import shutil
import sys
import tempfile
from unittest import mock

from common import g_str, g_bytes, g_bool, g_list, Broken

NAME = "savefaults"
IMPORTS = "From Cinco Require Import Base Save."
RUN = "run_savefaults"
CASE_TYPE = "scase"

FORMATS = ["json", "yaml", "xml", "bson", "pickle"]
FMT_CLASS = {"json": ("json", "JsonConfigFormat"), "yaml": ("yaml", "YamlConfigFormat"), "xml": ("xml", "XmlConfigFormat"),
             "bson": ("bson", "BsonConfigFormat"), "pickle": ("pickle", "PickleConfigFormat")}
# values an untyped field (AnyField, ListField() / DictField() without an item field) may hold, and the formats
# whose dumps refuses them (measured on the unchanged tree with every kind x format x container; see reg_C19)
ANY_VALUES = {"int": 12, "str": "plain", "bytes": b"\x00\xffraw", "big": 2 ** 70, "nul": "a\x00b", "blist": [1, b"x"],
              "tuple": (1, "a"), "ntuple": (1, (2, 3)), "etuple": (), "list_tuple": [1, (2, 3)], "dict_tuple": {"k": (1, 2)},
              "intkeys": {1: "a", 2: "b"}, "set": {1, 2}, "frozenset": frozenset([1]), "bytearray": bytearray(b"ab"),
              "nested": {"a": [1, {"b": None}]}, "ustr": "caf\u00e9 \u2603", "inf": float("inf"), "complex": 1 + 2j,
              "float": -0.5, "none": None}
# map keys that are not XML names (measured per key kind x format x container on the unchanged tree: JSON, BSON, pickle
# and YAML carry all of them -- YAML sorts the keys --, XML refuses all but the last four and the destination stays as it
# was; keys containing '>' used to save and load back unequal: F58, repaired, now refused like the others)
DICT_KEYS = {"space": "max connections", "digit": "1abc", "gt": "a>b", "gt_end": "a>", "gt2": "x>y>z", "empty": "", "tab": "a\tb", "colon": "x:y", "dash": "-lead",
             "lt": "a<b", "amp": "a&b", "quote": 'a"b', "slash": "a/b", "nl": "a\nb", "lead": " a", "num": "123", "eq": "a=b",
             "uni": "caf\u00e9", "dot": "a.b", "xmlpfx": "xmlfoo", "uscore": "a_b"}
_XML_NAME_KEYS = {"uni", "dot", "xmlpfx", "uscore"}
for _n, _k in DICT_KEYS.items():
    ANY_VALUES["key_" + _n] = {_k: "v1", "b": "v2"}
ANY_VALUES["key_two"] = {"a  b": "v1", "a b": "v2", "a_b": "v3"}
_TUPLES = {"tuple", "ntuple", "etuple", "list_tuple", "dict_tuple"}
OUTSIDE = {k: set() for k in ANY_VALUES}
for _k in ("bytes", "blist", "bytearray", "complex", "set", "frozenset"):
    OUTSIDE[_k] |= {"json", "xml"}
for _k in ("big", "bytearray", "complex", "set", "frozenset"):
    OUTSIDE[_k] |= {"bson"}
for _k in _TUPLES | {"intkeys", "nul"}:
    OUTSIDE[_k] |= {"xml"}
for _k in ANY_VALUES:
    if _k.startswith("key_") and _k[4:] not in _XML_NAME_KEYS:
        OUTSIDE[_k] |= {"xml"}
# the one normalisation a format applies on the way back: JSON and BSON have no tuple, a tuple loads as a list
TUPLE_AS_LIST = {"json", "bson"}
# (format, kind) outside the format's representable domain although dumps accepts it: maps with non-string keys
# under JSON/BSON come back with string keys (XML refuses them, except a None key, which it drops).  C02/C04 speak
# of string-keyed maps; ruled "observed, not counted" (reg_C19): kept out of the generated domain.  YAML and
# pickle round-trip int keys and keep them.
NOT_REPRESENTABLE = {("json", "intkeys"), ("bson", "intkeys")}
UNTYPED = ("any", "ulist", "udict")
SECRET_LENGTHS = [0, 1, 15, 16, 17, 31, 32, 33, 48]


def untyped_value(container, kind):
    v = ANY_VALUES[kind]
    return v if container == "any" else [v, 1] if container == "ulist" else {"k": v}


def secret_text(n):
    """a plaintext of exactly n UTF-8 bytes (2-byte characters first: character count != byte count); never
    collides with the 'S<step>:<path>' texts the cipher fault targets"""
    return "\u00e9" * (n // 2) + "x" * (n % 2)


KEYFILE_CONTENT = {"valid": lambda i: bytes((i * 37 + j) % 251 + 1 for j in range(32)), "short": lambda i: b"12345",
                   "empty": lambda i: b"", "long": lambda i: bytes(33)}
PLAIN_VALUES = {"int": 41, "str": "v-text", "bool": True, "float": 2.5, "ilist": [1, 2, 3], "slist": ["x", "y"], "none": None}
PLAIN_FIELD = {"int": "int", "str": "str", "bool": "bool", "float": "float", "ilist": "ilist", "slist": "slist", "none": "str"}
# typed field kinds of the SUCCESS clause (round-trip matrix): kind -> (field maker, value).  Byte strings chosen by
# their base64 text: '+' and '/' present, '=' padding of length 0 / 1 / 2, empty; strings with leading / trailing /
# inner blanks, tabs, newlines, blank-only; floats at the edges; bool next to int; None in every field type
_B = {"empty": b"", "pad2": b"\xfb", "pad1": b"\xfb\xff", "pad0": b"\xfb\xff\xbf", "plain": b"\x00\x10\x83",
      "mixed": bytes([0xfb, 0xef, 0xbe, 0xff, 0xff, 0x3e, 0x3f, 0x00, 0xfa]), "slashes": b"\xff\xff\xff\xff", "text": b"hello"}
_S = {"lead": "  lead", "trail": "trail  ", "inner": "in  ner", "tabs": "\ttab\tbed\t", "nl": "line\nbreak\n", "lnl": "\nstart",
      "blank": "   ", "onlynl": "\n", "mixedws": " \t\n mixed \n\t ", "empty": "", "cr": "a\r\nb\r", "uni": "\u00a0nb\u2003sp\u00a0"}
_F = {"inf": float("inf"), "ninf": float("-inf"), "nan": float("nan"), "nzero": -0.0, "huge": 1e300, "tiny": 5e-324, "tenth": 0.1,
      "whole": 3.0,
      # 7..17 significant digits, large / small exponents: repr differs from "%g", "%f", "%.6f", "%.12g" renderings
      "d7": 1.234567, "d8": 12.345678, "d9": 123456.789, "d10": 1234567.891, "d12": 0.123456789012, "d13": 1e-7 + 1e-13,
      "d15": 123456789.123456, "d16": 0.1 + 0.2, "d17": 3.141592653589793, "third": 1.0 / 3.0, "max": 1.7976931348623157e308,
      "minnorm": 2.2250738585072014e-308, "e22": 1e22, "e23": 1e23, "int53": 9007199254740993.0, "e16p2": 1e16 + 2,
      "small": -2.5e-05, "smalld": 1.2345678901234e-200, "bigd": -9.87654321098765e+250, "half6": 100000.5, "f6": 0.0000015}
TYPED = {}
for _n, _v in _B.items():
    TYPED["b64_" + _n] = ("b64", _v)
    TYPED["hex_" + _n] = ("hex", _v)
for _n, _v in _S.items():
    TYPED["str_" + _n] = ("str", _v)
for _n, _v in _F.items():
    TYPED["float_" + _n] = ("float", _v)
TYPED.update({
    "b64_list": ("b64list", [_B["pad2"], _B["empty"], _B["mixed"], _B["pad1"]]),
    "hex_list": ("hexlist", [_B["pad2"], _B["empty"], _B["mixed"]]),
    "b64_dict": ("b64dict", {"k1": _B["pad1"], "k2": _B["slashes"], "k3": _B["empty"]}),
    "str_list": ("slist", [_S["lead"], _S["trail"], _S["blank"], _S["nl"], _S["empty"], _S["tabs"]]),
    "str_list_cr": ("slist", [_S["cr"], "x"]),
    "str_dict": ("sdict", {"k1": _S["trail"], "k2": _S["mixedws"], "k3": _S["onlynl"]}),
    "float_list": ("flist", [_F["inf"], _F["nzero"], _F["nan"], 1.5]),
    "float_list_fin": ("flist", [_F["nzero"], _F["tiny"], 1.5, 3.0]),
    "float_list_digits": ("flist", [_F["d17"], _F["d10"], _F["d16"], _F["d13"], _F["bigd"]]),
    "bool_true": ("bool", True), "bool_false": ("bool", False), "int_one": ("int", 1), "int_zero": ("int", 0),
    "int_neg": ("int", -7), "int_big": ("int", 2 ** 40),
    "none_int": ("int", None), "none_float": ("float", None), "none_bool": ("bool", None), "none_b64": ("b64", None),
    "empty_slist": ("slist", []), "empty_sdict": ("sdict", {}),
})
for _n, (_m, _v) in TYPED.items():
    PLAIN_VALUES[_n] = _v
    PLAIN_FIELD[_n] = _m
# for every kind above whose value is not None: the variant "the field has that value as its DEFAULT and was explicitly
# assigned None before the save" -- the saved file says null and a fresh configuration must hold None, not the default.
# Typed ListField / DictField are left out: None is accepted but loads back as [] / {} (format-independent, observed, see
# reg_C19).
PLAIN_DEFAULT = {}
DEFAULT_NONE = {}
for _n, (_m, _v) in list(TYPED.items()):
    if _v is not None and _m in ("int", "str", "bool", "float", "b64", "hex"):
        DEFAULT_NONE["dn_" + _n] = (_m, _v)
        PLAIN_VALUES["dn_" + _n] = None
        PLAIN_FIELD["dn_" + _n] = _m
        PLAIN_DEFAULT["dn_" + _n] = _v
# (format, kind) the format cannot carry (measured on the unchanged tree over every kind x format; listed in reg_C19):
# XML normalises line ends, '\r\n' and '\r' are read back as '\n'.  Everything else above round-trips exactly in all
# five formats.  (Also measured, format-independent, not generated: a typed ListField / DictField that was never set
# holds None and loads back as [] / {}.)
TYPED_NOT_REPRESENTABLE = {("xml", "str_cr"), ("xml", "str_list_cr")}
# typed kinds a format's dumps refuses (the save must fail and leave the destination alone)
TYPED_OUTSIDE = {}
for _n, _k in DICT_KEYS.items():
    TYPED["sdict_key_" + _n] = ("sdict", {_k: "v1", "b": "v2"})
    PLAIN_VALUES["sdict_key_" + _n] = TYPED["sdict_key_" + _n][1]
    PLAIN_FIELD["sdict_key_" + _n] = "sdict"
    TYPED_OUTSIDE["sdict_key_" + _n] = set() if _n in _XML_NAME_KEYS else {"xml"}
SAFE_KIND = {"str": "str_nl", "slist": "str_list", "sdict": "str_dict"}       # a representable kind of the same field type


def outside(f, fmt):
    """does the format's dumps refuse the value this field spec holds?"""
    if f[0] in UNTYPED:
        return fmt in OUTSIDE[f[2]]
    return f[0] == "plain" and fmt in TYPED_OUTSIDE.get(f[2], ())

# ---------------------------------------------------------------------------------------------
# recording of opens: audit hook (installed once, cannot be removed) + builtins.open wrapper
# ---------------------------------------------------------------------------------------------
_REC = {"root": None, "attempts": []}
_INFO = {}   # id(case) -> what impl recorded for the oracle (kept out of the case: evidence and replay files stay small)
_WFLAGS = os.O_WRONLY | os.O_RDWR | os.O_CREAT | os.O_TRUNC | os.O_APPEND


def _audit(event, args):
    root = _REC["root"]
    if root is None:
        return
    try:
        if event == "open":
            p, mode, flags = args[0], args[1], args[2]
            if isinstance(p, bytes):
                p = p.decode("utf-8", "replace")
            if not isinstance(p, str) or not os.path.abspath(p).startswith(root):
                return
            w = (isinstance(mode, str) and any(ch in mode for ch in "wax+")) or (isinstance(flags, int) and flags & _WFLAGS)
            if w:
                _REC["attempts"].append(os.path.abspath(p))
        elif event in ("os.rename", "os.remove", "os.truncate", "os.link", "os.symlink", "os.mkdir", "os.rmdir", "shutil.move",
                       "shutil.copyfile", "os.replace"):
            for a in args[:2]:
                if isinstance(a, str) and os.path.abspath(a).startswith(root):
                    _REC["attempts"].append(os.path.abspath(a))
    except Exception:  # noqa -- an audit hook must never raise into the implementation
        pass


_HOOKED = [False]


def _install_hook():
    if not _HOOKED[0]:
        sys.addaudithook(_audit)
        _HOOKED[0] = True


# ---------------------------------------------------------------------------------------------
# case -> real schema / configuration / world
# ---------------------------------------------------------------------------------------------
# field specs (tuples, plain data):
#   ("plain", key, vkind, fault)         fault: None | "raise" | "raise_ve"
#   ("any", key, anykind)                untyped field holding ANY_VALUES[anykind]
#   ("virt", key)                        virtual field: skipped by to_tree
#   ("secret", key, method, nonempty, fault)   fault: None | "enc"
#   ("sub", key, keyfile-name-or-None, [fields])
#   ("list", key, [fields of the item schema], [[fields of item 0], [fields of item 1], ...])
def build_schema(fields):
    from cincoconfig import (Schema, IntField, StringField, BoolField, FloatField, ListField, AnyField, VirtualField,
                             SecureField, DictField)
    s = Schema()
    for f in fields:
        kind, key = f[0], f[1]
        if kind == "plain":
            from cincoconfig import BytesField
            makers = {"int": IntField, "str": StringField, "bool": BoolField, "float": FloatField,
                      "b64": BytesField, "hex": lambda **kw: BytesField(encoding="hex", **kw),
                      "ilist": lambda **kw: ListField(IntField(), **kw), "slist": lambda **kw: ListField(StringField(), **kw),
                      "flist": lambda **kw: ListField(FloatField(), **kw), "b64list": lambda **kw: ListField(BytesField(), **kw),
                      "hexlist": lambda **kw: ListField(BytesField(encoding="hex"), **kw),
                      "sdict": lambda **kw: DictField(StringField(), StringField(), **kw),
                      "b64dict": lambda **kw: DictField(StringField(), BytesField(), **kw)}
            if PLAIN_FIELD.get(f[2]) not in makers:
                raise Broken("bad plain kind %r" % (f,))
            kw = {"default": PLAIN_DEFAULT[f[2]]} if f[2] in PLAIN_DEFAULT else {}
            setattr(s, key, makers[PLAIN_FIELD[f[2]]](**kw))
        elif kind == "any":
            setattr(s, key, AnyField())
        elif kind == "ulist":
            setattr(s, key, ListField())
        elif kind == "udict":
            setattr(s, key, DictField())
        elif kind == "virt":
            setattr(s, key, VirtualField(lambda cfg: 5))
        elif kind == "secret":
            setattr(s, key, SecureField(method=f[2]))
        elif kind == "sub":
            setattr(s, key, build_schema(f[3]))
        elif kind == "list":
            setattr(s, key, ListField(build_schema(f[2])))
        else:
            raise Broken("bad field %r" % (f,))
    return s


def dotted(pre, key):
    return pre + "." + key if pre else key


def populate(cfg, fields, pre, real, inject, stepno=0, first=True):
    """set the values of save number `stepno`; collect the fault injections:
    inject["stubs"][id(field)] = (field, [(cfg, kind)]), inject["cipher"] = set of plaintexts whose
    encryption must fail.  Key files of sub-configurations are named once (first=True): naming one
    again would replace the KeyFile object, whose life across saves is part of what is observed."""
    schema_fields = cfg._schema._fields
    for f in fields:
        kind, key = f[0], f[1]
        if kind == "plain":
            if PLAIN_VALUES[f[2]] is not None:
                v = PLAIN_VALUES[f[2]]
                setattr(cfg, key, list(v) if isinstance(v, list) else dict(v) if isinstance(v, dict) else v)
            elif f[2] in PLAIN_DEFAULT:
                setattr(cfg, key, None)             # explicitly None although the field has a default
            if f[3]:
                fld = schema_fields[key]
                inject["stubs"].setdefault(id(fld), (fld, []))[1].append((cfg, f[3]))
        elif kind in UNTYPED:
            setattr(cfg, key, untyped_value(kind, f[2]))
        elif kind == "secret":
            if f[3] is True:
                text = "S%d:%s" % (stepno, dotted(pre, key))
                setattr(cfg, key, text)
                if f[4] == "enc":
                    inject["cipher"].add(text.encode())
            elif f[3] is False:
                setattr(cfg, key, None)
            else:
                setattr(cfg, key, secret_text(f[3]))        # a plaintext of exactly f[3] UTF-8 bytes
        elif kind == "sub":
            sub = getattr(cfg, key)
            if f[2] and first:
                sub._key_filename = real(f[2])
            populate(sub, f[3], dotted(pre, key), real, inject, stepno, first)
        elif kind == "list":
            cur = getattr(cfg, key)
            if first or cur is None or len(cur) != len(f[3]):
                setattr(cfg, key, [{} for _ in f[3]])       # else: the item objects of the previous save are kept
            items = list(getattr(cfg, key))
            for i, item_fields in enumerate(f[3]):
                populate(items[i], item_fields, "%s[%d]" % (dotted(pre, key), i), real, inject, stepno, first)


def values_of(cfg, fields):
    """plain Python values of a configuration, by the case's own field list (never by schema introspection)"""
    out = []
    for f in fields:
        kind, key = f[0], f[1]
        if kind == "secret":
            v = getattr(cfg, key)
            out.append((key, None if v == "" else v))       # an empty secret is stored as null (secure_field.py:316)
        elif kind in ("plain",) + UNTYPED:
            v = getattr(cfg, key)
            out.append((key, list(v) if isinstance(v, list) else dict(v) if isinstance(v, dict) else v))
        elif kind == "sub":
            out.append((key, values_of(getattr(cfg, key), f[3])))
        elif kind == "list":
            items = list(getattr(cfg, key) or [])
            out.append((key, [values_of(it, f[2]) for it in items]))
    return out


def real_path(root, name):
    """a key-file / destination name of the case -> what is handed to the library"""
    return name if name.startswith("~") else os.path.join(root, name)


def rel_expanded(name):
    """the same name as the model sees the file after expanduser with HOME = <root>/h"""
    if name == "~":
        return "h"
    return "h" + name[1:] if name.startswith("~/") else name


def steps_of(case):
    """the history of a case: its first save (the top-level keys) and whatever follows in case["more"]:
    ("save", {fmt, fields, dest, fmtfault, faults[, root_kf]}) | ("ext", name, bytes-or-None).
    A save with "root_kf" first re-assigns the ROOT configuration's key file name (cfg._key_filename = ...)."""
    first = {k: case[k] for k in ("fmt", "fields", "dest", "fmtfault", "faults")}
    return [("save", first)] + [tuple(st) for st in case.get("more", [])]


def dest_names(case):
    out = []
    for st in steps_of(case):
        if st[0] == "save" and rel_expanded(st[1]["dest"]) not in out:
            out.append(rel_expanded(st[1]["dest"]))
    return out


def make_world(root, case):
    for d in ("d", "k", "h"):
        os.makedirs(os.path.join(root, d), exist_ok=True)
    for i, (name, state) in enumerate(case["keyfiles"]):
        if state in KEYFILE_CONTENT:
            with open(os.path.join(root, rel_expanded(name)), "wb") as fp:
                fp.write(KEYFILE_CONTENT[state](i))
    if case["prev"] is not None:
        with open(os.path.join(root, rel_expanded(case["dest"])), "wb") as fp:
            fp.write(case["prev"])


def snapshot(root):
    snap = {}
    for base, _, files in os.walk(root):
        for f in files:
            p = os.path.join(base, f)
            with open(p, "rb") as fp:
                snap[os.path.relpath(p, root)] = fp.read()
    return snap


class _Urandom:
    def __init__(self, draws):
        self.draws = list(draws)
        self.iv = 0
        self.underflow = False

    def __call__(self, n):
        if n == 32:
            if not self.draws:
                self.underflow = True
                return b"\xee" * 32
            return self.draws.pop(0)
        self.iv += 1
        return hashlib.md5(b"iv%d" % self.iv).digest()[:n].ljust(n, b"\x01")


def _errkind(e):
    from cincoconfig.core import ValidationError
    if isinstance(e, ValidationError):
        try:
            return ("err", ("validation", e.ref_path))
        except Exception:  # noqa
            return ("err", ("validation", "?"))
    if isinstance(e, KeyError):
        return ("err", "key")
    if isinstance(e, OSError):
        return ("err", "os")
    return ("err", "other")


class _Patches:
    """all fault injections of a case, as one context manager"""

    def __init__(self, case, inject, urandom):
        self.case, self.inject, self.urandom = case, inject, urandom
        self.stack = []

    def __enter__(self):
        import os as _os
        from cincoconfig import encryption
        from cincoconfig.core import ValidationError
        case, inject = self.case, self.inject

        def add(p):
            p.start()
            self.stack.append(p)

        add(mock.patch.object(_os, "urandom", self.urandom))
        for fld, targets in inject["stubs"].values():
            orig = fld.to_basic

            def stub(cfg, value, _orig=orig, _targets=targets, _fld=fld):
                for tcfg, kind in _targets:
                    if tcfg is cfg:
                        if kind == "raise_ve":
                            raise ValidationError(cfg, _fld, "injected", ref_path="custom.path")
                        raise RuntimeError("injected fault in to_basic")
                return _orig(cfg, value)
            add(mock.patch.object(fld, "to_basic", stub))
        if inject["cipher"]:
            bad = inject["cipher"]
            for cls in (encryption.XorProvider, encryption.AesProvider):
                orig_enc = cls.encrypt

                def enc(self_, text, _orig=orig_enc):
                    data = text.encode() if isinstance(text, str) else bytes(text)
                    if data in bad:
                        raise encryption.EncryptionError("injected cipher fault")
                    return _orig(self_, text)
                add(mock.patch.object(cls, "encrypt", enc))
        if case["fmtfault"] == "patch" and case["fmt"] in FMT_CLASS:
            import importlib
            modname, clsname = FMT_CLASS[case["fmt"]]
            cls = getattr(importlib.import_module("cincoconfig.formats." + modname), clsname)

            def boom(self_, config, tree):
                raise RuntimeError("injected formatter fault")
            add(mock.patch.object(cls, "dumps", boom))
        return self

    def __exit__(self, *exc):
        while self.stack:
            self.stack.pop().stop()
        return False


def _has_sub_keyfile_secret(fields):
    def has_secret(fs):
        for f in fs:
            if f[0] == "secret" and f[3]:
                return True
            if f[0] == "sub" and has_secret(f[3]):
                return True
            if f[0] == "list" and any(has_secret(it) for it in f[3]):
                return True
        return False
    for f in fields:
        if f[0] == "sub" and ((f[2] and has_secret(f[3])) or _has_sub_keyfile_secret(f[3])):
            return True
        if f[0] == "list" and any(_has_sub_keyfile_secret(it) for it in f[3]):
            return True
    return False


def watch_paths(case):
    return dest_names(case) + [rel_expanded(n) for n, _ in case["keyfiles"]]


def impl(case):
    """the whole history on ONE configuration object; returns one observation per step"""
    import cincoconfig  # noqa: F401
    from cincoconfig.core import Config
    _install_hook()
    root = os.path.realpath(tempfile.mkdtemp(prefix="verif_sf_"))
    old_home = os.environ.get("HOME")
    real_open = builtins.open
    infos = []
    trace = []
    dests = set(dest_names(case))
    watch = watch_paths(case)

    def contents(snap):
        return [None if snap.get(p) is None else (hashlib.sha1(snap[p]).digest() if p in dests else snap[p]) for p in watch]

    def real(n):
        return real_path(root, n)

    try:
        make_world(root, case)
        os.environ["HOME"] = os.path.join(root, "h")
        schema = build_schema(case["fields"])
        root_kf = case["root_kf"]
        cfg = schema(key_filename=real(root_kf))        # the one object every save of the history uses
        ur = _Urandom(case["rng"])
        orig_dumps = Config.dumps
        nsave = 0
        for st in steps_of(case):
            if st[0] == "ext":
                target = os.path.join(root, rel_expanded(st[1]))
                if st[2] is None:
                    if os.path.exists(target):
                        os.unlink(target)
                else:
                    with open(target, "wb") as fp:
                        fp.write(st[2])
                infos.append(None)
                trace.append(("ext", [], contents(snapshot(root))))
                continue
            step = st[1]
            if step.get("root_kf") and step["root_kf"] != root_kf:
                root_kf = step["root_kf"]
                cfg._key_filename = real(root_kf)           # the root's key file is re-assigned; children must follow
            inject = {"stubs": {}, "cipher": set()}
            populate(cfg, step["fields"], "", real, inject, nsave, nsave == 0)
            before = snapshot(root)
            dest_real = real(step["dest"])
            successes = []
            produced = []
            iv0 = ur.iv

            def spy_dumps(self_, *a, **kw):
                r = orig_dumps(self_, *a, **kw)
                produced.append(r)
                return r

            def rec_open(file, mode="r", *a, **kw):
                fh = real_open(file, mode, *a, **kw)
                try:
                    if isinstance(file, (str, bytes, os.PathLike)) and any(ch in mode for ch in "wax+"):
                        p = os.path.abspath(os.fsdecode(file))
                        if p.startswith(root):
                            successes.append(os.path.relpath(p, root))
                except Exception:  # noqa
                    pass
                return fh

            outcome = "ok"
            with _Patches(step, inject, ur):
                with mock.patch.object(Config, "dumps", spy_dumps), mock.patch.object(builtins, "open", rec_open):
                    _REC["attempts"] = []
                    _REC["root"] = root
                    try:
                        try:
                            cfg.save(dest_real, step["fmt"])
                        finally:
                            _REC["root"] = None
                    except Exception as e:  # noqa
                        outcome = _errkind(e)
            after = snapshot(root)
            info = dict(before=before, after=after, attempts=[os.path.relpath(p, root) for p in _REC["attempts"]],
                        successes=list(successes), produced=list(produced), underflow=ur.underflow,
                        ref=None, want=None, reload=None)
            if outcome == "ok":
                # an independent serialisation: a brand-new configuration object with the same values, the key files
                # as they are on disk now, the same IV stream
                ur2 = _Urandom([])
                ur2.iv = iv0
                cfg2 = build_schema(case["fields"])(key_filename=real(root_kf))
                inject2 = {"stubs": {}, "cipher": set()}
                populate(cfg2, step["fields"], "", real, inject2, nsave, True)
                with _Patches(step, inject2, ur2):
                    try:
                        info["ref"] = cfg2.dumps(step["fmt"])
                    except Exception:  # noqa
                        info["ref"] = None
                info["underflow"] = info["underflow"] or ur2.underflow
                info["want"] = values_of(cfg2, step["fields"])
                # a fresh configuration loaded from the written file ("a new session")
                if _has_sub_keyfile_secret(step["fields"]):
                    info["reload"] = "skipped"      # F34 region (C03): sub-configuration key files do not survive a load
                else:
                    try:
                        cfg3 = build_schema(case["fields"])(key_filename=real(root_kf))
                        cfg3.load(dest_real, step["fmt"])
                        info["reload"] = values_of(cfg3, step["fields"])
                    except Exception as e:  # noqa
                        info["reload"] = ("err", type(e).__name__, str(e)[:200])
            infos.append(info)
            trace.append((outcome, list(successes), contents(after)))
            nsave += 1
        _INFO[id(case)] = infos
        return trace
    finally:
        _REC["root"] = None
        if old_home is None:
            os.environ.pop("HOME", None)
        else:
            os.environ["HOME"] = old_home
        shutil.rmtree(root, ignore_errors=True)


# ---------------------------------------------------------------------------------------------
# case -> Gallina
# ---------------------------------------------------------------------------------------------
def _resolve(fields, kf):
    """field specs -> Gallina fields, with the key file each secret resolves to (nearest named ancestor)"""
    out = []
    for f in fields:
        kind, key = f[0], f[1]
        if kind == "plain":
            o = {None: "(Ok PNone)", "raise": "(Err EOtherExn)", "raise_ve": '(Err (EValidation (sa "custom.path")))'}[f[3]]
            out.append("FPlain %s %s" % (g_str(key), o))
        elif kind in UNTYPED:
            out.append("FPlain %s (Ok PNone)" % g_str(key))
        elif kind == "virt":
            out.append("FSkip %s" % g_str(key))
        elif kind == "secret":
            out.append("FSecret %s %s %s %s" % (g_str(key), g_str(kf), g_bool(bool(f[3])),
                                               "(Err EEncryption)" if f[4] == "enc" else "(Ok PNone)"))
        elif kind == "sub":
            out.append("FSub %s %s" % (g_str(key), _resolve(f[3], f[2] or kf)))
        elif kind == "list":
            out.append("FList %s %s" % (g_str(key), g_list([_resolve(it, kf) for it in f[3]])))
    return g_list(out)


def formatter_fails(step):
    if step["fmtfault"] == "patch":
        return True

    def anyvals(fs):
        for f in fs:
            if f[0] in UNTYPED or f[0] == "plain":
                yield f
            elif f[0] == "sub":
                yield from anyvals(f[3])
            elif f[0] == "list":
                for it in f[3]:
                    yield from anyvals(it)
    return any(outside(f, step["fmt"]) for f in anyvals(step["fields"]))


def gcase(case):
    infos = _INFO.get(id(case)) or []
    dests = set(dest_names(case))
    files = []
    nowrite = []
    for i, (name, state) in enumerate(case["keyfiles"]):
        if state in KEYFILE_CONTENT:
            files.append("(%s,%s)" % (g_str(rel_expanded(name)), g_bytes(KEYFILE_CONTENT[state](i))))
        elif state == "nodir":
            nowrite.append(g_str(rel_expanded(name)))
    if case["prev"] is not None:
        files.append("(%s,%s)" % (g_str(rel_expanded(case["dest"])), g_bytes(hashlib.sha1(case["prev"]).digest())))
    for d in dests:
        if d.startswith("nd/"):
            nowrite.append(g_str(d))
    steps = []
    root_kf = case["root_kf"]
    for k, st in enumerate(steps_of(case)):
        if st[0] == "ext":
            rel = rel_expanded(st[1])
            c = "None" if st[2] is None else "(Some %s)" % g_bytes(hashlib.sha1(st[2]).digest() if rel in dests else st[2])
            steps.append("SExt %s %s" % (g_str(rel), c))
            continue
        step = st[1]
        if step["fmt"] not in FORMATS:
            fmt = "None"
        elif formatter_fails(step):
            fmt = "(Some (fconst (Err EOtherExn)))"
        else:
            ref = infos[k].get("ref") if k < len(infos) and infos[k] else None
            fmt = "(Some (fconst (Ok %s)))" % g_bytes(hashlib.sha1(ref if ref is not None else b"<no reference>").digest())
        root_kf = step.get("root_kf") or root_kf
        steps.append("SSave %s %s %s" % (_resolve(step["fields"], root_kf), g_str(step["dest"]), fmt))
    world = "{| sv_files := %s; sv_nowrite := %s; sv_rng := %s; sv_log := [] |}" % (
        g_list(files), g_list(nowrite), g_list(case["rng"], g_bytes))
    return ("{| c_home := %s; c_world := %s; c_steps := %s; c_watch := %s |}" % (
        g_str("h"), world, g_list(steps), g_list(watch_paths(case), g_str)))


# ---------------------------------------------------------------------------------------------
# the property itself, on the implementation (no model involved)
# ---------------------------------------------------------------------------------------------
def oracle(case, obs):
    infos = _INFO.get(id(case))
    if not infos or obs == "hang":
        return ["harness: no observation record"]
    bad = []
    n = 0
    for k, st in enumerate(steps_of(case)):
        if st[0] != "save":
            continue
        where = "" if not case.get("more") else "step %d (save #%d): " % (k, n)
        bad.extend(where + m for m in _oracle_save(case, st[1], infos[k], obs[k]))
        n += 1
    return bad


def _oracle_save(case, step, info, obs):
    bad = []
    outcome = obs[0]
    before, after = info["before"], info["after"]
    dest = rel_expanded(step["dest"])
    keyfiles = {rel_expanded(n) for n, _ in case["keyfiles"]}
    changed = {p for p in set(before) | set(after) if before.get(p) != after.get(p)}
    if info["underflow"]:
        bad.append("harness: more os.urandom(32) draws than recorded")
    # what the step was built to do (no model involved): without any fault the save must succeed; a fault
    # that is certain to fire (every kind except an unusable key file, which only matters when a non-empty
    # secret reaches it) must make it fail; an unknown format name must leave the whole directory alone
    certain = [f for f in step["faults"] if not f.startswith("keyfile-")]
    if not step["faults"] and outcome != "ok":
        bad.append("no fault was injected, yet the save failed: %r" % (outcome,))
    if certain and outcome == "ok":
        bad.append("save succeeded although a fault was injected (%s)" % ", ".join(certain))
    if "format" in step["faults"]:
        if outcome != ("err", "key"):
            bad.append("unknown format name gave %r" % (outcome,))
        if changed or info["attempts"] or info["successes"]:
            bad.append("unknown format name, yet files were touched: %s" % sorted(changed | set(info["attempts"])))
    if outcome != "ok":
        if before.get(dest) != after.get(dest):
            bad.append("failed save (%r) changed the destination: %s -> %s" % (
                outcome, _show(before.get(dest)), _show(after.get(dest))))
        for p in sorted(changed - {dest}):
            if p not in keyfiles:
                bad.append("failed save changed/created %s, which is not a key file" % p)
        for p in sorted(set(info["successes"])):
            if p not in keyfiles:
                bad.append("failed save opened %s for writing" % p)
        for p in sorted(set(info["attempts"])):
            if p not in keyfiles and not (p == dest and dest.startswith("nd/")):
                bad.append("failed save tried to open/alter %s" % p)
        for p in sorted(changed & keyfiles):
            if before.get(p) is not None:
                bad.append("failed save modified the existing key file %s" % p)
    else:
        written = after.get(dest)
        # (a save that does not go through self.dumps is judged by the independent serialisation below)
        if info["produced"] and written != info["produced"][-1]:
            bad.append("file content differs from the bytes dumps returned (%s vs %s)" % (
                _show(written), _show(info["produced"][-1])))
        if info["ref"] is None:
            bad.append("save succeeded although an independent dumps of an equal configuration fails")
        elif written != info["ref"]:
            bad.append("file content differs from an independent dumps of an equal configuration with the key files "
                       "now on disk (%s vs %s)" % (_show(written), _show(info["ref"])))
        for p in sorted(changed - {dest}):
            if p not in keyfiles:
                bad.append("successful save changed/created %s, which is neither destination nor key file" % p)
            elif before.get(p) is not None:
                bad.append("successful save modified the existing key file %s" % p)
        for p in sorted(set(info["attempts"]) | set(info["successes"])):
            if p != dest and p not in keyfiles:
                bad.append("successful save opened %s for writing" % p)
        if info["reload"] != "skipped":
            want = _tuples_to_lists(info["want"]) if step["fmt"] in TUPLE_AS_LIST else info["want"]
            got = _tuples_to_lists(info["reload"]) if step["fmt"] in TUPLE_AS_LIST and isinstance(info["reload"], list) else info["reload"]
            if not _same_values(got, want):
                bad.append("a fresh configuration loaded from the saved file differs: %r vs %r" % (info["reload"], info["want"]))
    return bad


def _same_values(a, b):
    """equality that also compares types (True != 1, (1,) != [1], {1: x} != {"1": x}); NaN equals NaN"""
    if isinstance(a, float) and isinstance(b, float):
        return (a != a and b != b) or (a == b and math.copysign(1.0, a) == math.copysign(1.0, b))
    if type(a) is not type(b):
        return False
    if isinstance(a, (list, tuple)):
        return len(a) == len(b) and all(_same_values(x, y) for x, y in zip(a, b))
    if isinstance(a, dict):
        if len(a) != len(b):
            return False
        for k in a:                                  # same keys (with their types), same values; order is not compared
            match = [k2 for k2 in b if _same_values(k, k2)]
            if len(match) != 1 or not _same_values(a[k], b[match[0]]):
                return False
        return True
    return a == b


def _tuples_to_lists(v):
    """the values_of structure is made of (key, value) pairs and lists: only VALUES are normalised"""
    def norm(x):
        if isinstance(x, (tuple, list)):
            return [norm(i) for i in x]
        if isinstance(x, dict):
            return {k: norm(i) for k, i in x.items()}
        return x
    return norm(v)


def _show(b):
    if b is None:
        return "<absent>"
    return "%d bytes %r" % (len(b), bytes(b[:24]))


def tags(case, obs):
    t = {"kind:" + case["kind"]}
    if obs == "hang":
        return t
    infos = _INFO.get(id(case)) or []
    steps = steps_of(case)
    t.add("saves:%d" % sum(1 for st in steps if st[0] == "save"))
    for n, st in case["keyfiles"]:
        t.add("keyfile:" + st)
    kfs = {rel_expanded(n) for n, _ in case["keyfiles"]}
    prev_out = None
    for k, st in enumerate(steps):
        if st[0] == "ext":
            t.add("ext:" + ("keyfile" if rel_expanded(st[1]) in kfs else "dest") + (":delete" if st[2] is None else ":write"))
            continue
        step, out = st[1], obs[k][0]
        t.add("fmt:" + step["fmt"])
        o = out if isinstance(out, str) else (out[1] if isinstance(out[1], str) else out[1][0])
        t.add("outcome:" + o)
        if prev_out is not None:
            t.add("then:%s->%s" % (prev_out, "ok" if o == "ok" else "fail"))
        prev_out = "ok" if o == "ok" else "fail"
        d = step["dest"]
        t.add("dest:" + ("tilde" if d.startswith("~") else "nodir" if d.startswith("nd/") else "plain"))
        for f in step["faults"]:
            t.add("fault:" + f)
        if not step["faults"]:
            t.add("fault:none")
        if any(p in kfs for p in obs[k][1]):
            t.add("keyfile-created")
        info = infos[k] if k < len(infos) else None
        if info and info.get("reload") == "skipped":
            t.add("reload:skipped(F34 region)")
        elif info and info.get("reload") is not None:
            t.add("reload:checked")
    t.add("dest0:" + ("prev" if case["prev"] is not None else "absent"))
    return t


def nontrivial(case, obs):
    return case["prev"] is not None or any(st[0] == "save" and st[1]["faults"] for st in steps_of(case)) or bool(case.get("more"))


# ---------------------------------------------------------------------------------------------
# generators
# ---------------------------------------------------------------------------------------------
PREV_DOC = {
    "json": b'{\n  "a": 1,\n  "previous": true\n}',
    "yaml": b"a: 1\nprevious: true\n",
    "xml": b'<?xml version="1.0" ?>\n<config>\n  <a type="int">1</a>\n</config>\n',
    "bson": bytes.fromhex("0c0000001061000100000000"),
    "pickle": bytes.fromhex("80049509000000000000007d948c0161944b01732e"),
    "nope": b'{"a": 1}',
}


def base_fields():
    """N plain fields + secrets (xor/aes) + a nested sub-configuration + a list of configurations"""
    item = [("plain", "n", "int", None), ("secret", "tok", "xor", True, None), ("plain", "tag", "str", None)]
    return [
        ("plain", "a", "int", None),
        ("secret", "sec1", "xor", True, None),
        ("plain", "b", "str", None),
        ("virt", "v"),
        ("sub", "sub", None, [("plain", "x", "float", None), ("secret", "sec2", "aes", True, None),
                              ("plain", "y", "ilist", None)]),
        ("list", "items", [("plain", "n", "int", None), ("secret", "tok", "xor", False, None), ("plain", "tag", "str", None)],
         [list(item), list(item)]),
        ("any", "any", "int"),
        ("plain", "c", "bool", None),
    ]


def _paths(fields, pre=()):
    """every injectable position: (path of indices, field spec)"""
    for i, f in enumerate(fields):
        if f[0] in ("plain", "secret") + UNTYPED:
            yield pre + (i,), f
        elif f[0] == "sub":
            yield from _paths(f[3], pre + (i, 3))
        elif f[0] == "list":
            for j, it in enumerate(f[3]):
                yield from _paths(it, pre + (i, 3, j))


def _replace(fields, path, fn):
    """copy of the field tree with fn applied to the spec at `path`"""
    fields = list(fields)
    i = path[0]
    if len(path) == 1:
        fields[i] = fn(fields[i])
        return fields
    f = list(fields[i])
    if f[0] == "sub":
        f[3] = _replace(f[3], path[2:], fn)
    else:
        items = list(f[3])
        items[path[2]] = _replace(items[path[2]], path[3:], fn)
        f[3] = items
    fields[i] = tuple(f)
    return fields


def mkcase(fmt, fields, keyfiles=(("k/root.key", "valid"),), root_kf="k/root.key", dest="d/dest.cfg", prev=True,
           fmtfault=None, faults=(), kind="matrix", rng=None):
    return {"fmt": fmt, "fields": fields, "keyfiles": [tuple(k) for k in keyfiles], "root_kf": root_kf, "dest": dest,
            "prev": (PREV_DOC[fmt if fmt in PREV_DOC else "nope"] if prev is True else prev if prev else None),
            "fmtfault": fmtfault, "faults": list(faults), "kind": kind,
            "rng": rng if rng is not None else [bytes([0xA0 + i]) * 32 for i in range(3)]}


def matrix(formats):
    cases = []
    base = base_fields()
    for fmt in formats:
        # no fault; destination present / absent / under ~ / in a missing directory
        cases.append(mkcase(fmt, base))
        cases.append(mkcase(fmt, base, prev=None))
        cases.append(mkcase(fmt, base, dest="~/dest.cfg"))
        cases.append(mkcase(fmt, base, dest="nd/dest.cfg", prev=None, faults=["dest-open"]))
        # every field position: to_basic raising (plain), cipher raising (secret)
        for path, f in _paths(base):
            if f[0] in ("plain",):
                cases.append(mkcase(fmt, _replace(base, path, lambda s: s[:3] + ("raise",)), faults=["to_basic"]))
            elif f[0] == "secret":
                cases.append(mkcase(fmt, _replace(base, path, lambda s: s[:4] + ("enc",)), faults=["cipher"]))
        for path in [(0,), (4, 3, 2), (5, 3, 1, 0)]:
            cases.append(mkcase(fmt, _replace(base, path, lambda s: s[:3] + ("raise_ve",)), faults=["to_basic-ve"]))
        # two faults: the first in code order decides
        two = _replace(_replace(base, (2,), lambda s: s[:3] + ("raise",)), (7,), lambda s: s[:3] + ("raise",))
        cases.append(mkcase(fmt, two, faults=["to_basic", "to_basic"]))
        two = _replace(_replace(base, (5, 3, 1, 2), lambda s: s[:3] + ("raise",)), (1,), lambda s: s[:4] + ("enc",))
        cases.append(mkcase(fmt, two, faults=["to_basic", "cipher"]))
        # key file states (root key file used by sec1, sub.sec2 and the items)
        for st in ("short", "empty", "long", "nodir", "missing"):
            name = "nk/root.key" if st == "nodir" else "k/root.key"
            kfault = [] if st == "missing" else ["keyfile-" + st]
            cases.append(mkcase(fmt, base, keyfiles=[(name, st)], root_kf=name, faults=kfault))
            # ... and a later field fault on top: a missing key file is created, the destination survives
            late = _replace(base, (7,), lambda s: s[:3] + ("raise",))
            cases.append(mkcase(fmt, late, keyfiles=[(name, st)], root_kf=name, faults=kfault + ["to_basic"]))
            # ... and an earlier one: the key file is never reached
            early = _replace(base, (0,), lambda s: s[:3] + ("raise",))
            cases.append(mkcase(fmt, early, keyfiles=[(name, st)], root_kf=name, faults=["to_basic"] + kfault))
        # the sub-configuration names its own key file
        for st in ("valid", "short", "nodir", "missing"):
            name = "nk/sub.key" if st == "nodir" else "k/sub.key"
            withsub = _replace(base, (4,), lambda s: s[:2] + (name,) + s[3:])
            cases.append(mkcase(fmt, withsub, keyfiles=[("k/root.key", "missing"), (name, st)],
                                faults=[] if st in ("valid", "missing") else ["keyfile-" + st]))
        # key file under ~
        cases.append(mkcase(fmt, base, keyfiles=[("~/my.key", "missing")], root_kf="~/my.key"))
        cases.append(mkcase(fmt, base, keyfiles=[("~/my.key", "short")], root_kf="~/my.key", faults=["keyfile-short"]))
        # empty secrets never touch the key file, however unusable it is
        nosec = _replace(_replace(_replace(_replace(base, (1,), lambda s: s[:3] + (False, None)),
                                           (4, 3, 1), lambda s: s[:3] + (False, None)),
                                  (5, 3, 0, 1), lambda s: s[:3] + (False, None)),
                         (5, 3, 1, 1), lambda s: s[:3] + (False, None))
        cases.append(mkcase(fmt, nosec, keyfiles=[("k/root.key", "short")]))
        cases.append(mkcase(fmt, nosec, keyfiles=[("nk/root.key", "nodir")], root_kf="nk/root.key"))
        # the formatter raising; values outside the format's domain
        cases.append(mkcase(fmt, base, fmtfault="patch", faults=["formatter"]))
        cases.append(mkcase(fmt, base, fmtfault="patch", keyfiles=[("k/root.key", "missing")], faults=["formatter"]))
        for ak in ("bytes", "big", "nul", "blist", "str"):
            cases.append(mkcase(fmt, _replace(base, (6,), lambda s: s[:2] + (ak,)),
                                faults=["domain:" + ak] if fmt in OUTSIDE[ak] else []))
        # N plain fields, fault at each i
        for n in range(0, 4):
            plain = [("plain", "p%d" % i, ["int", "str", "slist", "none"][i], None) for i in range(n)]
            cases.append(mkcase(fmt, plain))
            for i in range(n):
                cases.append(mkcase(fmt, _replace(plain, (i,), lambda s: s[:3] + ("raise",)), faults=["to_basic"]))
    # unknown format name: alone and on top of every other kind of fault (it must win, nothing is touched)
    base_f = _replace(base, (0,), lambda s: s[:3] + ("raise",))
    for name in ("nope", "JSON", ""):
        cases.append(mkcase(name, base, faults=["format"]))
        cases.append(mkcase(name, base_f, faults=["format", "to_basic"]))
        cases.append(mkcase(name, base, keyfiles=[("k/root.key", "missing")], faults=["format"]))
        cases.append(mkcase(name, base, keyfiles=[("k/root.key", "short")], faults=["format", "keyfile-short"]))
        cases.append(mkcase(name, base, prev=None, faults=["format"]))
        cases.append(mkcase(name, base, dest="nd/dest.cfg", prev=None, faults=["format", "dest-open"]))
    return cases


def _avoid_pending(fields, fmt):
    """replace untyped values in a NOT_REPRESENTABLE (format, kind) combination by a representable kind"""
    out = []
    for f in fields:
        if f[0] in UNTYPED and (fmt, f[2]) in NOT_REPRESENTABLE:
            out.append((f[0], f[1], "nested"))
        elif f[0] == "plain" and (fmt, f[2]) in TYPED_NOT_REPRESENTABLE:
            out.append(("plain", f[1], SAFE_KIND[PLAIN_FIELD[f[2]]], f[3]))
        elif f[0] == "sub":
            out.append(f[:3] + (_avoid_pending(f[3], fmt),))
        elif f[0] == "list":
            out.append(f[:3] + ([_avoid_pending(it, fmt) for it in f[3]],))
        else:
            out.append(f)
    return out


def roundtrip_matrix(formats):
    """the SUCCESS clause: every kind of value an untyped field accepts x container x format; every secret length
    around the AES block size x method, at the root, in a sub-configuration and in a list item"""
    cases = []
    for fmt in formats:
        for kind in sorted(ANY_VALUES):
            if (fmt, kind) in NOT_REPRESENTABLE:
                continue
            for container in UNTYPED:
                fields = [("plain", "a", "int", None), (container, "u", kind), ("plain", "z", "str", None)]
                cases.append(mkcase(fmt, fields, kind="roundtrip", faults=["domain:" + kind] if fmt in OUTSIDE[kind] else []))
        for kind in sorted(TYPED) + sorted(DEFAULT_NONE):
            if (fmt, kind) in TYPED_NOT_REPRESENTABLE:
                continue
            leaf = ("plain", "t", kind, None)
            fields = [("plain", "a", "int", None), leaf,
                      ("sub", "sub", None, [leaf, ("sub", "deep", None, [leaf])]),
                      ("list", "items", [leaf, ("plain", "n", "int", None)], [[leaf, ("plain", "n", "int", None)]] * 2)]
            cases.append(mkcase(fmt, fields, kind="roundtrip",
                                faults=["domain:" + kind] if fmt in TYPED_OUTSIDE.get(kind, ()) else []))
        for method in ("aes", "best", "xor"):
            secs = [("secret", "s%d" % n, method, n, None) for n in SECRET_LENGTHS]
            fields = list(secs) + [("sub", "sub", None, list(secs) + [("sub", "deep", None, list(secs[2:7]))]),
                                   ("list", "items", list(secs[3:7]), [list(secs[3:7]), list(secs[3:7])])]
            cases.append(mkcase(fmt, fields, kind="roundtrip"))
            cases.append(mkcase(fmt, fields, kind="roundtrip", keyfiles=[("k/root.key", "missing")]))
    return cases


def random_fields(rng, depth, allow_any=True):
    fields = []
    used = 0
    for _ in range(rng.randint(0, 5)):
        key = "f%d" % used
        used += 1
        r = rng.random()
        if r < 0.45:
            fields.append(("plain", key, rng.choice(["int", "str", "bool", "float", "ilist", "slist", "none"]
                                                    + (sorted(TYPED) + sorted(DEFAULT_NONE) if rng.random() < 0.5 else [])), None))
        elif r < 0.65:
            fields.append(("secret", key, rng.choice(["xor", "aes", "best"]),
                           rng.choice([True, True, True, False] + SECRET_LENGTHS), None))
        elif r < 0.72 and allow_any:
            fields.append((rng.choice(UNTYPED), key, rng.choice(sorted(ANY_VALUES))))
        elif r < 0.77:
            fields.append(("virt", key))
        elif r < 0.9 and depth > 0:
            kf = rng.choice([None, None, "k/s%d.key" % rng.randint(0, 2)])
            fields.append(("sub", key, kf, random_fields(rng, depth - 1, allow_any)))
        elif depth > 0:
            shape = random_fields(rng, depth - 1, allow_any=False)
            shape = [f if f[0] != "sub" else ("sub", f[1], None, f[3]) for f in shape]
            items = []
            for _ in range(rng.randint(0, 3)):
                items.append(_vary(rng, shape))
            fields.append(("list", key, shape, items))
    return fields


def _vary(rng, shape):
    out = []
    for f in shape:
        if f[0] == "secret":
            out.append(f[:3] + (rng.choice([True, True, False] + SECRET_LENGTHS), None))
        elif f[0] == "sub":
            out.append(("sub", f[1], f[2], _vary(rng, f[3])))
        elif f[0] == "list":
            out.append(("list", f[1], f[2], [_vary(rng, f[2]) for _ in range(rng.randint(0, 2))]))
        else:
            out.append(f)
    return out


def _keyfile_names(fields, acc):
    for f in fields:
        if f[0] == "sub":
            if f[2] and f[2] not in acc:
                acc.append(f[2])
            _keyfile_names(f[3], acc)
        elif f[0] == "list":
            for it in f[3]:
                _keyfile_names(it, acc)
    return acc


def random_case(rng):
    fields = random_fields(rng, 2)
    fmt = rng.choice(FORMATS)
    faults = []
    fmtfault = None
    positions = list(_paths(fields))
    nf = rng.choice([0, 1, 1, 1, 2])
    for _ in range(nf):
        r = rng.random()
        if r < 0.55 and positions:
            path, f = rng.choice(positions)
            if f[0] == "plain" and f[3] is None:
                k = rng.choice(["raise", "raise", "raise_ve"])
                fields = _replace(fields, path, lambda s: s[:3] + (k,))
                faults.append("to_basic" if k == "raise" else "to_basic-ve")
            elif f[0] == "secret" and f[3] is True and f[4] is None:
                fields = _replace(fields, path, lambda s: s[:4] + ("enc",))
                faults.append("cipher")
            positions = list(_paths(fields))
        elif r < 0.7:
            fmtfault = "patch"
            faults.append("formatter")
        elif r < 0.8:
            fmt = rng.choice(["nope", "Json", "toml"])
            faults.append("format")
    root_state = rng.choice(["valid", "valid", "valid", "missing", "missing", "short", "empty", "long", "nodir"])
    root_kf = "nk/root.key" if root_state == "nodir" else rng.choice(["k/root.key", "~/root.key"])
    keyfiles = [(root_kf, root_state)]
    for n in _keyfile_names(fields, []):
        st = rng.choice(["valid", "valid", "missing", "short", "long"])
        keyfiles.append((n, st))
    for _, st in keyfiles:
        if st not in ("valid", "missing"):
            faults.append("keyfile-" + st)
    fields = _avoid_pending(fields, fmt)
    for p, f in _paths(fields):
        if outside(f, fmt):
            faults.append("domain:" + f[2])
    dest = rng.choice(["d/dest.cfg", "d/dest.cfg", "d/other.bin", "~/dest.cfg", "nd/dest.cfg"])
    if dest.startswith("nd/"):
        prev = None
        faults.append("dest-open")
    else:
        prev = rng.choice([True, True, True, None, b"", b"\x00garbage\xff" * 5])
        if prev == b"":
            prev = False
    c = mkcase(fmt, fields, keyfiles=keyfiles, root_kf=root_kf, dest=dest, prev=prev, fmtfault=fmtfault, faults=faults,
               kind="random", rng=[bytes(rng.getrandbits(8) for _ in range(32)) for _ in range(len(keyfiles))])
    if prev is False:
        c["prev"] = b""
    return c


# ---- histories: several saves of ONE configuration object, files changed by others in between ----
def save_step(fmt, fields, dest="d/dest.cfg", fmtfault=None, faults=(), root_kf=None):
    d = {"fmt": fmt, "fields": fields, "dest": dest, "fmtfault": fmtfault, "faults": list(faults)}
    if root_kf:
        d["root_kf"] = root_kf
    return ("save", d)


def vkey(j):
    return KEYFILE_CONTENT["valid"](j)


def without_secrets(fields):
    out = []
    for f in fields:
        if f[0] == "secret":
            out.append(f[:3] + (False, None))
        elif f[0] == "sub":
            out.append(f[:3] + (without_secrets(f[3]),))
        elif f[0] == "list":
            out.append(f[:3] + ([without_secrets(it) for it in f[3]],))
        else:
            out.append(f)
    return out


def histories(formats):
    cases = []
    base = base_fields()
    K = "k/root.key"
    GARBAGE = b"\x00not a configuration\xff" * 3
    f_last = _replace(base, (7,), lambda s: s[:3] + ("raise",))
    f_first = _replace(base, (0,), lambda s: s[:3] + ("raise",))
    f_cipher = _replace(base, (4, 3, 1), lambda s: s[:4] + ("enc",))
    for fmt in formats:
        def hist(more, **kw):
            c = mkcase(fmt, kw.pop("fields", base), kind="history", rng=[bytes([0xB0 + i]) * 32 for i in range(4)], **kw)
            c["more"] = more
            cases.append(c)
        # unusable key file -> repaired -> rotated twice: every successful save must load back in a new session
        for st in ("short", "empty", "long"):
            hist([("ext", K, vkey(5)), save_step(fmt, base), ("ext", K, vkey(6)), save_step(fmt, base),
                  ("ext", K, vkey(7)), save_step(fmt, base)], keyfiles=[(K, st)], faults=["keyfile-" + st])
        # good -> key file damaged (save fails, file keeps the document of the first save) -> restored -> rotated
        hist([("ext", K, b"12345"), save_step(fmt, base, faults=["keyfile-short"]), ("ext", K, vkey(0)),
              save_step(fmt, base), ("ext", K, vkey(8)), save_step(fmt, base)])
        # two different unusable states in a row, then good, then rotated
        hist([("ext", K, bytes(33)), save_step(fmt, base, faults=["keyfile-long"]), ("ext", K, vkey(3)),
              save_step(fmt, base), ("ext", K, vkey(4)), save_step(fmt, base)], keyfiles=[(K, "empty")],
             faults=["keyfile-empty"])
        # unusable key file, then a save that loads the repaired key but fails later, then rotation
        hist([("ext", K, vkey(5)), save_step(fmt, f_last, faults=["to_basic"]), ("ext", K, vkey(6)), save_step(fmt, base)],
             keyfiles=[(K, "short")], faults=["keyfile-short"])
        # field fault -> good -> destination overwritten by someone else -> cipher fault (garbage survives) -> good
        hist([save_step(fmt, base), ("ext", "d/dest.cfg", GARBAGE), save_step(fmt, f_cipher, faults=["cipher"]),
              save_step(fmt, base)], fields=f_first, faults=["to_basic"])
        # missing key file created -> deleted by someone else -> created again with the next draw;
        # destination deleted -> formatter fault (stays absent) -> good
        hist([("ext", K, None), save_step(fmt, base), ("ext", "d/dest.cfg", None),
              save_step(fmt, base, fmtfault="patch", faults=["formatter"]), save_step(fmt, base)], keyfiles=[(K, "missing")])
        # key file in a missing directory: fails every time; without secrets the same object saves fine
        hist([save_step(fmt, base, faults=["keyfile-nodir"]), save_step(fmt, without_secrets(base)),
              save_step(fmt, base, faults=["keyfile-nodir"])], keyfiles=[("nk/root.key", "nodir")], root_kf="nk/root.key",
             faults=["keyfile-nodir"])
        # several destinations
        hist([save_step(fmt, f_first, dest="d/b.cfg", faults=["to_basic"]), save_step(fmt, base, dest="~/dest.cfg"),
              save_step("nope", base, faults=["format"]), save_step(fmt, base, dest="d/b.cfg"),
              save_step(fmt, base, dest="nd/x.cfg", faults=["dest-open"])])
        # unknown format -> good -> formatter fault -> good, other format in between
        other = formats[(formats.index(fmt) + 1) % len(formats)]
        hist([save_step(fmt, base), save_step(other, base, fmtfault="patch", faults=["formatter"]), save_step(other, base),
              save_step(fmt, base)], prev=None)
        # the sub-configuration's own key file: unusable -> repaired -> rotated (reload is in the F34 region; the bytes
        # are still compared with an independent serialisation under the key on disk)
        withsub = _replace(base, (4,), lambda s: s[:2] + ("k/sub.key",) + s[3:])
        hist([("ext", "k/sub.key", vkey(9)), save_step(fmt, withsub), ("ext", "k/sub.key", vkey(10)), save_step(fmt, withsub),
              ("ext", K, vkey(11)), save_step(fmt, withsub)],
             fields=withsub, keyfiles=[(K, "valid"), ("k/sub.key", "short")], faults=["keyfile-short"])
        # the ROOT's key file NAME is re-assigned between saves of one object: secrets at every depth (root, sub, two
        # levels, list items, a sub-configuration inside a list item) must follow; a fresh configuration naming the
        # CURRENT key file loads each saved file back
        sec = lambda k, on=True: ("secret", k, "xor" if k.endswith("x") else "aes", on, None)       # noqa: E731
        item = [("plain", "n", "int", None), sec("tokx"), ("sub", "inner", None, [sec("ina")])]

        def deep(root_on=True):
            return [sec("topx", root_on), ("plain", "a", "int", None),
                    ("sub", "sub", None, [sec("s1a"), ("sub", "deep", None, [sec("s2x"), ("plain", "y", "str", None)])]),
                    ("list", "items", item, [list(item), list(item)])]
        K2 = "k/k2.key"
        hist([save_step(fmt, deep(), root_kf=K2), save_step(fmt, deep(), root_kf=K), save_step(fmt, deep(), root_kf=K2)],
             fields=deep(), keyfiles=[(K, "valid"), (K2, "valid")])
        hist([save_step(fmt, deep(), root_kf=K2), save_step(fmt, deep()), save_step(fmt, deep(), root_kf=K)],
             fields=deep(), keyfiles=[(K, "valid"), (K2, "missing")])
        hist([save_step(fmt, deep(), root_kf="~/k3.key"), save_step(fmt, deep(), root_kf=K)],
             fields=deep(), keyfiles=[(K, "missing"), ("~/k3.key", "missing")])
        for st, name in (("short", K2), ("empty", K2), ("nodir", "nk/k2.key")):
            # re-assigned to an unusable key file: the save must fail and leave the destination alone -- also when only
            # NESTED secrets are set (the root's own secret empty), then back to the good one
            hist([save_step(fmt, deep(), root_kf=name, faults=["keyfile-" + st]),
                  save_step(fmt, deep(False), faults=["keyfile-" + st]), save_step(fmt, deep(), root_kf=K)],
                 fields=deep(), keyfiles=[(K, "valid"), (name, st)])
            hist([save_step(fmt, deep(False), root_kf=name, faults=["keyfile-" + st]), save_step(fmt, deep(False), root_kf=K)],
                 fields=deep(False), keyfiles=[(K, "valid"), (name, st)])
    return cases


BAD_STATES = ("short", "empty", "long", "nodir")


def _clear_faults(fields):
    out = []
    for f in fields:
        if f[0] == "plain":
            out.append(f[:3] + (None,))
        elif f[0] == "secret":
            out.append(f[:4] + (None,))
        elif f[0] == "sub":
            out.append(f[:3] + (_clear_faults(f[3]),))
        elif f[0] == "list":
            out.append(f[:3] + ([_clear_faults(it) for it in f[3]],))
        else:
            out.append(f)
    return out


def random_history(rng):
    c = random_case(rng)
    c["kind"] = "random-history"
    alt = ("k/alt.key", rng.choice(["valid", "valid", "missing", "short"]))
    c["keyfiles"].append(alt)
    c["rng"].append(bytes(rng.getrandbits(8) for _ in range(32)))
    roots = [c["root_kf"], alt[0]]
    kstate = dict(c["keyfiles"])
    usable = [n for n, st in c["keyfiles"] if st != "nodir"]
    dests = [d for d in ["d/dest.cfg", "d/other.bin", "~/dest.cfg"]]
    more = []
    draws = len(c["rng"])
    for _ in range(rng.randint(1, 5)):
        r = rng.random()
        if r < 0.3 and usable:
            n = rng.choice(usable)
            what = rng.choice(["valid", "valid", "valid", "short", "long", "delete"])
            if what == "delete":
                more.append(("ext", n, None))
                kstate[n] = "missing"
                draws += 1
            else:
                content = vkey(rng.randint(20, 200)) if what == "valid" else KEYFILE_CONTENT[what](0)
                more.append(("ext", n, content))
                kstate[n] = what
        elif r < 0.4:
            d = rng.choice(dests)
            more.append(("ext", d, rng.choice([None, b"", b"other\x00bytes" * 4])))
        else:
            fields = _clear_faults(c["fields"])
            fmt = c["fmt"] if c["fmt"] in FORMATS and rng.random() < 0.8 else rng.choice(FORMATS)
            faults, fmtfault = [], None
            if rng.random() < 0.25:
                fields = _vary(rng, fields)
            positions = list(_paths(fields))
            rr = rng.random()
            if rr < 0.3 and positions:
                path, f = rng.choice(positions)
                if f[0] == "plain":
                    fields = _replace(fields, path, lambda s: s[:3] + ("raise",))
                    faults.append("to_basic")
                elif f[0] == "secret" and f[3] is True:
                    fields = _replace(fields, path, lambda s: s[:4] + ("enc",))
                    faults.append("cipher")
            elif rr < 0.38:
                fmtfault = "patch"
                faults.append("formatter")
            elif rr < 0.43:
                fmt = "nope"
                faults.append("format")
            for n, st in kstate.items():
                if st in BAD_STATES:
                    faults.append("keyfile-" + st)
            fields = _avoid_pending(fields, fmt)
            for _, f in _paths(fields):
                if outside(f, fmt):
                    faults.append("domain:" + f[2])
            dest = rng.choice(dests + [c["dest"], c["dest"], "nd/dest.cfg"])
            if dest.startswith("nd/"):
                faults.append("dest-open")
            more.append(save_step(fmt, fields, dest=dest, fmtfault=fmtfault, faults=faults,
                                  root_kf=rng.choice(roots) if rng.random() < 0.35 else None))
    c["more"] = more
    nsaves = 1 + sum(1 for st in more if st[0] == "save")
    draws += nsaves * sum(1 for _, st in c["keyfiles"] if st == "nodir")     # a failed creation consumes its draw
    c["rng"] = [bytes(rng.getrandbits(8) for _ in range(32)) for _ in range(draws + 1)]
    return c


def generate(rng, tier):
    cases = matrix(FORMATS) + histories(FORMATS) + roundtrip_matrix(FORMATS)
    n = 1000 if tier == "quick" else 20000
    for _ in range(n):
        cases.append(random_case(rng))
    for _ in range(n // 2):
        cases.append(random_history(rng))
    return cases
