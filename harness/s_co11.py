"""stream configops with the direct oracle and generator emphasis of C11 (see s_configops.py)"""
from s_configops import *  # noqa: F401,F403
import s_configops as _base

NAME = "co11"


def generate(rng, tier):
    return _base.generate_for("C11", rng, tier)


def oracle(c, obs):
    return _base.oracle_for("C11", c, obs)
