"""
stream `proxyops` (C17): three-way differential over operation sequences —
  * a real ListProxy / DictProxy taken from a real configuration,
  * a builtin list / dict (the "twin") fed the normalised items,
  * the model (ListModel.v / DictModel.v, `run_proxyops`).
Per step the observation is (proxy outcome, proxy contents with type tag, twin outcome, twin contents).
The item validator enters the model as a finite table computed by calling the real item field's
`validate`, so the model contains no field logic.  One extra case kind (`slots`) compares the
override table hard-coded in the model with the one measured on the running classes.
"""
import itertools

from common import gal, g_z, g_n, g_bool, g_opt, g_list, Proxy, Other, Broken

NAME = "proxyops"
IMPORTS = "From Cinco Require Import Base ListModel DictModel."
RUN = "run_proxyops"
CASE_TYPE = "pcase"

SELF = "<<self>>"     # internal marker for "the receiver itself"

# ---------------------------------------------------------------------------------------------
# fields under test (fid 0 = the field whose proxy is exercised, fid 1 = "another field")
# ---------------------------------------------------------------------------------------------
FIELDS = ["int", "str", "bool", "intreq", "intwide", "intinc", "dictitem"]
NONIDEM = ("intinc",)          # item validation is NOT idempotent (a validator= callback that adds 40): nothing may validate twice
MUTABLE = ("dictitem",)        # items are mutable objects (typed dicts): copies are shallow, item objects are shared


def _mk_field(name):
    from cincoconfig import IntField, StringField, BoolField
    if name == "int":
        return IntField(min=0, max=100)
    if name == "intreq":
        return IntField(min=0, max=100, required=True)
    if name == "str":
        return StringField(transform_case="lower", transform_strip=True)
    if name == "bool":
        return BoolField()
    if name == "str0":
        return StringField()
    if name == "intwide":
        return IntField(min=-50, max=1000)
    if name == "intinc":
        return IntField(min=0, max=100, validator=lambda cfg, v: v + 40)
    if name == "dictitem":
        from cincoconfig import DictField
        return DictField(StringField(), IntField(min=0, max=100))
    if name == "int0":
        return IntField()
    raise Broken("unknown field " + name)


# the "other" list field: same class with looser / stricter constraints for the int pair, a string list otherwise
OTHER_OF = {"int": "intwide", "intwide": "int", "intreq": "str0", "str": "str0", "bool": "str0", "intinc": "str0", "dictitem": "str0"}

# candidate values per field: classified at run time into valid / normalisable / invalid
POOL = {
    "int": [0, 1, 5, 7, 42, 100, "7", " 5 ", "100", 3.0, 2.5, None, -1, 101, "abc", "101", True, "", [1], (1,), "%s"],
    "intreq": [0, 1, 5, 7, 42, 100, "7", " 5 ", "100", 3.0, None, -1, 101, "abc", True],
    "str": ["a", "bc", "", "x y", " Ab ", "XY", "bC\t", "%s", "100%", "%(a)s", None, 5, True, 2.5, ["a"], (1, 2), ("a",)],
    "bool": [True, False, "yes", "no", "TRUE", "0", 1, 0, 7, None, "maybe", "", [True]],
    "intwide": [0, 7, 500, -50, 1000, 42, "7", " 900 ", 3.0, None, -51, 1001, "abc", True],
    "intinc": [0, 5, 20, 45, 60, "7", " 5 ", -1, 101, "abc", True, [1]],
    "dictitem": [{"a": 1}, {"b": 2}, {}, {"a": 1, "b": 2}, {"k": "7"}, {"a": " 5 "}, {"a": "x"}, 5, "s", {"a": -1}, [1]],
}
# string values the "other" field (a plain StringField) can hold, per main field
OTHER_POOL = {
    "int": [7, 0, 100, 500, -5, 1000, 42],
    "intreq": ["7", "0", "100", "abc", "101"],
    "str": ["a", " Ab ", "XY", "bc"],
    "bool": ["yes", "no", "on", "maybe", "x"],
    "intwide": [7, 0, 100, 55],
    "intinc": ["7", "0", "abc"],
    "dictitem": ["a", "b"],
}
# query arguments (never validated by the proxy): cross-type equality matters here
QUERY = {
    "int": [0, 1, 5, 7, 100, True, False, 1.0, 7.0, 2.5, "7", None, 55],
    "intreq": [0, 1, 5, 7, 100, True, 1.0, "7", None],
    "str": ["a", "bc", "", "ab", "xy", "XY", None, 0],
    "bool": [True, False, 1, 0, 1.0, "yes", None, 2],
    "intwide": [0, 7, 500, True, 7.0, "7", None],
    "intinc": [40, 45, 60, 100, 47, 5, None],
    "dictitem": [{"a": 1}, {}, None, 5, {"b": 2}, {"k": 7}],
}

_CACHE = {}


def _env(fname):
    """(schema class objects, main item field, other item field) built once per field name"""
    if fname not in _CACHE:
        from cincoconfig import Schema, ListField
        s = Schema()
        main, other = _mk_field(fname), _mk_field(OTHER_OF[fname])
        item = Schema()
        for holder in (s, s.sub, item):         # the same two list fields at the root, in a sub-configuration, in a list item
            holder.l = ListField(main)
            holder.o = ListField(other)
        s.items = ListField(item)
        _CACHE[fname] = (s, main, other)
    return _CACHE[fname]


PLACES = ["root", "sub", "item"]
PLACE_PREFIX = {"root": "", "sub": "sub.", "item": "items[1]."}


def _holder(cfg, place):
    """the configuration object that holds the container under test"""
    if place == "root":
        return cfg
    if place == "sub":
        return cfg.sub
    cfg.items = [{}, {}, {}]
    return cfg.items[1]


def _field_at(schema, place, name):
    if place == "root":
        return schema._fields[name]
    if place == "sub":
        return schema._fields["sub"]._fields[name]
    return schema._fields["items"].field._fields[name]


def _errkind(e):
    from cincoconfig import ValidationError
    if isinstance(e, ValidationError):
        return "validation"
    for cls, k in ((IndexError, "index"), (KeyError, "key"), (OverflowError, "overflow"), (ValueError, "value"),
                   (TypeError, "type"), (AttributeError, "attribute")):
        if isinstance(e, cls):
            return k
    return "other"


def _validate(field, x):
    """('ok', y) | ('err', kind) from the real item field"""
    try:
        return ("ok", field.validate(None, x))
    except Exception as e:  # noqa
        return ("err", _errkind(e))


def _same(a, b):
    a, b = _plain_data(a), _plain_data(b)      # typed dict items are compared by their plain contents
    return type(a) is type(b) and a == b


def classify_value(fname, x):
    r = _validate(_env(fname)[1], x)
    if r[0] == "err":
        return "invalid"
    if fname in NONIDEM:           # no fixed points: "valid" = accepted as the item type itself
        return "valid" if isinstance(x, int) else "normalisable"
    if fname in MUTABLE:           # a plain dict comes back as a typed dict with the same entries
        return "valid" if isinstance(x, dict) and _deep_same(dict(r[1]), x) else "normalisable"
    return "valid" if _same(r[1], x) else "normalisable"


# ---------------------------------------------------------------------------------------------
# generation
# ---------------------------------------------------------------------------------------------
# "other": a typed list of another item field held by another configuration; "othersame": a typed list of
# another item field held by the SAME configuration object (schema with two list fields)
ITER_KINDS = ["list", "tuple", "iter", "gen", "same", "other", "othersame", "self"]
OTHER_KINDS = ("other", "othersame")


def _by_class(fname):
    out = {"valid": [], "normalisable": [], "invalid": []}
    for x in POOL[fname]:
        out[classify_value(fname, x)].append(x)
    return out


def _mk_iterable(fname, kind, items):
    """an iterable description (kind, items) whose items suit the kind"""
    return (kind, list(items))


def _inits(fname):
    cls = _by_class(fname)
    v = [x for x in cls["valid"] if x is not None]
    nz = cls["normalisable"]
    return [[], [v[0]], [v[1], nz[0], v[2 % len(v)]]]


def _list_matrix(fname, tier):
    cases = []
    cls = _by_class(fname)
    v = [x for x in cls["valid"] if x is not None]
    reps = {"valid": v[1], "normalisable": cls["normalisable"][0], "invalid": cls["invalid"][0]}
    oth = OTHER_POOL[fname]
    oth_by = {"valid": [], "normalisable": [], "invalid": []}
    for x in oth:
        oth_by[classify_value(fname, x)].append(x)
    sl_list = [(None, None, None), (1, 2, None), (0, 0, None), (None, None, 2), (None, None, -1), (5, 1, None),
               (-2, None, None), (1, None, 2), (None, None, 0), (2, 0, -1), (-1, -5, -1)]
    for init in (_inits(fname) if fname in FIELDS[:2] else _inits(fname)[1:]):
        n = len(init)
        idxs = sorted({0, -1, n, -n - 1, n - 1, 1, 7})
        single = []
        for ck, x in reps.items():
            single.append([("append", x)])
            for i in idxs:
                single.append([("insert", i, x)])
                single.append([("setitem", i, x)])
        # every iterable kind x {valid, normalisable, invalid} x inserting entry point
        for kind in ITER_KINDS:
            for ck in ("valid", "normalisable", "invalid"):
                if kind == "self":
                    if ck != "valid":
                        continue
                    items = []
                elif kind == "same":
                    if ck == "invalid":
                        continue
                    items = [reps[ck], v[0]]
                elif kind in OTHER_KINDS:
                    if not oth_by[ck]:
                        continue
                    items = [oth_by["valid"][0] if oth_by["valid"] else oth_by[ck][0], oth_by[ck][0]]
                else:
                    items = [v[0], reps[ck], v[2 % len(v)]]
                it = (kind, items)
                single.append([("extend", it)])
                single.append([("iadd", it)])
                single.append([("add", it)])
                single.append([("new", it)])
                single.append([("assign", it)])
                single.append([("assign", it), ("append", reps["normalisable"]), ("append", reps["invalid"])])
                for sl in sl_list[:6]:
                    single.append([("setslice", sl, it)])
                if kind in ("list", "iter", "same"):
                    it1 = (kind, items[:1]) if kind != "self" else it
                    for sl in sl_list:
                        single.append([("setslice", sl, it1)])
                    single.append([("setslice", (None, None, 2), (kind, items[:2]))])
        # non-inserting entry points
        qs = QUERY[fname]
        for i in idxs:
            single += [[("delitem", i)], [("getitem", i)], [("pop", i)]]
        single.append([("pop", None)])
        for sl in sl_list:
            single += [[("delslice", sl)], [("getslice", sl)]]
        for q in qs:
            single += [[("remove", q)], [("index", q, None, None)], [("count", q)], [("contains", q)]]
        single += [[("index", qs[1], 1, None)], [("index", qs[1], -2, 5)], [("index", qs[1], None, 1)]]
        single += [[("clear",)], [("reverse",)], [("copy",)], [("len",)], [("iter",)], [("reversed",)]]
        if fname not in MUTABLE:
            single += [[("sort", False)], [("sort", True)]]
        for k in (-1, 0, 1, 2):
            single += [[("mul", k)], [("rmul", k)], [("imul", k)]]
        norm_init = [_plain_data(_validate(_env(fname)[1], x)[1]) for x in init]
        for o in (list(norm_init), tuple(norm_init), norm_init + [v[0]], None):
            single += [[("eq", o)], [("ne", o)]]
        if norm_init:
            single += [[("eq", [True if _same(x, 1) else x for x in norm_init])]]
        # reflected positions, unpacking, comparisons both ways: contents, order and result type as the builtin gives them
        raw = [reps["normalisable"], reps["invalid"]]
        for items in ([], [v[0]], raw):
            single += [[("radd", ("list", items))], [("radd", ("tuple", items))], [("concat", "sum", items, [])],
                       [("concat", "sum", [], items)], [("concat", "star", items, raw)], [("concat", "sum", raw, items)]]
        for o in (list(norm_init), tuple(norm_init), norm_init + [v[0]], None, norm_init[:-1], [v[0]], [v[1]], []):
            single += [[("eqr", o)]]
            if fname not in MUTABLE:
                single += [[("lt", o)], [("gt", o)]]
        if fname not in MUTABLE:
            single += [[("lt", [None])], [("gt", ["a", 1])], [("lt", norm_init[:1] + ["zz"])], [("gt", norm_init[:1] + [1])]]
        for ops in single:
            # a second, observing operation makes partial effects and typedness visible
            cases.append({"kind": "list", "field": fname, "init": list(init), "ops": list(ops) + [("copy",)],
                          "src": "matrix"})
    return cases


def _rand_item(rng, fname, cls):
    r = rng.random()
    if r < 0.55 and cls["valid"]:
        return rng.choice(cls["valid"])
    if r < 0.85 and cls["normalisable"]:
        return rng.choice(cls["normalisable"])
    return rng.choice(cls["invalid"])


def _rand_slice(rng, n):
    def b():
        return rng.choice([None, None] + list(range(-n - 2, n + 3)))
    return (b(), b(), rng.choice([None, None, None, 1, 2, -1, -2, 3, 0 if rng.random() < 0.2 else 1]))


def _rand_iterable(rng, fname, cls, maxn=3):
    kind = rng.choice(ITER_KINDS)
    n = rng.randint(0, maxn)
    if kind == "self":
        return (kind, [])
    if kind == "same":
        ok = cls["valid"] + cls["normalisable"]
        return (kind, [rng.choice(ok) for _ in range(n)])
    if kind in OTHER_KINDS:
        return (kind, [rng.choice(OTHER_POOL[fname]) for _ in range(n)])
    return (kind, [_rand_item(rng, fname, cls) for _ in range(n)])


def _has_none(it):
    return any(x is None for x in it[1])


def _list_random(rng, fname, maxops):
    cls = _by_class(fname)
    ok = cls["valid"] + cls["normalisable"]
    init = [rng.choice(ok) for _ in range(rng.choice([0, 1, 2, 3, 3, 5]))]
    none_possible = any(x is None for x in init) or fname in MUTABLE
    ops = []
    n_est = len(init)
    for _ in range(rng.randint(3, maxops)):
        r = rng.random()
        n = max(n_est, 0)
        if r < 0.10:
            x = _rand_item(rng, fname, cls); ops.append(("append", x)); n_est += 1
        elif r < 0.18:
            x = _rand_item(rng, fname, cls); ops.append(("insert", rng.randint(-n - 2, n + 2), x)); n_est += 1
        elif r < 0.26:
            x = _rand_item(rng, fname, cls); ops.append(("setitem", rng.randint(-n - 1, n + 1), x))
        elif r < 0.36:
            it = _rand_iterable(rng, fname, cls); ops.append((rng.choice(["extend", "iadd", "add", "new", "assign"]), it))
            x = None if not _has_none(it) else 0
            n_est += len(it[1]) if ops[-1][0] in ("extend", "iadd") else 0
        elif r < 0.48:
            it = _rand_iterable(rng, fname, cls); ops.append(("setslice", _rand_slice(rng, n), it))
        elif r < 0.53:
            ops.append(("delitem", rng.randint(-n - 1, n + 1))); n_est -= 1
        elif r < 0.58:
            ops.append(("delslice", _rand_slice(rng, n)))
        elif r < 0.62:
            ops.append(("getitem", rng.randint(-n - 1, n + 1)))
        elif r < 0.66:
            ops.append(("getslice", _rand_slice(rng, n)))
        elif r < 0.71:
            ops.append(("pop", rng.choice([None, rng.randint(-n - 1, n + 1)]))); n_est -= 1
        elif r < 0.80:
            q = rng.choice(QUERY[fname])
            k = rng.choice(["remove", "index", "count", "contains"])
            if k == "index":
                ops.append(("index", q, rng.choice([None, None, rng.randint(-n - 1, n + 1)]),
                            rng.choice([None, None, rng.randint(-n - 1, n + 1)])))
            else:
                ops.append((k, q))
        elif r < 0.84:
            ops.append((rng.choice(["reverse", "copy", "len", "iter", "reversed"]),))
        elif r < 0.86:
            ops.append(("clear",)); n_est = 0
        elif r < 0.91:
            if not none_possible:
                ops.append(("sort", rng.random() < 0.5))
            else:
                ops.append(("reverse",))
        elif r < 0.96:
            k = rng.choice(["mul", "rmul", "imul"])
            ops.append((k, rng.choice([-1, 0, 1, 2, 2, 3]) if n_est < 12 else rng.choice([0, 1])))
            if k == "imul":
                n_est *= max(ops[-1][1], 0)
        elif r < 0.98:
            o = [rng.choice(QUERY[fname]) for _ in range(rng.randint(0, 3))]
            o = [x for x in o if not isinstance(x, float)] if fname not in MUTABLE else o
            kinds = ["eq", "ne", "eqr"] + ([] if fname in MUTABLE else ["lt", "gt"])
            ops.append((rng.choice(kinds), rng.choice([o, tuple(o), None])))
        else:
            items = [rng.choice(POOL[fname]) for _ in range(rng.randint(0, 2))]
            ops.append(rng.choice([("radd", (rng.choice(["list", "tuple"]), items)),
                                   ("concat", rng.choice(["sum", "star"]), items, [rng.choice(POOL[fname])])]))
        last = ops[-1]
        for part in last[1:]:
            if part is None and last[0] in ("append",):
                none_possible = True
        if last[0] in ("append", "insert", "setitem") and last[-1] is None:
            none_possible = True
        if last[0] in ("extend", "iadd", "setslice", "assign") and _has_none(last[-1]):
            none_possible = True
    return {"kind": "list", "field": fname, "init": init, "ops": ops, "src": "random"}


VALIDATING = ("setitem", "setdefault", "setdefault1", "update", "ior", "new", "append", "insert", "extend")


def _placed(cases):
    """the same operations on a container held by a sub-configuration / by a configuration inside a list (error paths)"""
    out = []
    n = 0
    for c in cases:
        if c["kind"] in ("list", "dict") and len(c["init"]) == 1 and c["ops"] and c["ops"][0][0] in VALIDATING:
            n += 1
            if c["kind"] == "list" and n % 4:
                continue
            out.append(dict(c, place=("sub", "item")[n % 2], src="placed"))
    return out


def _bad_inits():
    """whole-value assignment of a container with an unacceptable item / entry, in every placement"""
    out = []
    for fname in FIELDS:
        if fname in MUTABLE:
            continue              # a typed dict as list item names no list field in its error path: C15's open finding F37
        cls = _by_class(fname)
        v = [x for x in cls["valid"] if x is not None]
        for place in PLACES:
            for bad in cls["invalid"][:3]:
                for init in ([bad], [v[0], bad, v[1]], [cls["normalisable"][0], v[0], bad]):
                    out.append({"kind": "list", "field": fname, "init": init, "ops": [("copy",)], "src": "bad-init", "place": place})
    for dk in DKINDS:
        kcls, vcls = _dpools(dk)
        k = [x for x in kcls["valid"] if x is not None] or kcls["valid"]
        v = [x for x in vcls["valid"] if x is not None]
        badv = vcls["invalid"][:2]
        badk = kcls["invalid"][:2]
        nk = (kcls["normalisable"] or k)[0]
        for place in PLACES:
            inits = [[(k[0], b)] for b in badv] + [[(b, v[0])] for b in badk]
            inits += [[(k[0], v[0]), (nk, badv[0]), (k[-1], badv[-1])], [(k[0], v[0]), (k[1 % len(k)], v[0]), (nk, badv[0])]]
            if badk:
                inits += [[(k[0], v[0]), (badk[0], badv[0]), (k[-1], v[0])]]
            for init in inits:
                out.append({"kind": "dict", "field": dk, "init": [tuple(p) for p in init], "ops": [("copy",)], "src": "bad-init",
                            "place": place})
    return out


ODD_KEYS = [(), (1,), (1, 2), ((1, 2), 3), ("a",), b"ab", None, True, 1.5, 7, "%s", "100%", "%(a)s", "%d%%", "k" * 300]


def _odd_key_cases():
    """a refused entry under a key of every hashable kind (accepted by an untyped key field, or itself the offence for
    a typed one), through every entry point and in every placement: the error path renders the key as str(key)"""
    out = []
    for dk in DKINDS:
        kcls, vcls = _dpools(dk)
        _, kf, vf = _denv(dk)
        k = [x for x in kcls["valid"] if x is not None and isinstance(x, (int, str)) and not isinstance(x, bool)] or kcls["valid"]
        v = [x for x in vcls["valid"] if x is not None]
        badv = vcls["invalid"][0]
        for n, key in enumerate(ODD_KEYS):
            key_ok = _validate(kf, key)[0] == "ok"
            val = badv                       # the entry is refused either way: odd key accepted + bad value, or bad key
            routes = [[("setitem", key, val)], [("setdefault", key, val)],
                      [("update", ("dict", [(k[0], v[0]), (key, val)]), [])], [("update", ("pairs", [(key, val), (k[0], v[0])]), [])],
                      [("update", ("gen", [(k[0], v[0]), (key, val)]), [])], [("ior", ("dict", [(key, val)]))],
                      [("new", ("dict", [(key, val)]))], [("assign", ("dict", [(k[0], v[0]), (key, val)]))]]
            if key_ok:
                routes.append([("setitem", key, v[0]), ("setitem", key, val), ("copy",)])
            for r, ops in enumerate(routes):
                out.append({"kind": "dict", "field": dk, "init": [(k[0], v[0])], "ops": ops, "src": "odd-key",
                            "place": PLACES[(n + r) % 3]})
            out.append({"kind": "dict", "field": dk, "init": [(k[0], v[0]), (key, val)], "ops": [("copy",)], "src": "bad-init",
                        "place": PLACES[n % 3]})
    return out


def generate(rng, tier):
    cases = [{"kind": "slots", "which": "list"}, {"kind": "slots", "which": "dict"}]
    for fname in FIELDS:
        cases += _list_matrix(fname, tier)
    cases += _dict_matrix(tier)
    cases += _placed(cases)
    cases += _bad_inits()
    cases += _odd_key_cases()
    nrand = 260 if tier == "quick" else 6000
    maxops = 14 if tier == "quick" else 40
    for i in range(nrand):
        cases.append(dict(_list_random(rng, FIELDS[i % len(FIELDS)], maxops), place=rng.choice(PLACES)))
    for i in range(nrand):
        cases.append(dict(_dict_random(rng, i, maxops), place=rng.choice(PLACES)))
    return cases


def generate_for(prop, rng, tier):
    """C15 looks at the error paths only: typed dicts everywhere, lists where the whole value is assigned or placed"""
    cases = generate(rng, tier)
    storing = ("append", "insert", "setitem", "extend", "iadd", "add", "setslice", "new", "assign", "copy",
               "setdefault", "setdefault1", "update", "ior")
    if prop == "C15":      # error paths: operations that validate entries, whole-value assignments, placements
        cases = [c for c in cases if c.get("src") in ("bad-init", "placed", "odd-key", "random") and (c["kind"] == "dict" or c.get("src") != "random")
                 or (c["kind"] == "dict" and c["ops"] and c["ops"][0][0] in storing and c["ops"][0][0] != "copy")]
    if prop == "C01":      # held items are validated items: operations that store or hand out items (queries are C17's)
        cases = [c for c in cases if c.get("kind") == "slots" or c.get("src") != "matrix" or (c["ops"] and c["ops"][0][0] in storing)]
    if prop == "C06":      # "a rejected single-item operation leaves the container unchanged": histories with such operations
        single = ("append", "insert", "setitem", "setdefault", "setdefault1")
        cases = [c for c in cases if c.get("src") == "random" or any(op[0] in single for op in c.get("ops", []))]
    return cases


# ---------------------------------------------------------------------------------------------
# dict part
# ---------------------------------------------------------------------------------------------
DKINDS = {"si": ("str", "int"), "is": ("int", "str"), "ab": ("any", "bool")}
POOL["any"] = [1, True, 1.0, "a", None, 0, False, "A", 2, (), (1,), (1, 2), ((1, 2), 3), b"ab", "%s", "100%"]
QUERY["any"] = [1, True, 1.0, "a", None, 0, 2.5, "zz", False, (1, 2), (1,), b"ab", "%s"]
# string keys / values the "other" dict field (StringField -> StringField) can hold, per key / value field of the main dict
DOTHER_POOL = {"int": ["7", "0", " 9 ", "100", "abc", "101", ""], "str": OTHER_POOL["str"], "bool": OTHER_POOL["bool"],
               "any": ["a", "b", "1"]}
# "otherfield": a typed dict of another field held by another configuration; "otherfieldsame": of another field
# of the SAME configuration object; "duck": an object with keys() and __getitem__ only; "mappingsub": a
# collections.abc.Mapping subclass that is not a dict; "pairs2": a list of 2-element lists; "tpairs": a tuple of pairs
SRC_KINDS = ["none", "dict", "pairs", "pairs2", "tpairs", "iter", "gen", "mapping", "mappingproxy", "duck", "mappingsub", "compat",
             "othercfg", "otherfield", "otherfieldsame", "self"]
OTHERFIELD_KINDS = ("otherfield", "otherfieldsame")


class _Duck:
    """duck-typed mapping: keys() and __getitem__, neither a dict nor a registered Mapping"""
    def __init__(self, d):
        self._d = dict(d)

    def keys(self):
        return list(self._d.keys())

    def __getitem__(self, k):
        return self._d[k]


def _mapsub(d):
    import collections.abc

    class MapSub(collections.abc.Mapping):
        def __init__(self, dd):
            self._d = dict(dd)

        def __getitem__(self, k):
            return self._d[k]

        def __iter__(self):
            return iter(self._d)

        def __len__(self):
            return len(self._d)
    return MapSub(d)
CLASH_NAMES = ("iterable", "self")     # parameter names of DictProxy.update (open finding F51)
CLASH_VALUES = {"si": [0, 5, None, "7", 100], "ab": [False, True, None, 0, 1]}
ASSIGN_KINDS = ("dict", "compat", "othercfg", "otherfield", "otherfieldsame", "self")     # DictField accepts dict instances only
OR_KINDS = ["dict", "pairs", "pairs2", "tpairs", "iter", "gen", "compat", "othercfg", "otherfield", "otherfieldsame", "self"]   # `|` with other mappings is their __ror__
KW_KEYS = {"str": ["a", "B", "c ", "zz"], "int": ["7", "5", "abc", "100", "101"], "any": ["a", "b", "k"]}


def _denv(dk):
    key = "dict:" + dk
    if key not in _CACHE:
        from cincoconfig import Schema, DictField, StringField
        from cincoconfig import ListField
        s = Schema()
        kf = None if DKINDS[dk][0] == "any" else _mk_field(DKINDS[dk][0])
        vf = _mk_field(DKINDS[dk][1])
        item = Schema()
        for holder in (s, s.sub, item):
            holder.d = DictField(kf, vf)
            holder.o = DictField(StringField(), StringField())
        s.items = ListField(item)
        _CACHE[key] = (s, s._fields["d"].key_field, s._fields["d"].value_field)
    return _CACHE[key]


def _classes(values, field):
    out = {"valid": [], "normalisable": [], "invalid": []}
    for x in values:
        r = _validate(field, x)
        out["invalid" if r[0] == "err" else ("valid" if _same(r[1], x) else "normalisable")].append(x)
    return out


def _dpools(dk):
    _, kf, vf = _denv(dk)
    kn, vn = DKINDS[dk]
    kcls = _classes([x for x in POOL[kn] if not isinstance(x, list)], kf)
    vcls = _classes(POOL[vn], vf)
    return kcls, vcls


def _pick(rng, cls, p_valid=0.55, p_norm=0.3):
    r = rng.random()
    if r < p_valid and cls["valid"]:
        return rng.choice(cls["valid"])
    if r < p_valid + p_norm and cls["normalisable"]:
        return rng.choice(cls["normalisable"])
    if cls["invalid"]:
        return rng.choice(cls["invalid"])
    return rng.choice(cls["valid"])


def _src_pairs(dk, skind, kcls, vcls, ck, rng=None):
    """pairs for a source of kind skind whose 'interesting' pair is of class ck (valid/normalisable/invalid)"""
    kn, vn = DKINDS[dk]
    if skind in ("none", "self"):
        return []
    if skind in ("othercfg", "compat"):
        ok_k = kcls["valid"] + kcls["normalisable"]
        ok_v = vcls["valid"] + vcls["normalisable"]
        return [(ok_k[0], ok_v[0]), (ok_k[-1], ok_v[-1])]
    if skind in OTHERFIELD_KINDS:
        ks, vs = DOTHER_POOL[kn], DOTHER_POOL[vn]
        _, kf, vf = _denv(dk)
        kk = [k for k in ks if classify_by(kf, k) == (ck if ck != "valid" else classify_by(kf, k))]
        good_k = [k for k in ks if classify_by(kf, k) != "invalid"] or ks
        by = [v for v in vs if classify_by(vf, v) == ck] or vs
        return [(good_k[0], by[0]), (good_k[-1], vs[0])]
    v = vcls["valid"]
    k = [x for x in kcls["valid"] if x is not None] or kcls["valid"]
    special_v = (vcls[ck] or v)[0]
    special_k = (kcls[ck] or k)[0]
    return [(k[0], v[0]), (k[1 % len(k)], special_v), (special_k, v[1 % len(v)])]


def classify_by(field, x):
    r = _validate(field, x)
    return "invalid" if r[0] == "err" else ("valid" if _same(r[1], x) else "normalisable")


def _dict_matrix(tier):
    cases = []
    for dk in DKINDS:
        kn, vn = DKINDS[dk]
        kcls, vcls = _dpools(dk)
        k = [x for x in kcls["valid"] if x is not None] or kcls["valid"]
        v = [x for x in vcls["valid"] if x is not None]
        inits = [[], [(k[0], v[0])], [(k[0], v[0]), (k[1 % len(k)], (vcls["normalisable"] or v)[0]), (k[2 % len(k)], v[1 % len(v)])]]
        for init in inits:
            single = []
            for ck in ("valid", "normalisable", "invalid"):
                for kk in {(kcls[ck] or k)[0], k[0], (kcls["valid"])[-1]}:
                    for vv in ((vcls[ck] or v)[0], v[0]):
                        single += [[("setitem", kk, vv)], [("setdefault", kk, vv)]]
                    single.append([("setdefault1", kk)])
                for skind in SRC_KINDS:
                    if skind in ("none", "self", "compat", "othercfg") and ck != "valid":
                        continue
                    ps = _src_pairs(dk, skind, kcls, vcls, ck)
                    single += [[("update", (skind, ps), [])], [("new", (skind, ps))]]
                    if skind in ASSIGN_KINDS:
                        single += [[("assign", (skind, ps))],
                                   [("assign", (skind, ps)), ("setitem", (kcls["normalisable"] or k)[0], v[0]),
                                    ("setitem", k[0], (vcls["invalid"] or v)[0])]]
                    if skind != "none":
                        single += [[("ior", (skind, ps))]]
                    if skind in OR_KINDS:
                        single += [[("or", (skind, ps))]]
                    single += [[("update", (skind, []), [])]]
                    kw = [(KW_KEYS[kn][0], v[0]), (KW_KEYS[kn][1], (vcls[ck] or v)[0]), (KW_KEYS[kn][-1], v[0])]
                    single += [[("update", (skind, ps), kw)]]
                single += [[("update", ("none", []), [(kx, v[0]) for kx in KW_KEYS[kn]])]]
            for q in QUERY[kn]:
                single += [[("pop", q)], [("popd", q, 99)], [("delitem", q)], [("getitem", q)], [("get", q)],
                           [("getd", q, "dflt")], [("contains", q)]]
            single += [[("popitem",)], [("popitem",), ("popitem",)], [("clear",)], [("len",)], [("items",)], [("keys",)],
                       [("values",)], [("reversed",)], [("copy",)]]
            _, kf, vf = _denv(dk)
            ninit = list(dict((kf.validate(None, a), vf.validate(None, b)) for a, b in init).items())
            for o in (("dict", ninit), ("dict", list(reversed(ninit))), ("dict", ninit[:-1]), ("dict", ninit + [("zz9", v[0])]),
                      ("val", None), ("val", [list(p) for p in ninit])):
                single += [[("eq", o)], [("ne", o)], [("eqr", o)]]
            # the reflected position and unpacking: a plain dict, left operand first
            okp = [(k[0], v[0]), ((kcls["normalisable"] or k)[0], (vcls["invalid"] or v)[0])]
            for ps in ([], okp[:1], okp, ninit):
                single += [[("ror", ps)], [("star", ps, [])], [("star", [], ps)], [("star", ps, okp)]]
            if ninit:
                single += [[("eq", ("dict", [(a, (True if _same(b, 1) else (1 if b is True else b))) for a, b in ninit]))]]
            for ops in single:
                cases.append({"kind": "dict", "field": dk, "init": [tuple(p) for p in init], "ops": list(ops) + [("copy",)],
                              "src": "matrix"})
            # region of the open finding F51: keyword names that collide with update's own parameters
            # (always the last operation of a history: proxy and twin differ afterwards)
            if dk in CLASH_VALUES:
                cv = CLASH_VALUES[dk]
                clash = [[("update", ("none", []), [("iterable", x)])] for x in cv]
                clash += [[("update", ("none", []), [("self", cv[0])])],
                          [("update", ("dict", [(k[0], v[0])]), [("iterable", cv[0])])],
                          [("update", ("none", []), [(KW_KEYS[kn][0], v[0]), ("iterable", cv[0]), (KW_KEYS[kn][-1], v[0])])],
                          [("setitem", k[0], v[0]), ("update", ("pairs", [(k[0], v[0])]), [("self", cv[1]), ("iterable", cv[0])])]]
                for ops in clash:
                    cases.append({"kind": "dict", "field": dk, "init": [tuple(p) for p in init], "ops": list(ops),
                                  "src": "matrix"})
    return cases


def _dict_random(rng, i, maxops):
    dk = list(DKINDS)[i % len(DKINDS)]
    kn, vn = DKINDS[dk]
    kcls, vcls = _dpools(dk)
    okk = kcls["valid"] + kcls["normalisable"]
    okv = vcls["valid"] + vcls["normalisable"]
    init = [(rng.choice(okk), rng.choice(okv)) for _ in range(rng.choice([0, 1, 2, 3, 4]))]

    def rpairs(n, sure_ok=False):
        if sure_ok:
            return [(rng.choice(okk), rng.choice(okv)) for _ in range(n)]
        return [(_pick(rng, kcls, 0.6, 0.3), _pick(rng, vcls, 0.6, 0.3)) for _ in range(n)]

    def rsrc():
        skind = rng.choice(SRC_KINDS)
        n = rng.randint(0, 3)
        if skind in ("none", "self"):
            return (skind, [])
        if skind in ("compat", "othercfg"):
            return (skind, rpairs(n, True))
        if skind in OTHERFIELD_KINDS:
            return (skind, [(rng.choice(DOTHER_POOL[kn]), rng.choice(DOTHER_POOL[vn])) for _ in range(n)])
        return (skind, rpairs(n))

    ops = []
    for _ in range(rng.randint(3, maxops)):
        r = rng.random()
        q = rng.choice(QUERY[kn])
        if r < 0.16:
            ops.append(("setitem",) + rpairs(1)[0])
        elif r < 0.36:
            kw = []
            if rng.random() < 0.4:
                kw = [(kx, _pick(rng, vcls, 0.7, 0.2)) for kx in rng.sample(KW_KEYS[kn], rng.randint(1, 3))]
            ops.append(("update", rsrc(), kw))
        elif r < 0.44:
            src = rsrc()
            ops.append(("ior", src) if src[0] != "none" else ("update", src, []))
        elif r < 0.52:
            kv = rpairs(1)[0]
            ops.append(("setdefault",) + kv if rng.random() < 0.7 else ("setdefault1", kv[0]))
        elif r < 0.56:
            src = rsrc()
            ops.append(("copy",) if rng.random() < 0.3 else (("assign", src) if src[0] in ASSIGN_KINDS and rng.random() < 0.5
                                                              else ("new", src)))
        elif r < 0.63:
            ops.append(("pop", q) if rng.random() < 0.5 else ("popd", q, rng.choice([None, 0, "d"])))
        elif r < 0.68:
            ops.append(("popitem",))
        elif r < 0.73:
            ops.append(("delitem", q))
        elif r < 0.82:
            ops.append(rng.choice([("getitem", q), ("get", q), ("getd", q, rng.choice([None, 1, "d"])), ("contains", q)]))
        elif r < 0.84:
            ops.append(("clear",))
        elif r < 0.91:
            ops.append((rng.choice(["len", "items", "keys", "values", "reversed"]),))
        elif r < 0.96:
            o = rng.choice([("dict", list(dict(rpairs(rng.randint(0, 2), True)).items())), ("val", None), ("val", [])])
            ops.append((rng.choice(["eq", "ne", "eqr"]), o) if rng.random() < 0.6 else
                       rng.choice([("ror", rpairs(rng.randint(0, 2))), ("star", rpairs(rng.randint(0, 2)), rpairs(rng.randint(0, 1)))]))
        else:
            src = rsrc()
            ops.append(("or", src) if src[0] in OR_KINDS else ("update", src, []))
    if dk in CLASH_VALUES and rng.random() < 0.06:
        kw = [(rng.choice(CLASH_NAMES), rng.choice(CLASH_VALUES[dk]))]
        if rng.random() < 0.5:
            kw.insert(rng.randint(0, 1), (rng.choice(KW_KEYS[kn]), rng.choice(okv)))
        src = rsrc() if rng.random() < 0.3 else ("none", [])
        ops.append(("update", src, kw))
    return {"kind": "dict", "field": dk, "init": init, "ops": ops, "src": "random"}


def _dict_collapse(ps):
    return list(dict(ps).items())


def _dsrc_contents(dk, src):
    """the pairs the source yields, as the model sees them (after the source object's own normalisation)"""
    skind, ps = src
    schema, kf, vf = _denv(dk)
    if skind in ("none", "self"):
        return []
    if skind in ("dict", "mapping", "mappingproxy", "duck", "mappingsub"):
        return _dict_collapse(ps)
    if skind in ("pairs", "pairs2", "tpairs", "iter", "gen"):
        return [tuple(p) for p in ps]
    if skind in ("compat", "othercfg"):
        h = schema()
        h.d = dict(ps)
        return list(h.d.items())
    if skind in OTHERFIELD_KINDS:
        h = schema()
        h.o = dict(ps)
        return list(h.o.items())
    raise Broken("bad source kind " + skind)


def _g_pairs(ps):
    return "[%s]" % ";".join("(%s,%s)" % (gal(a), gal(b)) for a, b in ps)


def _g_dsrc(dk, src):
    skind = src[0]
    if skind == "none":
        return "DSNone"
    if skind == "self":
        return "DSSelf"
    con = {"dict": "DSDict", "pairs": "DSPairs", "iter": "DSIter", "gen": "DSIter", "mapping": "DSMapping",
           "mappingproxy": "DSMapping", "compat": "DSCompat", "othercfg": "DSSameField", "otherfield": "DSProxyOther",
           "otherfieldsame": "DSProxyOther", "duck": "DSMapping", "mappingsub": "DSMapping", "pairs2": "DSPairs", "tpairs": "DSPairs"}[skind]
    return "(%s %s)" % (con, _g_pairs(_dsrc_contents(dk, src)))


def _g_eqarg(o):
    return "(PDict 0%%N %s)" % _g_pairs(_dict_collapse(o[1])) if o[0] == "dict" else gal(o[1])


def _g_dop(dk, op):
    k = op[0]
    if k == "setitem":
        return "(DSetItem %s %s)" % (gal(op[1]), gal(op[2]))
    if k == "update":
        return "(DUpdate %s %s)" % (_g_dsrc(dk, op[1]), _g_pairs(op[2]))
    if k in ("ior", "or", "new", "assign"):
        return "(%s %s)" % ({"ior": "DIOr", "or": "DOr", "new": "DNew", "assign": "DAssign"}[k], _g_dsrc(dk, op[1]))
    if k == "setdefault":
        return "(DSetDefault %s (Some %s))" % (gal(op[1]), gal(op[2]))
    if k == "setdefault1":
        return "(DSetDefault %s None)" % gal(op[1])
    if k == "pop":
        return "(DPop %s None)" % gal(op[1])
    if k == "popd":
        return "(DPop %s (Some %s))" % (gal(op[1]), gal(op[2]))
    if k == "get":
        return "(DGet %s None)" % gal(op[1])
    if k == "getd":
        return "(DGet %s (Some %s))" % (gal(op[1]), gal(op[2]))
    if k in ("delitem", "getitem", "contains"):
        return "(%s %s)" % ({"delitem": "DDelItem", "getitem": "DGetItem", "contains": "DContains"}[k], gal(op[1]))
    if k in ("eq", "ne", "eqr"):
        return "(%s %s)" % ({"eq": "DEq", "ne": "DNe", "eqr": "DEqR"}[k], _g_eqarg(op[1]))
    if k == "ror":
        return "(DROr %s)" % _g_pairs(_dict_collapse(op[1]))
    if k == "star":
        return "(DStar %s %s)" % (_g_pairs(_dict_collapse(op[1])), _g_pairs(_dict_collapse(op[2])))
    simple = {"copy": "DCopy", "popitem": "DPopItem", "clear": "DClear", "len": "DLen", "items": "DItems", "keys": "DKeys",
              "values": "DValues", "reversed": "DReversed"}
    if k in simple:
        return simple[k]
    raise Broken("bad dict op %r" % (op,))


def _g_dict_case(c):
    dk = c["field"]
    _, kf, vf = _denv(dk)
    ks, vs = [], []
    for a, b in c["init"]:
        ks.append(a)
        vs.append(b)
    for op in c["ops"]:
        ps = []
        if op[0] in ("setitem", "setdefault"):
            ps = [(op[1], op[2])]
        elif op[0] == "setdefault1":
            ps = [(op[1], None)]
        elif op[0] == "update":
            ps = _dsrc_contents(dk, op[1]) + list(op[2])
        elif op[0] in ("ior", "new", "assign"):
            ps = _dsrc_contents(dk, op[1])
        for a, b in ps:
            ks.append(a)
            vs.append(b)
    return "(CDict %s %s %s %s %s %s)" % (g_n(1), _g_path(c, "d"), _table(kf, ks), _table(vf, vs), _g_pairs(_dict_collapse(c["init"])),
                                       g_list(c["ops"], lambda o: _g_dop(dk, o)))


def _plain_data(v):
    """results must be plain data; an object of any other class (e.g. what another operand's reflected method
    handed back) is observed as `Other(9)`: never a crash of the harness, never equal to a model value"""
    if v is None or isinstance(v, (bool, int, float, str, bytes, Proxy, Other)):
        return v
    if isinstance(v, list):
        return [_plain_data(x) for x in v]
    if type(v) is tuple:
        return tuple(_plain_data(x) for x in v)
    if isinstance(v, dict):
        return {k: _plain_data(x) for k, x in v.items()}
    return Other(9)


def _enc_dict_ret(r, recv, fid_of):
    from cincoconfig.fields.dict_field import DictProxy
    if r is recv:
        return Other(0)
    if isinstance(r, DictProxy):
        return Proxy(fid_of(r), dict(r))
    return _plain_data(r)


def _apply_dict(obj, op, arg, kw):
    k = op[0]
    if k == "setitem":
        obj[arg[0]] = arg[1]
        return None
    if k == "update":
        return obj.update(**kw) if arg is _NOARG else obj.update(arg, **kw)
    if k == "ior":
        q = obj
        q |= arg
        return q
    if k == "or":
        return obj | arg
    if k == "new":
        from cincoconfig.fields.dict_field import DictProxy
        if isinstance(obj, DictProxy):
            return DictProxy(obj.cfg, obj.dict_field) if arg is _NOARG else DictProxy(obj.cfg, obj.dict_field, arg)
        return dict() if arg is _NOARG else dict(arg)
    if k == "assign":
        from cincoconfig.fields.dict_field import DictProxy
        if isinstance(obj, DictProxy):
            obj.cfg.d = arg                    # whole-value assignment to the field that holds obj
        else:
            new = dict(arg)
            obj.clear()
            obj.update(new)
        return None
    if k == "setdefault":
        return obj.setdefault(arg[0], arg[1])
    if k == "setdefault1":
        return obj.setdefault(arg[0])
    if k == "copy":
        return obj.copy()
    if k == "pop":
        return obj.pop(op[1])
    if k == "popd":
        return obj.pop(op[1], op[2])
    if k == "popitem":
        return obj.popitem()
    if k == "delitem":
        del obj[op[1]]
        return None
    if k == "getitem":
        return obj[op[1]]
    if k == "get":
        return obj.get(op[1])
    if k == "getd":
        return obj.get(op[1], op[2])
    if k == "contains":
        return op[1] in obj
    if k == "clear":
        return obj.clear()
    if k == "len":
        return len(obj)
    if k == "items":
        return list(obj.items())
    if k == "keys":
        return list(obj.keys())
    if k == "values":
        return list(obj.values())
    if k == "reversed":
        return list(reversed(obj))
    if k in ("eq", "ne", "eqr"):
        o = dict(op[1][1]) if op[1][0] == "dict" else op[1][1]
        return (obj == o) if k == "eq" else ((obj != o) if k == "ne" else (o == obj))
    if k == "ror":
        return dict(op[1]) | obj                # the container is the RIGHT operand
    if k == "star":
        return {**dict(op[1]), **obj, **dict(op[2])}
    raise Broken("bad dict op %r" % (op,))


_NOARG = object()


def _impl_dict(c):
    import collections
    import types
    from cincoconfig.fields.dict_field import DictProxy
    dk = c["field"]
    schema, kf, vf = _denv(dk)
    place = c.get("place", "root")
    root = schema()
    cfg = _holder(root, place)             # the configuration that holds the dict
    dfield = _field_at(schema, place, "d")
    pre = _path_of(c, "d")
    c["_c15"] = []

    def fid_of(px):
        return 0 if px.dict_field is dfield else 1

    def first_bad(ps):
        """key (as given) of the first pair the real key / value fields refuse"""
        for a, b in ps:
            if _validate(kf, a)[0] != "ok" or _validate(vf, b)[0] != "ok":
                return (a,)
        return None

    def run_d(f, keys):
        """outcome of an operation on the proxy + what the C15 oracle needs to know about a raised error"""
        from cincoconfig import ValidationError
        try:
            return ("ok", f()), None
        except Broken:
            raise
        except ValidationError as e:
            path = e.ref_path
            shown = path
            if isinstance(path, str) and path.startswith(pre + "[") and path.endswith("]"):
                inner = path[len(pre) + 1:-1]
                if inner in {str(x) for x in keys if isinstance(x, float)}:
                    shown = pre + "[<float>]"          # float text is not modelled
                elif inner in {str(x) for x in keys if not (x is None or isinstance(x, (bool, int, float, str)))}:
                    shown = pre + "[<other>]"          # nor is the text of tuples / bytes (the oracle compares it exactly)
            return ("err", ("validation", shown)), {"cls": "ValidationError", "path": path, "text_has": str(path) in str(e)}
        except Exception as e:  # noqa
            return ("err", _errkind(e)), {"cls": type(e).__name__, "path": None, "text_has": False}

    def vpair(a, b):
        ra, rb = _validate(kf, a), _validate(vf, b)
        return (ra[1], rb[1]) if ra[0] == "ok" and rb[0] == "ok" else None

    def vpairs(ps):
        out = []
        for a, b in ps:
            r = vpair(a, b)
            if r is None:
                return out, False
            out.append(r)
        return out, True

    fb = first_bad(list(dict(c["init"]).items()))
    c["_c15_init"] = {"want": "%s[%s]" % (pre, fb[0]) if fb else None}
    out, info = run_d(lambda: setattr(cfg, "d", dict(c["init"])), [a for a, _ in c["init"]])
    if out[0] != "ok":
        c["_c15_init"].update(info)
        return ("init", out[1])
    p = cfg.d
    twin = {}
    for a, b in dict(c["init"]).items():
        twin[kf.validate(None, a)] = vf.validate(None, b)
    trace = [Proxy(fid_of(p), dict(p)) if isinstance(p, DictProxy) else dict(p)]
    for op in c["ops"]:
        k = op[0]
        accepted, parg, targ, pkw, tkw = True, None, None, {}, {}
        src_ok, kw_prefix = True, []
        checked = []          # the pairs the operation has to validate, in order (C15 oracle)
        if k in ("setitem", "setdefault", "setdefault1"):
            parg = (op[1], op[2] if k != "setdefault1" else None)
            r = vpair(*parg)
            accepted, targ = r is not None, r
            checked = [parg]
        elif k in ("update", "ior", "or", "new", "assign"):
            skind, ps = op[1]
            contents = _dsrc_contents(dk, op[1])
            if skind == "none":
                parg, targ = _NOARG, _NOARG
            elif skind == "self":
                parg, targ = p, twin
            elif skind == "compat":
                parg = p.copy()
                parg.clear()
                parg.update(dict(ps))
                targ = list(parg.items())
            elif skind == "otherfieldsame":
                cfg.o = dict(ps)               # the other dict field of the configuration that holds p
                parg = cfg.o
            elif skind in ("othercfg", "otherfield"):
                h = _holder(schema(), place)
                if skind == "othercfg":
                    h.d = dict(ps)
                    parg = h.d
                else:
                    h.o = dict(ps)
                    parg = h.o
            else:
                raw = [tuple(x) for x in ps]
                parg = {"dict": dict, "pairs": list, "iter": iter, "gen": lambda v: (x for x in v),
                        "pairs2": lambda v: [list(x) for x in v], "tpairs": tuple, "duck": _Duck, "mappingsub": _mapsub,
                        "mapping": lambda v: collections.UserDict(dict(v)),
                        "mappingproxy": lambda v: types.MappingProxyType(dict(v))}[skind](raw)
            if k == "or":
                # never validated: the twin gets the same pairs in a plain dict (or the non-dict argument itself)
                if skind in ("othercfg", "otherfield", "otherfieldsame", "compat"):
                    targ = dict(contents)
                elif skind not in ("none", "self"):
                    targ = {"dict": dict, "pairs": list, "iter": iter, "gen": iter, "tpairs": tuple,
                            "pairs2": lambda v: [list(x) for x in v], "duck": _Duck, "mappingsub": _mapsub,
                            "mapping": lambda v: collections.UserDict(dict(v)),
                            "mappingproxy": lambda v: types.MappingProxyType(dict(v))}[skind]([tuple(x) for x in ps])
            elif k in ("new", "assign") and skind == "othercfg":
                targ = dict(contents)          # same field: DictProxy.__init__ does not validate again
            elif skind not in ("none", "self", "compat"):
                norm, src_ok = vpairs(contents)
                targ = norm if src_ok else None
                accepted = src_ok
            if k != "or" and not (skind in ("none", "self", "compat") or (k in ("new", "assign") and skind == "othercfg")):
                checked = list(contents)
            if k == "update":
                pkw = dict(op[2])
                checked = checked + list(pkw.items())
                nkw, kw_all = vpairs(list(pkw.items()))
                kw_prefix = nkw
                if accepted and not kw_all:
                    accepted = False
                tkw = nkw
        if k == "or" and op[1][0] == "none":
            pout = tout = ("err", "type")      # `p | <nothing>` is not an expression: recorded as a type error on both sides
            c["_c15"].append({"want": None})
        else:
            pout, info = run_d(lambda: _enc_dict_ret(_apply_dict(p, op, parg, pkw), p, fid_of), [a for a, _ in checked])
            fb = first_bad(checked)
            c["_c15"].append(dict(info or {}, want="%s[%s]" % (pre, fb[0]) if fb else None))
            if accepted:
                if k == "update":
                    # keyword keys are normalised too: hand them over as pairs after the positional part
                    def upd_twin():
                        if targ is not _NOARG:
                            twin.update(targ)
                        twin.update(tkw)
                    tout = _run(upd_twin)
                else:
                    tout = _run(lambda: _enc_dict_ret(_apply_dict(twin, op, targ, {}), twin, fid_of))
            else:
                tout = "skipped"
                if k == "update" and src_ok:
                    if targ is not _NOARG and targ is not None:
                        twin.update(targ)
                    twin.update(kw_prefix)
        if k == "assign":
            p = cfg.d                           # the field holds a new object now
        if not isinstance(p, DictProxy) or cfg.d is not p:
            return ("lost-proxy", k)
        trace.append((pout, Proxy(fid_of(p), dict(p)), tout, dict(twin)))
    return trace


def _c15_clause(where, info):
    """C15 on one refused operation: the library's ValidationError, naming the offending entry / field, in path and text"""
    want = info.get("want")
    if want is None or "cls" not in info:
        return []
    if info["cls"] != "ValidationError":
        return ["%s: rejected with %s instead of the library's ValidationError (offending: %r)" % (where, info["cls"], want)]
    if info["path"] != want:
        return ["%s: the error names %r, the offending entry is %r" % (where, info["path"], want)]
    if not info["text_has"]:
        return ["%s: the error text does not contain the path %r" % (where, want)]
    return []


def _c15_init(c, obs, what):
    info = c.get("_c15_init", {})
    if info.get("want") is None:
        return ["assigning an acceptable initial %s failed: %r" % (what, obs)]
    return _c15_clause("assigning the whole %s" % what, info)


def _oracle_dict(c, obs):
    bad = []
    if not isinstance(obs, list):
        return _c15_init(c, obs, "dict")
    if c.get("_c15_init", {}).get("want") is not None:
        return ["assigning a dict with an unacceptable entry (%s) was accepted" % c["_c15_init"]["want"]]
    _, kf, vf = _denv(c["field"])
    prev = obs[0]
    if not isinstance(prev, Proxy):
        return ["the assigned dict is not a typed dict"]

    def held_ok(d):
        for a, b in d.items():
            ra, rb = _validate(kf, a), _validate(vf, b)
            if ra[0] != "ok" or not _same(ra[1], a):
                return "key %r" % (a,)
            if rb[0] != "ok" or not _same(rb[1], b):
                return "value %r" % (b,)
        return None

    for n, (op, (pout, pc, tout, tc)) in enumerate(zip(c["ops"], obs[1:])):
        k = op[0]
        if n < len(c.get("_c15", [])):
            bad += _c15_clause("step %d (%s)" % (n, k), c["_c15"][n])
        if not isinstance(pc, Proxy) or pc.fid != 0:
            bad.append("step %d (%s): the dict is no longer a typed dict of its field" % (n, k))
            break
        h = held_ok(pc.items)
        if h:
            bad.append("step %d (%s): held %s is not a validated key/value of the field" % (n, k, h))
        if tout != "skipped":
            if not _deep_same(pc.items, tc):
                bad.append("step %d (%s): contents %r differ from the builtin's %r" % (n, k, pc.items, tc))
            if pout[0] != tout[0] or not _eq_ret(pout[1], tout[1]):
                bad.append("step %d (%s): result %r differs from the builtin's %r" % (n, k, _canon_out(pout), _canon_out(tout)))
            if pout[0] == "ok" and k in ("copy", "new"):
                r = pout[1]
                if not isinstance(r, Proxy) or r.fid != 0:
                    bad.append("step %d (%s): the result is not a typed dict" % (n, k))
                elif held_ok(r.items):
                    bad.append("step %d (%s): the returned typed dict holds unvalidated %s" % (n, k, held_ok(r.items)))
            if pout[0] == "ok" and k == "ior" and not (isinstance(pout[1], Other) and pout[1].tag == 0):
                bad.append("step %d (|=): the result is not the typed dict itself" % n)
        else:
            if pout[0] == "ok":
                bad.append("step %d (%s): an unacceptable key or value was accepted" % (n, k))
            if k in ("setitem", "setdefault", "setdefault1") and not _deep_same(pc.items, prev.items):
                bad.append("step %d (%s): a rejected single-item operation changed the dict" % (n, k))
        prev = pc
    return bad


# ---------------------------------------------------------------------------------------------
# the override tables, measured on the running classes
# ---------------------------------------------------------------------------------------------
MUST_OVERRIDE = {
    "list": {"__add__", "__iadd__", "__init__", "__setitem__", "append", "copy", "extend", "insert"},
    "dict": {"__init__", "__ior__", "__setitem__", "copy", "setdefault", "update"},
}
# every other entry point of the builtins known to be harmless for a typed container: it only reads,
# removes, reorders or repeats items that are already held, or returns a plain builtin
HARMLESS = {
    "list": {"__class__", "__class_getitem__", "__contains__", "__delattr__", "__delitem__", "__dir__", "__doc__",
             "__eq__", "__format__", "__ge__", "__getattribute__", "__getitem__", "__getstate__", "__gt__", "__hash__",
             "__imul__", "__init_subclass__", "__iter__", "__le__", "__len__", "__lt__", "__mul__", "__ne__", "__new__",
             "__reduce__", "__reduce_ex__", "__repr__", "__reversed__", "__rmul__", "__setattr__", "__sizeof__",
             "__str__", "__subclasshook__", "clear", "count", "index", "pop", "remove", "reverse", "sort"},
    "dict": {"__class__", "__class_getitem__", "__contains__", "__delattr__", "__delitem__", "__dir__", "__doc__",
             "__eq__", "__format__", "__ge__", "__getattribute__", "__getitem__", "__getstate__", "__gt__", "__hash__",
             "__init_subclass__", "__iter__", "__le__", "__len__", "__lt__", "__ne__", "__new__", "__or__",
             "__reduce__", "__reduce_ex__", "__repr__", "__reversed__", "__ror__", "__setattr__", "__sizeof__",
             "__str__", "__subclasshook__", "clear", "fromkeys", "get", "items", "keys", "pop", "popitem", "values"},
}


def _slots(which):
    from cincoconfig.fields.list_field import ListProxy
    from cincoconfig.fields.dict_field import DictProxy
    cls, base = (ListProxy, list) if which == "list" else (DictProxy, dict)
    out = []
    for m in sorted(dir(base)):
        owner = None
        for k in cls.__mro__:
            if m in vars(k):
                owner = k
                break
        out.append((m, owner is not base and owner is not object))
    return out


# ---------------------------------------------------------------------------------------------
# Gallina literals
# ---------------------------------------------------------------------------------------------
_EK = {"value": "EValue", "type": "EType", "validation": "(EValidation [])", "index": "EIndex", "key": "EKey",
       "overflow": "EOverflow", "attribute": "EAttribute", "other": "EOtherExn"}


def _g_res(r):
    return "(Ok %s)" % gal(r[1]) if r[0] == "ok" else "(Err %s)" % _EK[r[1]]


def _vkey(x):
    return (type(x).__name__, repr(x))


def _table(field, values):
    """finite validator table, closed under 'output of an accepted value'"""
    seen, rows = set(), []

    def add(x):
        if _vkey(x) in seen:
            return
        seen.add(_vkey(x))
        r = _validate(field, x)
        rows.append("(%s,%s)" % (gal(x), _g_res(r)))
        if r[0] == "ok":
            add(r[1])
    for x in values:
        add(x)
    return "[%s]" % ";".join(rows)


def _other_contents(fname, items):
    other = _env(fname)[2]
    return [other.validate(None, x) for x in items]


def _same_contents(fname, items):
    main = _env(fname)[1]
    return [main.validate(None, x) for x in items]


def _g_slice(sl):
    return "(%s,%s,%s)" % tuple(g_opt(v, g_z) for v in sl)


def _g_iterable(fname, it):
    kind, items = it
    if kind == "self":
        return "ItSelf"
    if kind == "same":
        return "(ItProxySame %s)" % g_list(_same_contents(fname, items), gal)
    if kind in OTHER_KINDS:
        return "(ItProxyOther %s)" % g_list(_other_contents(fname, items), gal)
    con = {"list": "ItList", "tuple": "ItTuple", "iter": "ItIter", "gen": "ItIter"}[kind]
    return "(%s %s)" % (con, g_list(items, gal))


def _it_values(fname, it):
    kind, items = it
    if kind == "self":
        return []
    if kind == "same":
        return _same_contents(fname, items)
    if kind in OTHER_KINDS:
        return _other_contents(fname, items)
    return list(items)


def _g_lop(fname, op):
    k = op[0]
    if k == "append":
        return "(LAppend %s)" % gal(op[1])
    if k == "insert":
        return "(LInsert %s %s)" % (g_z(op[1]), gal(op[2]))
    if k == "setitem":
        return "(LSetItem %s %s)" % (g_z(op[1]), gal(op[2]))
    if k in ("extend", "iadd", "add", "new", "assign"):
        return "(%s %s)" % ({"extend": "LExtend", "iadd": "LIAdd", "add": "LAdd", "new": "LNew", "assign": "LAssign"}[k],
                            _g_iterable(fname, op[1]))
    if k == "setslice":
        return "(LSetSlice %s %s)" % (_g_slice(op[1]), _g_iterable(fname, op[2]))
    if k in ("delitem", "getitem"):
        return "(%s %s)" % ({"delitem": "LDelItem", "getitem": "LGetItem"}[k], g_z(op[1]))
    if k in ("delslice", "getslice"):
        return "(%s %s)" % ({"delslice": "LDelSlice", "getslice": "LGetSlice"}[k], _g_slice(op[1]))
    if k == "pop":
        return "(LPop %s)" % g_opt(op[1], g_z)
    if k in ("remove", "count", "contains"):
        return "(%s %s)" % ({"remove": "LRemove", "count": "LCount", "contains": "LContains"}[k], gal(op[1]))
    if k == "index":
        return "(LIndex %s %s %s)" % (gal(op[1]), g_opt(op[2], g_z), g_opt(op[3], g_z))
    if k in ("clear", "reverse", "copy", "len", "iter", "reversed"):
        return {"clear": "LClear", "reverse": "LReverse", "copy": "LCopy", "len": "LLen", "iter": "LIter",
                "reversed": "LReversed"}[k]
    if k == "sort":
        return "(LSort %s)" % g_bool(op[1])
    if k in ("mul", "rmul", "imul"):
        return "(%s %s)" % ({"mul": "LMul", "rmul": "LRMul", "imul": "LIMul"}[k], g_z(op[1]))
    if k in ("eq", "ne", "eqr", "lt", "gt"):
        return "(%s %s)" % ({"eq": "LEq", "ne": "LNe", "eqr": "LEqR", "lt": "LLt", "gt": "LGt"}[k], gal(op[1]))
    if k == "radd":
        return "(LRAdd (%s %s))" % ({"list": "ItList", "tuple": "ItTuple"}[op[1][0]], g_list(op[1][1], gal))
    if k == "concat":
        return "(LConcat %s %s %s)" % (g_bool(op[1] == "star"), g_list(op[2], gal), g_list(op[3], gal))
    raise Broken("bad list op %r" % (op,))


def _list_inserted_values(fname, c):
    vals = list(c["init"])
    for op in c["ops"]:
        if op[0] in ("append",):
            vals.append(op[1])
        elif op[0] in ("insert", "setitem"):
            vals.append(op[2])
        elif op[0] in ("extend", "iadd", "add", "new", "assign"):
            vals += _it_values(fname, op[1])
        elif op[0] == "setslice":
            vals += _it_values(fname, op[2])
    return vals


def _path_of(c, name):
    return PLACE_PREFIX[c.get("place", "root")] + name


def _g_path(c, name):
    from common import g_str
    return g_str(_path_of(c, name))


def gcase(c):
    if c["kind"] == "slots":
        return "(CSlots %s)" % g_bool(c["which"] == "list")
    if c["kind"] == "list":
        fname = c["field"]
        main = _env(fname)[1]
        return "(CList %s %s %s %s %s)" % (g_n(1), _g_path(c, "l"), _table(main, _list_inserted_values(fname, c)),
                                        g_list(c["init"], gal), g_list(c["ops"], lambda o: _g_lop(fname, o)))
    return _g_dict_case(c)


# ---------------------------------------------------------------------------------------------
# running the implementation
# ---------------------------------------------------------------------------------------------
def _run(f):
    try:
        return ("ok", f())
    except Broken:
        raise
    except Exception as e:  # noqa
        return ("err", _errkind(e))


def _enc_list_ret(r, recv, fid_of):
    from cincoconfig.fields.list_field import ListProxy
    if r is recv:
        return Other(0)
    if isinstance(r, ListProxy):
        return Proxy(fid_of(r), _plain_data(list(r)))
    return _plain_data(r)


def _apply_list(obj, op, arg):
    """one operation on a list-like object; `arg` = the iterable / item actually handed over"""
    k = op[0]
    if k == "append":
        return obj.append(arg)
    if k == "insert":
        return obj.insert(op[1], arg)
    if k == "setitem":
        return obj.__setitem__(op[1], arg)
    if k == "extend":
        return obj.extend(arg)
    if k == "iadd":
        q = obj
        q += arg
        return q
    if k == "add":
        return obj + arg
    if k == "new":
        from cincoconfig.fields.list_field import ListProxy
        return ListProxy(obj.cfg, obj.list_field, arg) if isinstance(obj, ListProxy) else list(arg)
    if k == "assign":
        from cincoconfig.fields.list_field import ListProxy
        if isinstance(obj, ListProxy):
            obj.cfg.l = arg                   # whole-value assignment to the field that holds obj
        else:
            obj[:] = list(arg)
        return None
    if k == "setslice":
        obj[slice(*op[1])] = arg
        return None
    if k == "copy":
        return obj.copy()
    if k == "delitem":
        del obj[op[1]]
        return None
    if k == "delslice":
        del obj[slice(*op[1])]
        return None
    if k == "getitem":
        return obj[op[1]]
    if k == "getslice":
        return obj[slice(*op[1])]
    if k == "pop":
        return obj.pop() if op[1] is None else obj.pop(op[1])
    if k == "remove":
        return obj.remove(op[1])
    if k == "index":
        if op[3] is not None:
            return obj.index(op[1], 0 if op[2] is None else op[2], op[3])
        if op[2] is not None:
            return obj.index(op[1], op[2])
        return obj.index(op[1])
    if k == "count":
        return obj.count(op[1])
    if k == "contains":
        return op[1] in obj
    if k == "clear":
        return obj.clear()
    if k == "reverse":
        return obj.reverse()
    if k == "sort":
        return obj.sort(reverse=op[1])
    if k == "mul":
        return obj * op[1]
    if k == "rmul":
        return op[1] * obj
    if k == "imul":
        q = obj
        q *= op[1]
        return q
    if k == "len":
        return len(obj)
    if k == "iter":
        return list(iter(obj))
    if k == "reversed":
        return list(reversed(obj))
    if k == "eq":
        return obj == op[1]
    if k == "ne":
        return obj != op[1]
    if k == "eqr":
        return op[1] == obj
    if k == "lt":
        return obj < op[1]
    if k == "gt":
        return op[1] < obj
    if k == "radd":
        return {"list": list, "tuple": tuple}[op[1][0]](op[1][1]) + obj     # the container is the RIGHT operand
    if k == "concat":
        if op[1] == "star":
            return [*op[2], *obj, *op[3]]
        return sum([list(op[2]), obj, list(op[3])], [])
    raise Broken("bad list op %r" % (op,))


def _impl_list(c):
    from cincoconfig.fields.list_field import ListProxy
    fname = c["field"]
    schema, main, other = _env(fname)
    place = c.get("place", "root")
    root = schema()
    cfg = _holder(root, place)             # the configuration that holds the list
    helper = _holder(schema(), place)
    lfield = _field_at(schema, place, "l")

    def fid_of(px):
        return 0 if px.list_field is lfield else 1

    # C15 bookkeeping (for the oracle): what a whole-value assignment of this initial list has to report
    c["_c15_init"] = {"want": _path_of(c, "l") if any(_validate(main, x)[0] != "ok" for x in c["init"]) else None}
    try:
        cfg.l = list(c["init"])
    except Exception as e:  # noqa
        from cincoconfig import ValidationError
        c["_c15_init"].update(cls=type(e).__name__, path=getattr(e, "ref_path", None) if isinstance(e, ValidationError) else None,
                              text_has=isinstance(e, ValidationError) and e.ref_path in str(e))
        if isinstance(e, ValidationError):
            return ("init", ("validation", e.ref_path))
        return ("init", _errkind(e))
    p = cfg.l
    twin = []
    for x in c["init"]:
        twin.append(main.validate(None, x))
    trace = [Proxy(fid_of(p), _plain_data(list(p))) if isinstance(p, ListProxy) else _plain_data(list(p))]
    c["_ident"] = []
    # count the calls of the item field's validate made by the operations on the proxy (and only those)
    calls, counting = [0], [False]
    real_validate = type(main).validate

    def counted(cfg_, value):
        if counting[0]:
            calls[0] += 1
        return real_validate(main, cfg_, value)
    main.validate = counted
    try:
        return _impl_list_ops(c, trace, p, twin, cfg, helper, main, fid_of, calls, counting)
    finally:
        del main.validate


def _impl_list_ops(c, trace, p, twin, cfg, helper, main, fid_of, calls, counting):
    from cincoconfig.fields.list_field import ListProxy
    for op in c["ops"]:
        k = op[0]
        accepted, parg, targ, prefix = True, None, None, []
        if k in ("append", "insert", "setitem"):
            parg = op[-1]
            r = _validate(main, parg)
            accepted, targ = r[0] == "ok", (r[1] if r[0] == "ok" else None)
        elif k in ("extend", "iadd", "add", "setslice", "new", "assign"):
            kind, items = op[-1]
            if kind == "self":
                parg = p
                if k == "setslice":
                    rs = [_validate(main, x) for x in list(p)]
                    accepted = all(r[0] == "ok" for r in rs)
                    targ = [r[1] for r in rs] if accepted else None
                else:
                    targ = list(twin) if k == "assign" else twin
            else:
                if kind == "same":
                    helper.l = list(items)
                    parg = helper.l
                    vals = list(parg)
                elif kind == "other":
                    helper.o = list(items)
                    parg = helper.o
                    vals = list(parg)
                elif kind == "othersame":
                    cfg.o = list(items)         # the other list field of the configuration that holds p
                    parg = cfg.o
                    vals = list(parg)
                else:
                    vals = list(items)
                    parg = {"list": list, "tuple": tuple, "iter": iter, "gen": lambda v: (x for x in v)}[kind](list(items))
                if k == "assign" and kind in ("iter", "gen"):
                    accepted = False            # ListField accepts list / tuple instances only
                elif kind == "same" and k != "setslice":
                    targ = list(vals)           # not validated again by the proxy: already normal
                else:
                    rs = [_validate(main, x) for x in vals]
                    accepted = all(r[0] == "ok" for r in rs)
                    targ = [r[1] for r in rs] if accepted else None
                    for r in rs:
                        if r[0] != "ok":
                            break
                        prefix.append(r[1])
        shadow = list(p)                      # the item objects held before the operation
        raw = []

        def on_proxy():
            r = _apply_list(p, op, parg)
            raw.append(r)
            return _enc_list_ret(r, p, fid_of)
        calls[0] = 0
        counting[0] = True
        try:
            pout = _run(on_proxy)
        finally:
            counting[0] = False
        ncalls = calls[0]
        # identity of item objects: results that the builtin builds from the held items hold those very objects
        if raw and k in ("copy", "mul", "rmul", "getslice", "iter", "reversed", "add") and isinstance(raw[0], list):
            want = _apply_list(shadow, op, []) if k != "add" else list(shadow)
            got = list(raw[0])[:len(want)] if k == "add" else list(raw[0])
            c["_ident"].append((len(trace) - 1, [id(x) for x in got] == [id(x) for x in want]))
        if accepted:
            tout = _run(lambda: _enc_list_ret(_apply_list(twin, op, targ), twin, fid_of))
        else:
            tout = "skipped"
            if k in ("extend", "iadd"):
                twin.extend(prefix)
        if k == "assign":
            p = cfg.l                           # the field may hold a new object now
        if not isinstance(p, ListProxy) or cfg.l is not p:
            return ("lost-proxy", k)
        trace.append((pout, Proxy(fid_of(p), _plain_data(list(p))), tout, _plain_data(list(twin)), ncalls))
    return trace


def impl(c):
    if c["kind"] == "slots":
        return [(m, ov) for m, ov in _slots(c["which"])]
    if c["kind"] == "list":
        return _impl_list(c)
    return _impl_dict(c)


# ---------------------------------------------------------------------------------------------
# the property itself, evaluated on the implementation's observations (no model involved)
# ---------------------------------------------------------------------------------------------
def _plain(v):
    """a return value with the type tag removed"""
    if isinstance(v, Proxy):
        return v.items
    return v


def _eq_ret(a, b):
    a, b = _plain(a), _plain(b)
    if isinstance(a, Other) and isinstance(b, Other):
        return a.tag == b.tag
    if isinstance(a, Other) or isinstance(b, Other):
        return False
    return _deep_same(a, b)


def _deep_same(a, b):
    if type(a) is not type(b):
        return False
    if isinstance(a, (list, tuple)):
        return len(a) == len(b) and all(_deep_same(x, y) for x, y in zip(a, b))
    if isinstance(a, dict):
        return len(a) == len(b) and all(_deep_same(x, y) for x, y in zip(a.items(), b.items()))
    return a == b


def _oracle_slots(c, obs):
    bad = []
    which = c["which"]
    for m, ov in obs:
        if m in MUST_OVERRIDE[which]:
            if not ov:
                bad.append("%s entry point %s puts caller-supplied items into the typed container (or returns an "
                           "untyped one) but resolves to the builtin slot" % (which, m))
        elif m not in HARMLESS[which]:
            bad.append("%s entry point %s is not classified (new builtin method?)" % (which, m))
    for m in MUST_OVERRIDE[which]:
        if m not in [x for x, _ in obs]:
            bad.append("%s entry point %s not found" % (which, m))
    return bad


def _oracle_list(c, obs):
    bad = []
    if not isinstance(obs, list):
        return _c15_init(c, obs, "list")
    if c.get("_c15_init", {}).get("want") is not None:
        return ["assigning a list with an unacceptable item to %s was accepted" % c["_c15_init"]["want"]]
    main = _env(c["field"])[1]
    prev = obs[0]
    if not isinstance(prev, Proxy):
        bad.append("the assigned list is not a typed list")
        return bad
    idem = c["field"] not in NONIDEM     # "a held item validates to itself" presupposes an idempotent item field
    shared = dict(c.get("_ident", []))
    for n, (op, (pout, pc, tout, tc, ncalls)) in enumerate(zip(c["ops"], obs[1:])):
        k = op[0]
        if not isinstance(pc, Proxy) or pc.fid != 0:
            held = pc.items if isinstance(pc, Proxy) else pc
            bad.append("step %d (%s): the list is no longer a typed list of its field (the field holds %s; items %r were not "
                       "validated by the receiving field)" % (n, k, "another field's typed list" if isinstance(pc, Proxy) else "a plain list",
                                                              [x for x in held if _validate(main, x)[0] != "ok" or not _same(_validate(main, x)[1], x)]))
            break
        for x in pc.items:
            r = _validate(main, x)
            if idem and (r[0] != "ok" or not _same(r[1], x)):
                bad.append("step %d (%s): held item %r is not a validated item of the field" % (n, k, x))
                break
        if k in ("copy", "mul", "rmul", "imul", "getslice", "iter", "reversed", "pop", "getitem", "reverse", "sort", "clear",
                 "delitem", "delslice", "remove", "index", "count", "contains", "len", "eq", "ne") and ncalls:
            bad.append("step %d (%s): the item validator ran %d time(s); the operation takes no new item, held items are "
                       "never validated again" % (n, k, ncalls))
        if shared.get(n) is False:
            bad.append("step %d (%s): the result does not hold the list's own item objects (the builtin's result is shallow: "
                       "the same objects)" % (n, k))
        if tout != "skipped":
            if not _deep_same(pc.items, tc):
                bad.append("step %d (%s): contents %r differ from the builtin's %r" % (n, k, pc.items, tc))
            if pout[0] != tout[0] or not _eq_ret(pout[1], tout[1]):
                bad.append("step %d (%s): result %r differs from the builtin's %r" % (n, k, _canon_out(pout), _canon_out(tout)))
            if pout[0] == "ok" and k in ("copy", "add", "new"):
                r = pout[1]
                if not isinstance(r, Proxy) or r.fid != 0:
                    bad.append("step %d (%s): the result is not a typed list" % (n, k))
                else:
                    for x in r.items:
                        v = _validate(main, x)
                        if idem and (v[0] != "ok" or not _same(v[1], x)):
                            bad.append("step %d (%s): the returned typed list holds unvalidated item %r" % (n, k, x))
                            break
            if pout[0] == "ok" and k == "iadd" and not (isinstance(pout[1], Other) and pout[1].tag == 0):
                bad.append("step %d (+=): the result is not the typed list itself" % n)
        else:
            if pout[0] == "ok":
                bad.append("step %d (%s): an unacceptable item was accepted" % (n, k))
            if k in ("append", "insert", "setitem") and not _deep_same(pc.items, prev.items):
                bad.append("step %d (%s): a rejected single-item operation changed the list" % (n, k))
        prev = pc
    return bad


def _canon_out(o):
    return (o[0], _plain(o[1]) if not isinstance(o[1], Other) else "<self>") if isinstance(o, tuple) else o


def oracle(c, obs):
    if c["kind"] == "slots":
        return _oracle_slots(c, obs)
    if c["kind"] == "list":
        return _oracle_list(c, obs)
    return _oracle_dict(c, obs)


def _clash_steps(c):
    if c.get("kind") != "dict":
        return []
    return [n for n, op in enumerate(c["ops"]) if op[0] == "update" and any(k in CLASH_NAMES for k, _ in op[2])]


def classify(c, msg):
    """F51 (open): DictProxy.update is not positional-only; the keyword form cannot carry 'iterable' / 'self'"""
    for n in _clash_steps(c):
        if msg.startswith("step %d " % n):
            return "F51"
    return None


def tags(c, obs):
    t = set()
    if c["kind"] == "slots":
        return {"slots:" + c["which"]}
    kind = c["kind"]
    t.add("%s:field:%s" % (kind, c.get("field", "")))
    t.add("%s:%s" % (kind, c["src"]))
    if not isinstance(obs, list):
        t.add(kind + ":init-rejected")
        return t
    t.add("%s:len0:%d" % (kind, min(len(obs[0].items), 4)) if isinstance(obs[0], Proxy) else kind + ":untyped")
    for op, step in zip(c["ops"], obs[1:]):
        pout, tout = step[0], step[2]
        res = "rejected" if tout == "skipped" else (pout[0] if pout[0] == "ok" else "err-" + pout[1])
        t.add("%s:%s:%s" % (kind, op[0], res))
        if kind == "dict" and op[0] == "update" and any(k in CLASH_NAMES for k, _ in op[2]):
            t.add("dict:update:kw-clash(F51):" + res)
        if op[0] in ("extend", "iadd", "add", "setslice", "update", "ior", "new", "or"):
            src = op[-1] if kind == "list" else op[1]
            if isinstance(src, (tuple, list)) and src and isinstance(src[0], str):
                t.add("%s:%s:from-%s" % (kind, op[0], src[0]))
    return t


def nontrivial(c, obs):
    if c["kind"] == "slots":
        return True
    return isinstance(obs, list) and len(obs) > 1
