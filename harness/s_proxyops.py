"""
stream `proxyops` (C17): three-way differential over operation sequences —
  * a real ListProxy / DictProxy taken from a real configuration,
  * a builtin list / dict (the "twin") fed the normalised items,
  * the model (ListModel.v / DictModel.v, `run_proxyops`).
Per step the observation is (proxy outcome, proxy contents with type tag, twin outcome, twin contents).
The item validator enters the model as a finite table computed by calling the real item field's
`validate`, so the model contains no field logic.  One extra case kind (`slots`) compares the
override table hard-coded in the model with the one measured on the running classes.
"""
import itertools

from common import gal, g_z, g_n, g_bool, g_opt, g_list, Proxy, Other, Broken

NAME = "proxyops"
IMPORTS = "From Cinco Require Import Base ListModel DictModel."
RUN = "run_proxyops"
CASE_TYPE = "pcase"

SELF = "<<self>>"     # internal marker for "the receiver itself"
_DICT_READY = False

# ---------------------------------------------------------------------------------------------
# fields under test (fid 0 = the field whose proxy is exercised, fid 1 = "another field")
# ---------------------------------------------------------------------------------------------
FIELDS = ["int", "str", "bool", "intreq"]


def _mk_field(name):
    from cincoconfig import IntField, StringField, BoolField
    if name == "int":
        return IntField(min=0, max=100)
    if name == "intreq":
        return IntField(min=0, max=100, required=True)
    if name == "str":
        return StringField(transform_case="lower", transform_strip=True)
    if name == "bool":
        return BoolField()
    if name == "str0":
        return StringField()
    if name == "int0":
        return IntField()
    raise Broken("unknown field " + name)


OTHER_OF = {"int": "str0", "intreq": "str0", "str": "str0", "bool": "str0"}

# candidate values per field: classified at run time into valid / normalisable / invalid
POOL = {
    "int": [0, 1, 5, 7, 42, 100, "7", " 5 ", "100", 3.0, 2.5, None, -1, 101, "abc", "101", True, "", [1]],
    "intreq": [0, 1, 5, 7, 42, 100, "7", " 5 ", "100", 3.0, None, -1, 101, "abc", True],
    "str": ["a", "bc", "", "x y", " Ab ", "XY", "bC\t", None, 5, True, 2.5, ["a"]],
    "bool": [True, False, "yes", "no", "TRUE", "0", 1, 0, 7, None, "maybe", "", [True]],
}
# string values the "other" field (a plain StringField) can hold, per main field
OTHER_POOL = {
    "int": ["7", "0", " 9 ", "100", "abc", "101", ""],
    "intreq": ["7", "0", "100", "abc", "101"],
    "str": ["a", " Ab ", "XY", "bc"],
    "bool": ["yes", "no", "on", "maybe", "x"],
}
# query arguments (never validated by the proxy): cross-type equality matters here
QUERY = {
    "int": [0, 1, 5, 7, 100, True, False, 1.0, 7.0, 2.5, "7", None, 55],
    "intreq": [0, 1, 5, 7, 100, True, 1.0, "7", None],
    "str": ["a", "bc", "", "ab", "xy", "XY", None, 0],
    "bool": [True, False, 1, 0, 1.0, "yes", None, 2],
}

_CACHE = {}


def _env(fname):
    """(schema class objects, main item field, other item field) built once per field name"""
    if fname not in _CACHE:
        from cincoconfig import Schema, ListField
        s = Schema()
        main, other = _mk_field(fname), _mk_field(OTHER_OF[fname])
        s.l = ListField(main)
        s.o = ListField(other)
        _CACHE[fname] = (s, main, other)
    return _CACHE[fname]


def _errkind(e):
    from cincoconfig import ValidationError
    if isinstance(e, ValidationError):
        return "validation"
    for cls, k in ((IndexError, "index"), (KeyError, "key"), (OverflowError, "overflow"), (ValueError, "value"),
                   (TypeError, "type"), (AttributeError, "attribute")):
        if isinstance(e, cls):
            return k
    return "other"


def _validate(field, x):
    """('ok', y) | ('err', kind) from the real item field"""
    try:
        return ("ok", field.validate(None, x))
    except Exception as e:  # noqa
        return ("err", _errkind(e))


def _same(a, b):
    return type(a) is type(b) and a == b


def classify_value(fname, x):
    r = _validate(_env(fname)[1], x)
    if r[0] == "err":
        return "invalid"
    return "valid" if _same(r[1], x) else "normalisable"


# ---------------------------------------------------------------------------------------------
# generation
# ---------------------------------------------------------------------------------------------
ITER_KINDS = ["list", "tuple", "iter", "gen", "same", "other", "self"]


def _by_class(fname):
    out = {"valid": [], "normalisable": [], "invalid": []}
    for x in POOL[fname]:
        out[classify_value(fname, x)].append(x)
    return out


def _mk_iterable(fname, kind, items):
    """an iterable description (kind, items) whose items suit the kind"""
    return (kind, list(items))


def _inits(fname):
    cls = _by_class(fname)
    v = [x for x in cls["valid"] if x is not None]
    nz = cls["normalisable"]
    return [[], [v[0]], [v[1], nz[0], v[2 % len(v)]]]


def _list_matrix(fname, tier):
    cases = []
    cls = _by_class(fname)
    v = [x for x in cls["valid"] if x is not None]
    reps = {"valid": v[1], "normalisable": cls["normalisable"][0], "invalid": cls["invalid"][0]}
    oth = OTHER_POOL[fname]
    oth_by = {"valid": [], "normalisable": [], "invalid": []}
    for x in oth:
        oth_by[classify_value(fname, x)].append(x)
    sl_list = [(None, None, None), (1, 2, None), (0, 0, None), (None, None, 2), (None, None, -1), (5, 1, None),
               (-2, None, None), (1, None, 2), (None, None, 0), (2, 0, -1), (-1, -5, -1)]
    for init in _inits(fname):
        n = len(init)
        idxs = sorted({0, -1, n, -n - 1, n - 1, 1, 7})
        single = []
        for ck, x in reps.items():
            single.append([("append", x)])
            for i in idxs:
                single.append([("insert", i, x)])
                single.append([("setitem", i, x)])
        # every iterable kind x {valid, normalisable, invalid} x inserting entry point
        for kind in ITER_KINDS:
            for ck in ("valid", "normalisable", "invalid"):
                if kind == "self":
                    if ck != "valid":
                        continue
                    items = []
                elif kind == "same":
                    if ck == "invalid":
                        continue
                    items = [reps[ck], v[0]]
                elif kind == "other":
                    if not oth_by[ck]:
                        continue
                    items = [oth_by["valid"][0] if oth_by["valid"] else oth_by[ck][0], oth_by[ck][0]]
                else:
                    items = [v[0], reps[ck], v[2 % len(v)]]
                it = (kind, items)
                single.append([("extend", it)])
                single.append([("iadd", it)])
                single.append([("add", it)])
                for sl in sl_list[:6]:
                    single.append([("setslice", sl, it)])
                if kind in ("list", "iter", "same"):
                    it1 = (kind, items[:1]) if kind != "self" else it
                    for sl in sl_list:
                        single.append([("setslice", sl, it1)])
                    single.append([("setslice", (None, None, 2), (kind, items[:2]))])
        # non-inserting entry points
        qs = QUERY[fname]
        for i in idxs:
            single += [[("delitem", i)], [("getitem", i)], [("pop", i)]]
        single.append([("pop", None)])
        for sl in sl_list:
            single += [[("delslice", sl)], [("getslice", sl)]]
        for q in qs:
            single += [[("remove", q)], [("index", q, None, None)], [("count", q)], [("contains", q)]]
        single += [[("index", qs[1], 1, None)], [("index", qs[1], -2, 5)], [("index", qs[1], None, 1)]]
        single += [[("clear",)], [("reverse",)], [("sort", False)], [("sort", True)], [("copy",)], [("len",)],
                   [("iter",)], [("reversed",)]]
        for k in (-1, 0, 1, 2):
            single += [[("mul", k)], [("rmul", k)], [("imul", k)]]
        norm_init = [_validate(_env(fname)[1], x)[1] for x in init]
        for o in (list(norm_init), tuple(norm_init), norm_init + [v[0]], None):
            single += [[("eq", o)], [("ne", o)]]
        if norm_init:
            single += [[("eq", [True if _same(x, 1) else x for x in norm_init])]]
        for ops in single:
            # a second, observing operation makes partial effects and typedness visible
            cases.append({"kind": "list", "field": fname, "init": list(init), "ops": list(ops) + [("copy",)],
                          "src": "matrix"})
    return cases


def _rand_item(rng, fname, cls):
    r = rng.random()
    if r < 0.55 and cls["valid"]:
        return rng.choice(cls["valid"])
    if r < 0.85 and cls["normalisable"]:
        return rng.choice(cls["normalisable"])
    return rng.choice(cls["invalid"])


def _rand_slice(rng, n):
    def b():
        return rng.choice([None, None] + list(range(-n - 2, n + 3)))
    return (b(), b(), rng.choice([None, None, None, 1, 2, -1, -2, 3, 0 if rng.random() < 0.2 else 1]))


def _rand_iterable(rng, fname, cls, maxn=3):
    kind = rng.choice(ITER_KINDS)
    n = rng.randint(0, maxn)
    if kind == "self":
        return (kind, [])
    if kind == "same":
        ok = cls["valid"] + cls["normalisable"]
        return (kind, [rng.choice(ok) for _ in range(n)])
    if kind == "other":
        return (kind, [rng.choice(OTHER_POOL[fname]) for _ in range(n)])
    return (kind, [_rand_item(rng, fname, cls) for _ in range(n)])


def _has_none(it):
    return any(x is None for x in it[1])


def _list_random(rng, fname, maxops):
    cls = _by_class(fname)
    ok = cls["valid"] + cls["normalisable"]
    init = [rng.choice(ok) for _ in range(rng.choice([0, 1, 2, 3, 3, 5]))]
    none_possible = any(x is None for x in init)
    ops = []
    n_est = len(init)
    for _ in range(rng.randint(3, maxops)):
        r = rng.random()
        n = max(n_est, 0)
        if r < 0.10:
            x = _rand_item(rng, fname, cls); ops.append(("append", x)); n_est += 1
        elif r < 0.18:
            x = _rand_item(rng, fname, cls); ops.append(("insert", rng.randint(-n - 2, n + 2), x)); n_est += 1
        elif r < 0.26:
            x = _rand_item(rng, fname, cls); ops.append(("setitem", rng.randint(-n - 1, n + 1), x))
        elif r < 0.36:
            it = _rand_iterable(rng, fname, cls); ops.append((rng.choice(["extend", "iadd", "add"]), it))
            x = None if not _has_none(it) else 0
            n_est += len(it[1]) if ops[-1][0] != "add" else 0
        elif r < 0.48:
            it = _rand_iterable(rng, fname, cls); ops.append(("setslice", _rand_slice(rng, n), it))
        elif r < 0.53:
            ops.append(("delitem", rng.randint(-n - 1, n + 1))); n_est -= 1
        elif r < 0.58:
            ops.append(("delslice", _rand_slice(rng, n)))
        elif r < 0.62:
            ops.append(("getitem", rng.randint(-n - 1, n + 1)))
        elif r < 0.66:
            ops.append(("getslice", _rand_slice(rng, n)))
        elif r < 0.71:
            ops.append(("pop", rng.choice([None, rng.randint(-n - 1, n + 1)]))); n_est -= 1
        elif r < 0.80:
            q = rng.choice(QUERY[fname])
            k = rng.choice(["remove", "index", "count", "contains"])
            if k == "index":
                ops.append(("index", q, rng.choice([None, None, rng.randint(-n - 1, n + 1)]),
                            rng.choice([None, None, rng.randint(-n - 1, n + 1)])))
            else:
                ops.append((k, q))
        elif r < 0.84:
            ops.append((rng.choice(["reverse", "copy", "len", "iter", "reversed"]),))
        elif r < 0.86:
            ops.append(("clear",)); n_est = 0
        elif r < 0.91:
            if not none_possible:
                ops.append(("sort", rng.random() < 0.5))
            else:
                ops.append(("reverse",))
        elif r < 0.96:
            k = rng.choice(["mul", "rmul", "imul"])
            ops.append((k, rng.choice([-1, 0, 1, 2, 2, 3]) if n_est < 12 else rng.choice([0, 1])))
            if k == "imul":
                n_est *= max(ops[-1][1], 0)
        else:
            o = [rng.choice(QUERY[fname]) for _ in range(rng.randint(0, 3))]
            ops.append((rng.choice(["eq", "ne"]), rng.choice([o, tuple(o), None])))
        last = ops[-1]
        for part in last[1:]:
            if part is None and last[0] in ("append",):
                none_possible = True
        if last[0] in ("append", "insert", "setitem") and last[-1] is None:
            none_possible = True
        if last[0] in ("extend", "iadd", "add", "setslice") and _has_none(last[-1]):
            none_possible = True
    return {"kind": "list", "field": fname, "init": init, "ops": ops, "src": "random"}


def generate(rng, tier):
    cases = [{"kind": "slots", "which": "list"}, {"kind": "slots", "which": "dict"}]
    for fname in FIELDS:
        cases += _list_matrix(fname, tier)
    cases += _dict_matrix(tier)
    if not _DICT_READY:
        return [c for c in cases if c.get("which") != "dict"] + [_list_random(rng, FIELDS[i % len(FIELDS)], 14 if tier == "quick" else 40) for i in range(260 if tier == "quick" else 6000)]
    nrand = 260 if tier == "quick" else 6000
    maxops = 14 if tier == "quick" else 40
    for i in range(nrand):
        cases.append(_list_random(rng, FIELDS[i % len(FIELDS)], maxops))
    for i in range(nrand):
        cases.append(_dict_random(rng, i, maxops))
    return cases


# ---------------------------------------------------------------------------------------------
# dict part: filled in below
# ---------------------------------------------------------------------------------------------
def _dict_matrix(tier):
    return []


def _dict_random(rng, i, maxops):
    raise Broken("dict generator missing")


# ---------------------------------------------------------------------------------------------
# the override tables, measured on the running classes
# ---------------------------------------------------------------------------------------------
MUST_OVERRIDE = {
    "list": {"__add__", "__iadd__", "__init__", "__setitem__", "append", "copy", "extend", "insert"},
    "dict": {"__init__", "__ior__", "__setitem__", "copy", "setdefault", "update"},
}
# every other entry point of the builtins known to be harmless for a typed container: it only reads,
# removes, reorders or repeats items that are already held, or returns a plain builtin
HARMLESS = {
    "list": {"__class__", "__class_getitem__", "__contains__", "__delattr__", "__delitem__", "__dir__", "__doc__",
             "__eq__", "__format__", "__ge__", "__getattribute__", "__getitem__", "__getstate__", "__gt__", "__hash__",
             "__imul__", "__init_subclass__", "__iter__", "__le__", "__len__", "__lt__", "__mul__", "__ne__", "__new__",
             "__reduce__", "__reduce_ex__", "__repr__", "__reversed__", "__rmul__", "__setattr__", "__sizeof__",
             "__str__", "__subclasshook__", "clear", "count", "index", "pop", "remove", "reverse", "sort"},
    "dict": {"__class__", "__class_getitem__", "__contains__", "__delattr__", "__delitem__", "__dir__", "__doc__",
             "__eq__", "__format__", "__ge__", "__getattribute__", "__getitem__", "__getstate__", "__gt__", "__hash__",
             "__init_subclass__", "__iter__", "__le__", "__len__", "__lt__", "__ne__", "__new__", "__or__",
             "__reduce__", "__reduce_ex__", "__repr__", "__reversed__", "__ror__", "__setattr__", "__sizeof__",
             "__str__", "__subclasshook__", "clear", "fromkeys", "get", "items", "keys", "pop", "popitem", "values"},
}


def _slots(which):
    from cincoconfig.fields.list_field import ListProxy
    from cincoconfig.fields.dict_field import DictProxy
    cls, base = (ListProxy, list) if which == "list" else (DictProxy, dict)
    out = []
    for m in sorted(dir(base)):
        owner = None
        for k in cls.__mro__:
            if m in vars(k):
                owner = k
                break
        out.append((m, owner is not base and owner is not object))
    return out


# ---------------------------------------------------------------------------------------------
# Gallina literals
# ---------------------------------------------------------------------------------------------
_EK = {"value": "EValue", "type": "EType", "validation": "(EValidation [])", "index": "EIndex", "key": "EKey",
       "overflow": "EOverflow", "attribute": "EAttribute", "other": "EOtherExn"}


def _g_res(r):
    return "(Ok %s)" % gal(r[1]) if r[0] == "ok" else "(Err %s)" % _EK[r[1]]


def _vkey(x):
    return (type(x).__name__, repr(x))


def _table(field, values):
    """finite validator table, closed under 'output of an accepted value'"""
    seen, rows = set(), []

    def add(x):
        if _vkey(x) in seen:
            return
        seen.add(_vkey(x))
        r = _validate(field, x)
        rows.append("(%s,%s)" % (gal(x), _g_res(r)))
        if r[0] == "ok":
            add(r[1])
    for x in values:
        add(x)
    return "[%s]" % ";".join(rows)


def _other_contents(fname, items):
    other = _env(fname)[2]
    return [other.validate(None, x) for x in items]


def _same_contents(fname, items):
    main = _env(fname)[1]
    return [main.validate(None, x) for x in items]


def _g_slice(sl):
    return "(%s,%s,%s)" % tuple(g_opt(v, g_z) for v in sl)


def _g_iterable(fname, it):
    kind, items = it
    if kind == "self":
        return "ItSelf"
    if kind == "same":
        return "(ItProxySame %s)" % g_list(_same_contents(fname, items), gal)
    if kind == "other":
        return "(ItProxyOther %s)" % g_list(_other_contents(fname, items), gal)
    con = {"list": "ItList", "tuple": "ItTuple", "iter": "ItIter", "gen": "ItIter"}[kind]
    return "(%s %s)" % (con, g_list(items, gal))


def _it_values(fname, it):
    kind, items = it
    if kind == "self":
        return []
    if kind == "same":
        return _same_contents(fname, items)
    if kind == "other":
        return _other_contents(fname, items)
    return list(items)


def _g_lop(fname, op):
    k = op[0]
    if k == "append":
        return "(LAppend %s)" % gal(op[1])
    if k == "insert":
        return "(LInsert %s %s)" % (g_z(op[1]), gal(op[2]))
    if k == "setitem":
        return "(LSetItem %s %s)" % (g_z(op[1]), gal(op[2]))
    if k in ("extend", "iadd", "add"):
        return "(%s %s)" % ({"extend": "LExtend", "iadd": "LIAdd", "add": "LAdd"}[k], _g_iterable(fname, op[1]))
    if k == "setslice":
        return "(LSetSlice %s %s)" % (_g_slice(op[1]), _g_iterable(fname, op[2]))
    if k in ("delitem", "getitem"):
        return "(%s %s)" % ({"delitem": "LDelItem", "getitem": "LGetItem"}[k], g_z(op[1]))
    if k in ("delslice", "getslice"):
        return "(%s %s)" % ({"delslice": "LDelSlice", "getslice": "LGetSlice"}[k], _g_slice(op[1]))
    if k == "pop":
        return "(LPop %s)" % g_opt(op[1], g_z)
    if k in ("remove", "count", "contains"):
        return "(%s %s)" % ({"remove": "LRemove", "count": "LCount", "contains": "LContains"}[k], gal(op[1]))
    if k == "index":
        return "(LIndex %s %s %s)" % (gal(op[1]), g_opt(op[2], g_z), g_opt(op[3], g_z))
    if k in ("clear", "reverse", "copy", "len", "iter", "reversed"):
        return {"clear": "LClear", "reverse": "LReverse", "copy": "LCopy", "len": "LLen", "iter": "LIter",
                "reversed": "LReversed"}[k]
    if k == "sort":
        return "(LSort %s)" % g_bool(op[1])
    if k in ("mul", "rmul", "imul"):
        return "(%s %s)" % ({"mul": "LMul", "rmul": "LRMul", "imul": "LIMul"}[k], g_z(op[1]))
    if k in ("eq", "ne"):
        return "(%s %s)" % ({"eq": "LEq", "ne": "LNe"}[k], gal(op[1]))
    raise Broken("bad list op %r" % (op,))


def _list_inserted_values(fname, c):
    vals = list(c["init"])
    for op in c["ops"]:
        if op[0] in ("append",):
            vals.append(op[1])
        elif op[0] in ("insert", "setitem"):
            vals.append(op[2])
        elif op[0] in ("extend", "iadd", "add"):
            vals += _it_values(fname, op[1])
        elif op[0] == "setslice":
            vals += _it_values(fname, op[2])
    return vals


def gcase(c):
    if c["kind"] == "slots":
        return "(CSlots %s)" % g_bool(c["which"] == "list")
    if c["kind"] == "list":
        fname = c["field"]
        main = _env(fname)[1]
        return "(CList %s %s %s %s)" % (g_n(1), _table(main, _list_inserted_values(fname, c)),
                                        g_list(c["init"], gal), g_list(c["ops"], lambda o: _g_lop(fname, o)))
    return _g_dict_case(c)


def _g_dict_case(c):
    raise Broken("dict literal missing")


# ---------------------------------------------------------------------------------------------
# running the implementation
# ---------------------------------------------------------------------------------------------
def _run(f):
    try:
        return ("ok", f())
    except Broken:
        raise
    except Exception as e:  # noqa
        return ("err", _errkind(e))


def _enc_list_ret(r, recv, fid_of):
    from cincoconfig.fields.list_field import ListProxy
    if r is recv:
        return Other(0)
    if isinstance(r, ListProxy):
        return Proxy(fid_of(r), list(r))
    return r


def _apply_list(obj, op, arg):
    """one operation on a list-like object; `arg` = the iterable / item actually handed over"""
    k = op[0]
    if k == "append":
        return obj.append(arg)
    if k == "insert":
        return obj.insert(op[1], arg)
    if k == "setitem":
        return obj.__setitem__(op[1], arg)
    if k == "extend":
        return obj.extend(arg)
    if k == "iadd":
        q = obj
        q += arg
        return q
    if k == "add":
        return obj + arg
    if k == "setslice":
        obj[slice(*op[1])] = arg
        return None
    if k == "copy":
        return obj.copy()
    if k == "delitem":
        del obj[op[1]]
        return None
    if k == "delslice":
        del obj[slice(*op[1])]
        return None
    if k == "getitem":
        return obj[op[1]]
    if k == "getslice":
        return obj[slice(*op[1])]
    if k == "pop":
        return obj.pop() if op[1] is None else obj.pop(op[1])
    if k == "remove":
        return obj.remove(op[1])
    if k == "index":
        if op[3] is not None:
            return obj.index(op[1], 0 if op[2] is None else op[2], op[3])
        if op[2] is not None:
            return obj.index(op[1], op[2])
        return obj.index(op[1])
    if k == "count":
        return obj.count(op[1])
    if k == "contains":
        return op[1] in obj
    if k == "clear":
        return obj.clear()
    if k == "reverse":
        return obj.reverse()
    if k == "sort":
        return obj.sort(reverse=op[1])
    if k == "mul":
        return obj * op[1]
    if k == "rmul":
        return op[1] * obj
    if k == "imul":
        q = obj
        q *= op[1]
        return q
    if k == "len":
        return len(obj)
    if k == "iter":
        return list(iter(obj))
    if k == "reversed":
        return list(reversed(obj))
    if k == "eq":
        return obj == op[1]
    if k == "ne":
        return obj != op[1]
    raise Broken("bad list op %r" % (op,))


def _impl_list(c):
    from cincoconfig.fields.list_field import ListProxy
    fname = c["field"]
    schema, main, other = _env(fname)
    cfg = schema()
    helper = schema()

    def fid_of(px):
        return 0 if px.list_field is schema._fields["l"] else 1

    try:
        cfg.l = list(c["init"])
    except Exception as e:  # noqa
        return ("init", _errkind(e))
    p = cfg.l
    twin = []
    for x in c["init"]:
        twin.append(main.validate(None, x))
    trace = [Proxy(fid_of(p), list(p)) if isinstance(p, ListProxy) else list(p)]
    for op in c["ops"]:
        k = op[0]
        accepted, parg, targ, prefix = True, None, None, []
        if k in ("append", "insert", "setitem"):
            parg = op[-1]
            r = _validate(main, parg)
            accepted, targ = r[0] == "ok", (r[1] if r[0] == "ok" else None)
        elif k in ("extend", "iadd", "add", "setslice"):
            kind, items = op[-1]
            if kind == "self":
                parg = p
                if k == "setslice":
                    rs = [_validate(main, x) for x in list(p)]
                    accepted = all(r[0] == "ok" for r in rs)
                    targ = [r[1] for r in rs] if accepted else None
                else:
                    targ = twin
            else:
                if kind == "same":
                    helper.l = list(items)
                    parg = helper.l
                    vals = list(parg)
                elif kind == "other":
                    helper.o = list(items)
                    parg = helper.o
                    vals = list(parg)
                else:
                    vals = list(items)
                    parg = {"list": list, "tuple": tuple, "iter": iter, "gen": lambda v: (x for x in v)}[kind](list(items))
                if kind == "same" and k != "setslice":
                    targ = list(vals)           # not validated again by the proxy: already normal
                else:
                    rs = [_validate(main, x) for x in vals]
                    accepted = all(r[0] == "ok" for r in rs)
                    targ = [r[1] for r in rs] if accepted else None
                    for r in rs:
                        if r[0] != "ok":
                            break
                        prefix.append(r[1])
        pout = _run(lambda: _enc_list_ret(_apply_list(p, op, parg), p, fid_of))
        if accepted:
            tout = _run(lambda: _enc_list_ret(_apply_list(twin, op, targ), twin, fid_of))
        else:
            tout = "skipped"
            if k in ("extend", "iadd"):
                twin.extend(prefix)
        if type(p) is not ListProxy or cfg.l is not p:
            return ("lost-proxy", k)
        trace.append((pout, Proxy(fid_of(p), list(p)), tout, list(twin)))
    return trace


def _impl_dict(c):
    raise Broken("dict runner missing")


def impl(c):
    if c["kind"] == "slots":
        return [(m, ov) for m, ov in _slots(c["which"])]
    if c["kind"] == "list":
        return _impl_list(c)
    return _impl_dict(c)


# ---------------------------------------------------------------------------------------------
# the property itself, evaluated on the implementation's observations (no model involved)
# ---------------------------------------------------------------------------------------------
def _plain(v):
    """a return value with the type tag removed"""
    if isinstance(v, Proxy):
        return v.items
    return v


def _eq_ret(a, b):
    a, b = _plain(a), _plain(b)
    if isinstance(a, Other) and isinstance(b, Other):
        return a.tag == b.tag
    if isinstance(a, Other) or isinstance(b, Other):
        return False
    return _deep_same(a, b)


def _deep_same(a, b):
    if type(a) is not type(b):
        return False
    if isinstance(a, (list, tuple)):
        return len(a) == len(b) and all(_deep_same(x, y) for x, y in zip(a, b))
    if isinstance(a, dict):
        return len(a) == len(b) and all(_deep_same(x, y) for x, y in zip(a.items(), b.items()))
    return a == b


def _oracle_slots(c, obs):
    bad = []
    which = c["which"]
    for m, ov in obs:
        if m in MUST_OVERRIDE[which]:
            if not ov:
                bad.append("%s entry point %s puts caller-supplied items into the typed container (or returns an "
                           "untyped one) but resolves to the builtin slot" % (which, m))
        elif m not in HARMLESS[which]:
            bad.append("%s entry point %s is not classified (new builtin method?)" % (which, m))
    for m in MUST_OVERRIDE[which]:
        if m not in [x for x, _ in obs]:
            bad.append("%s entry point %s not found" % (which, m))
    return bad


def _oracle_list(c, obs):
    bad = []
    if not isinstance(obs, list):
        return ["assigning an acceptable initial list failed: %r" % (obs,)] if c.get("init_ok", True) else []
    main = _env(c["field"])[1]
    prev = obs[0]
    if not isinstance(prev, Proxy):
        bad.append("the assigned list is not a typed list")
        return bad
    for n, (op, (pout, pc, tout, tc)) in enumerate(zip(c["ops"], obs[1:])):
        k = op[0]
        if not isinstance(pc, Proxy) or pc.fid != 0:
            bad.append("step %d (%s): the list is no longer a typed list of its field" % (n, k))
            break
        for x in pc.items:
            r = _validate(main, x)
            if r[0] != "ok" or not _same(r[1], x):
                bad.append("step %d (%s): held item %r is not a validated item of the field" % (n, k, x))
                break
        if tout != "skipped":
            if not _deep_same(pc.items, tc):
                bad.append("step %d (%s): contents %r differ from the builtin's %r" % (n, k, pc.items, tc))
            if pout[0] != tout[0] or not _eq_ret(pout[1], tout[1]):
                bad.append("step %d (%s): result %r differs from the builtin's %r" % (n, k, _canon_out(pout), _canon_out(tout)))
            if pout[0] == "ok" and k in ("copy", "add"):
                r = pout[1]
                if not isinstance(r, Proxy) or r.fid != 0:
                    bad.append("step %d (%s): the result is not a typed list" % (n, k))
                else:
                    for x in r.items:
                        v = _validate(main, x)
                        if v[0] != "ok" or not _same(v[1], x):
                            bad.append("step %d (%s): the returned typed list holds unvalidated item %r" % (n, k, x))
                            break
            if pout[0] == "ok" and k == "iadd" and not (isinstance(pout[1], Other) and pout[1].tag == 0):
                bad.append("step %d (+=): the result is not the typed list itself" % n)
        else:
            if pout[0] == "ok":
                bad.append("step %d (%s): an unacceptable item was accepted" % (n, k))
            if k in ("append", "insert", "setitem") and not _deep_same(pc.items, prev.items):
                bad.append("step %d (%s): a rejected single-item operation changed the list" % (n, k))
        prev = pc
    return bad


def _canon_out(o):
    return (o[0], _plain(o[1]) if not isinstance(o[1], Other) else "<self>") if isinstance(o, tuple) else o


def _oracle_dict(c, obs):
    return []


def oracle(c, obs):
    if c["kind"] == "slots":
        return _oracle_slots(c, obs)
    if c["kind"] == "list":
        return _oracle_list(c, obs)
    return _oracle_dict(c, obs)


def tags(c, obs):
    t = set()
    if c["kind"] == "slots":
        return {"slots:" + c["which"]}
    kind = c["kind"]
    t.add("%s:field:%s" % (kind, c.get("field", "")))
    t.add("%s:%s" % (kind, c["src"]))
    if not isinstance(obs, list):
        t.add(kind + ":init-rejected")
        return t
    t.add("%s:len0:%d" % (kind, min(len(obs[0].items), 4)) if isinstance(obs[0], Proxy) else kind + ":untyped")
    for op, step in zip(c["ops"], obs[1:]):
        pout, _, tout, _ = step
        res = "rejected" if tout == "skipped" else (pout[0] if pout[0] == "ok" else "err-" + pout[1])
        t.add("%s:%s:%s" % (kind, op[0], res))
        if op[0] in ("extend", "iadd", "add", "setslice", "update", "ior"):
            src = op[-1] if kind == "list" else op[1]
            if isinstance(src, (tuple, list)) and src and isinstance(src[0], str):
                t.add("%s:%s:from-%s" % (kind, op[0], src[0]))
    return t


def nontrivial(c, obs):
    if c["kind"] == "slots":
        return True
    return isinstance(obs, list) and len(obs) > 1
