"""
stream `defaults` (C12, supplementary, evaluated on the implementation only): every built-in field class with a constant,
callable or absent default; two configurations of one schema and a reset.  The configuration state machine itself is
compared with the Coq model by the `configops` stream; this stream covers the field classes whose `__setdefault__` is their
own (ListField, DictField, ChallengeField, BytesField, nested schemas ...), which Config.v treats as opaque leaves.
"""
import itertools

NAME = "defaults"
MODEL = False            # no Gallina entry point: direct property oracle only
IMPORTS = RUN = CASE_TYPE = None


def field_pool():
    """(name, constructor kwargs builder, sequence of distinct valid defaults)"""
    return [
        ("IntField", {}, [1, 2, 3, 4, 5, 6]),
        ("FloatField", {}, [1.5, 2.5, 3.5, 4.5, 5.5, 6.5]),
        ("StringField", {}, ["a1", "b2", "c3", "d4", "e5", "f6"]),
        ("BoolField", {}, [True, False, True, False, True, False, True]),
        ("PortField", {}, [8001, 8002, 8003, 8004, 8005, 8006]),
        ("IPv4AddressField", {}, ["10.0.0.%d" % i for i in range(1, 7)]),
        ("IPv4NetworkField", {}, ["10.%d.0.0/16" % i for i in range(1, 7)]),
        ("HostnameField", {}, ["host%d.example" % i for i in range(1, 7)]),
        ("BytesField", {}, [b"b1", b"b2", b"b3", b"b4", b"b5", b"b6"]),
        ("UrlField", {}, ["http://h%d.example/" % i for i in range(1, 7)]),
        ("LogLevelField", {}, ["debug", "info", "warning", "error", "critical"]),
        ("SecureField", {"method": "xor"}, ["s1-secret", "s2-secret", "s3-secret", "s4-secret", "s5-secret", "s6-secret"]),
        ("ChallengeField", {}, ["pw-one-1", "pw-two-2", "pw-three-3", "pw-four-4", "pw-five-5", "pw-six-6"]),
        ("ListField", {}, [[1], [2], [3], [4], [5], [6]]),
        ("ListFieldTyped", {}, [[1, 1], [2, 2], [3, 3], [4, 4], [5, 5], [6, 6]]),
        ("DictField", {}, [{"k": 1}, {"k": 2}, {"k": 3}, {"k": 4}, {"k": 5}, {"k": 6}]),
        ("DictFieldTyped", {}, [{"k": 1}, {"k": 2}, {"k": 3}, {"k": 4}, {"k": 5}, {"k": 6}]),
        ("AnyField", {}, ["any1", 2, [3], {"x": 4}, 5.5, None]),
        # declared defaults that are acceptable but not in the field's normal form: exposed AS DECLARED
        ("StringFieldLowerNonNormal", {"transform_case": "lower"}, ["MiXed%d" % i for i in range(1, 7)]),
        ("StringFieldStripNonNormal", {"transform_strip": True}, ["  pad%d  " % i for i in range(1, 7)]),
        ("IPv4NetworkFieldNonNormal", {}, ["10.0.%d.7" % i for i in range(1, 7)]),
        ("HostnameFieldUpperNonNormal", {"transform_case": "upper"}, ["host%d.example" % i for i in range(1, 7)]),
        # containers nested inside the default: every level belongs to one configuration only
        ("DictFieldNested", {}, [{"k": [i, i], "m": {"x": [i]}} for i in range(1, 7)]),
        ("ListFieldNested", {}, [[[i], {"y": [i]}] for i in range(1, 7)]),
        ("DictFieldTypedNested", {}, [{"k": [i, i + 1]} for i in range(1, 7)]),
        # (a bare Field / AnyField stores a mutable constant default object itself in every configuration: an untyped field makes
        #  no copy of anything -- caller-made aliasing, observed and not counted; C13 speaks of mutable defaults on typed fields)
    ]


# the ways a default factory can be given: anything callable() accepts is evaluated anew for each configuration
FACTORIES = ["callable", "lambda", "partial", "callobj", "method", "classmethod"]
DKINDS = ["constant", "absent"] + FACTORIES


def generate(rng, tier):
    cases = []
    names = [p[0] for p in field_pool()]
    for name in names:
        for dkind in DKINDS:
            for depth in (0, 1, 2):
                cases.append({"field": name, "dkind": dkind, "depth": depth, "assign": depth % 2 == 0, "kind": "matrix"})
    for _ in range(60 if tier == "quick" else 1200):
        cases.append({"field": rng.choice(names), "dkind": rng.choice(DKINDS), "depth": rng.randint(0, 3),
                      "assign": rng.random() < 0.5, "kind": "random"})
    return cases


def gcase(c):
    return ""


def _mk(c, counter, calls):
    import cincoconfig as cc
    pool = {p[0]: p for p in field_pool()}
    name, kw, seq = pool[c["field"]]
    kw = dict(kw)
    if c["dkind"] == "constant":
        kw["default"] = seq[0]
    elif c["dkind"] in FACTORIES:
        def dflt():
            import copy as _c
            v = _c.deepcopy(seq[next(counter) % len(seq)])       # a factory: a fresh object per call
            calls.append(_c.deepcopy(v))
            return v
        kw["default"] = _factory(c["dkind"], dflt)
    if name.endswith("NonNormal"):
        cls = name[:name.index("Field") + 5]
        f = getattr(cc, cls)(**kw)
    elif name == "DictFieldNested":
        f = cc.DictField(**kw)
    elif name == "ListFieldNested":
        f = cc.ListField(**kw)
    elif name == "DictFieldTypedNested":
        f = cc.DictField(cc.StringField(), cc.ListField(cc.IntField()), **kw)
    elif name == "AnyFieldNested":
        f = cc.AnyField(**kw)
    elif name == "ListFieldTyped":
        f = cc.ListField(cc.IntField(), **kw)
    elif name == "DictFieldTyped":
        f = cc.DictField(cc.StringField(), cc.IntField(), **kw)
    else:
        f = getattr(cc, name)(**kw)
    s = cc.Schema()
    cur = s
    for i in range(c["depth"]):
        cur = getattr(cur, "lvl%d" % i)       # Schema.__getattr__ creates the nested schema (the documented way)
    cur.f = f
    return s, seq


def _factory(kind, fn):
    import functools
    if kind == "callable":
        return fn
    if kind == "lambda":
        return lambda: fn()
    if kind == "partial":
        return functools.partial((lambda tag: fn()), "tag")

    class Maker:
        def __call__(self):
            return fn()

        def make(self):
            return fn()

        @classmethod
        def cmake(cls):
            return fn()
    if kind == "callobj":
        return Maker()
    if kind == "method":
        return Maker().make
    return Maker.cmake


def _plain(v):
    """comparable form of a stored value (challenge digests are compared by what they verify)"""
    from cincoconfig.fields import DigestValue
    if isinstance(v, DigestValue):
        return ("digest", len(v.salt), len(v.digest))
    if isinstance(v, list):
        return [_plain(x) for x in v]
    if isinstance(v, dict):
        return {k: _plain(x) for k, x in v.items()}
    return v


def _verifies(v, expected):
    from cincoconfig.fields import DigestValue
    if isinstance(v, DigestValue):
        try:
            v.challenge(expected)
            return True
        except ValueError:
            return False
    return _plain(v) == _plain(expected)


def impl(c):
    import tempfile
    import shutil
    from cincoconfig import is_value_defined, reset_value
    counter = itertools.count()
    calls = []           # every value the callable default returned, in order (a class may evaluate it more than once per build)
    s, seq = _mk(c, counter, calls)
    import copy as _copy
    pristine = _copy.deepcopy(seq)          # what the schema author declared, kept apart from anything the library may touch
    d = tempfile.mkdtemp(prefix="verif_dflt_")
    path = ".".join(["lvl%d" % i for i in range(c["depth"])] + ["f"])
    out = {}
    try:
        a = s(key_filename=d + "/k")
        n_a = len(calls)
        b = s(key_filename=d + "/k")
        n_b = len(calls)
        va, vb = a[path], b[path]
        out["a_defined"], out["b_defined"] = is_value_defined(a, path), is_value_defined(b, path)
        if c["dkind"] == "constant":
            out["a_ok"], out["b_ok"] = _verifies(va, seq[0]), _verifies(vb, seq[0])
        elif c["dkind"] in FACTORIES:
            # evaluated anew for each configuration: each one holds a value returned DURING ITS OWN construction
            out["a_ok"] = n_a > 0 and any(_verifies(va, x) for x in calls[:n_a])
            out["b_ok"] = n_b > n_a and any(_verifies(vb, x) for x in calls[n_a:n_b])
        else:
            out["a_ok"], out["b_ok"] = va is None, vb is None
        out["shared"] = (va is vb) and isinstance(va, (list, dict))
        if c["assign"]:
            a[path] = seq[3]
            out["assigned_defined"] = is_value_defined(a, path)
            out["assigned_ok"] = _verifies(a[path], seq[3]) or c["field"].endswith("NonNormal")      # (an assignment is normalised)
        n_r = len(calls)
        reset_value(a, path)
        out["reset_defined"] = is_value_defined(a, path)
        vr = a[path]
        if c["dkind"] == "constant":
            out["reset_ok"] = _verifies(vr, seq[0])
        elif c["dkind"] in FACTORIES:
            out["reset_ok"] = len(calls) > n_r and any(_verifies(vr, x) for x in calls[n_r:])
        else:
            out["reset_ok"] = vr is None
        out["b_untouched"] = b[path] is vb
        # nested containers of a default belong to ONE configuration: filling them in place in `a` must not show up in the
        # declared default, in configuration b, in a configuration built afterwards, or after a reset
        def innermost(v):
            found = []
            def walk(x):
                if isinstance(x, dict):
                    for y in x.values():
                        walk(y)
                    found.append(x)
                elif isinstance(x, list):
                    for y in x:
                        walk(y)
                    found.append(x)
            walk(v)
            return found
        if "Nested" in c["field"] and c["dkind"] != "absent":
            import copy as _cp
            b_before = _cp.deepcopy(_plain(b[path]))
            for inner in innermost(a[path])[:-1]:           # every container strictly inside the value
                try:
                    if isinstance(inner, list):
                        inner.append(424242)
                    else:
                        inner["polluted"] = 424242
                except Exception:  # noqa
                    pass
            out["nested_b_clean"] = _plain(b[path]) == b_before
            out["nested_decl_clean"] = seq == pristine
            c3 = s(key_filename=d + "/k")
            out["nested_fresh_clean"] = "424242" not in repr(_plain(c3[path]))
            reset_value(a, path)
            out["nested_reset_clean"] = "424242" not in repr(_plain(a[path]))
        if c["dkind"] != "absent":
            # loading / assigning a value EQUAL to the one the field already holds (its default) still makes it user-defined
            tree = b.to_tree()
            b.load_tree(tree)
            out["loadsame_defined"] = is_value_defined(b, path)
            reset_value(b, path)
            out["loadsame_reset"] = not is_value_defined(b, path)
            cur = b[path]
            if not isinstance(cur, (list, dict)) or c["field"] == "AnyField":
                b[path] = cur
                out["assignsame_defined"] = is_value_defined(b, path)
            elif "Nested" not in c["field"]:
                # a container read from the configuration, filled in place, and assigned back (what `cfg.f += [...]` does):
                # the assignment succeeds, so the field is user-defined
                try:
                    if isinstance(cur, list):
                        cur.append(cur[0] if cur else 1)
                    else:
                        cur["zz"] = next(iter(cur.values())) if cur else 1
                    b[path] = cur
                    out["assignback_defined"] = is_value_defined(b, path)
                except Exception as e:  # noqa
                    out["assignback_defined"] = "raised %s" % type(e).__name__
                reset_value(b, path)
                out["assignback_reset"] = not is_value_defined(b, path)
    except Exception as e:  # noqa
        out["exc"] = "%s: %s" % (type(e).__name__, e)
    finally:
        shutil.rmtree(d, ignore_errors=True)
    return out


def oracle(c, obs):
    bad = []
    what = "%s(default: %s) at depth %d" % (c["field"], c["dkind"], c["depth"])
    if "exc" in obs:
        return ["%s: %s" % (what, obs["exc"])]
    if obs["a_defined"] or obs["b_defined"]:
        bad.append("%s: a fresh configuration reports the field as user-defined" % what)
    if not obs["a_ok"]:
        bad.append("%s: a fresh configuration does not expose the declared default" % what)
    if not obs["b_ok"]:
        bad.append("%s: the second configuration does not expose the declared default (callable defaults are evaluated anew)" % what)
    if obs["shared"]:
        bad.append("%s: two configurations share one default container" % what)
    if c["assign"] and not (obs["assigned_defined"] and obs["assigned_ok"]):
        bad.append("%s: an accepted assignment is not reported as user-defined / does not read back" % what)
    if obs["reset_defined"] or not obs["reset_ok"]:
        bad.append("%s: reset does not restore the default value and the not-user-defined status" % what)
    if obs.get("loadsame_defined") is False:
        bad.append("%s: loading a value equal to the default does not make the field user-defined" % what)
    if obs.get("loadsame_reset") is False:
        bad.append("%s: reset after a load does not restore the not-user-defined status" % what)
    if obs.get("assignback_defined") is not None and obs.get("assignback_defined") is not True:
        bad.append("%s: a container filled in place and assigned back is not reported as user-defined (%s)" % (what, obs.get("assignback_defined")))
    if obs.get("assignback_reset") is False:
        bad.append("%s: reset after assigning the container back does not restore the not-user-defined status" % what)
    if obs.get("assignsame_defined") is False:
        bad.append("%s: assigning a value equal to the default does not make the field user-defined" % what)
    for k, txt in (("nested_b_clean", "another configuration"), ("nested_decl_clean", "the declared default"),
                   ("nested_fresh_clean", "a configuration built afterwards"), ("nested_reset_clean", "the value after a reset")):
        if obs.get(k) is False:
            bad.append("%s: filling a container nested inside the default of one configuration shows up in %s" % (what, txt))
    if not obs["b_untouched"]:
        bad.append("%s: reset of one configuration touched another" % what)
    return bad


def tags(c, obs):
    return {c["field"], "default:" + c["dkind"], "depth:%d" % c["depth"]}


def nontrivial(c, obs):
    return c["dkind"] != "absent"
