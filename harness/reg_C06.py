from registry import KERNEL, TIE, HARNESS
PROP = "C06"
SPEC = {
    "manifest": {"technique": 'machine-checked proof in Coq (every error branch of the configuration state machine returns the state it was given, lifted through arbitrary paths by induction) + model/implementation correspondence by vm_compute with a snapshot oracle',
                 "text": 'Theorem reject_unchanged (coq/theories/ConfigLemmas.v) for all schemas, states, paths and values: an attribute / dotted-path / constructor-keyword assignment (scalar, map to a sub-configuration, list of maps) or a single-element append / replacement on a list of configurations that does not return normally yields exactly the configuration it was given -- values at every depth, default marks, dynamic fields and identities of nested configurations. The model follows core.py statement by statement (a map is loaded into a FRESH sub-configuration which replaces the old one only on success), is tied to the code by running the same histories on real Schema/Config objects and comparing the full state after every step inside Coq; a direct snapshot oracle re-checks the property on the implementation for every rejected step.',
                 "note": 'Trusted: Coq kernel + vm_compute; the correspondence harness; leaf validators abstract in the theorem. A load that fails half way (earlier keys applied) is outside the property and shown reachable by Example uncovered_may_change. Malformed documents / missing includes: the parse and include steps precede any write (Tree.v process, C18) -- checked on the implementation by the C18 includes stream. No axioms.',
                 "design_ref": "DESIGN.md section 6 C06"},
    "streams": ['co06', 'includes', 'configfields'],
    # of the includes stream (C18) only the C06 clause: a load whose include cannot be resolved leaves the configuration unchanged
    "stream_filters": {"includes": r"changed the configuration"},
    "witnesses": [],
    "rule": 'fixed schema with every construct: each of 66 single operations, 10 constructor-keyword cases and (quick: one eighth of, thorough: all) 4356 ordered pairs; plus seeded random schemas (depth<=3, lists of configurations, dynamic schemas, flags, validators) x histories of up to 8 (quick) / 20 (thorough) operations; non-trivial = at least one operation reached its target; distinct = distinct case',
    "trusted_base": [KERNEL, "Print Assumptions: closed under the global context (no axioms)", TIE, HARNESS,
                      "modelled, not verified: leaf fields are opaque in Config.v (Section variables lvalidate / lto_python / lto_basic / ldefault); "
                      "the correspondence instantiates them with the concrete IntField / StringField / BoolField / FeatureFlagField / AnyField model "
                      "of ConfigInst.v; schema validators come from a fixed vocabulary (a string field must differ from a given text)",
                      "not in the operation alphabet: assigning Config objects (only plain data), aliasing one object in two places, environment bindings (C14)"],
    "assumptions": ['leaf field validators are pure functions of the value (true of the built-in fields modelled)', 'object identity is observed through id() with all objects kept alive'],
}
