from registry import KERNEL, TIE, HARNESS
PROP = "C01"
SPEC = {
    "manifest": {"technique": 'machine-checked proof in Coq (well-formedness invariant of the configuration state machine, by induction over nested values and schemas, lifted over arbitrary operation histories with a fold) + model/implementation correspondence by vm_compute with an independent constraint oracle',
                 "text": "Theorems in coq/theories/ConfigWF.v for ALL schemas (distinct keys per level), all states, all addressed paths, all argument values of every shape and all finite histories: a freshly built configuration is well-formed when declared defaults are valid (build_cfg_wf); every operation -- assignment by attribute / dotted path / constructor keyword (scalar, map, list of maps), load_tree, reset, append / item assignment on lists of configurations, validation -- accepted or rejected, preserves well-formedness at every depth including list items (step_wf), hence every reachable state is well-formed (run_wf, reachable_wf); reading a leaf right after an accepted assignment yields the field's validated (normalised) value (set_get) and the assignment changes no other slot, mark or identity (store_spec); a rejected one changes nothing (set_value_err). The leaf hypothesis 'an accepted value meets the declared constraints' is discharged for the concrete IntField/StringField/BoolField model (inst_validate_sound, declarative inst_meets) and is C05's theorem for the other classes; in-place mutation of typed list/dict values is C17's all_valid invariant; command-line overrides assign through the same validated route (C16_override_applies). Tied to the code by comparing the full state after every step of random histories on real objects and re-checking every held value against an independent re-statement of the declared constraints.",
                 "note": "Trusted: Coq kernel + vm_compute; harness. Open finding F29 (a Config object of a foreign schema is accepted for a sub-configuration slot; assigning Config objects is outside the model's operation alphabet, confirmed by a direct probe on every run). No axioms.",
                 "design_ref": "DESIGN.md section 6 C01"},
    "streams": ["co01", "proxyops", "configfields"],
    # of the typed list/dict stream only the clauses that are C01's: a held or returned item that is not a validated one,
    # an unacceptable item accepted, an inserting entry point without override (equivalence with the built-ins is C17's)
    "stream_filters": {"proxyops": r"not a validated|unvalidated|unacceptable .* was accepted|no longer a typed|puts caller-supplied items"},
    "witnesses": ['F6', 'F11', 'F12', 'F38', 'F49'],
    "rule": 'as C06, with assignment-heavy histories and values at every bound -1/0/+1, normalisable strings, wrong types',
    "trusted_base": [KERNEL, "Print Assumptions: closed under the global context (no axioms)", TIE, HARNESS,
                      "modelled, not verified: leaf fields are opaque in Config.v (Section variables lvalidate / lto_python / lto_basic / ldefault); "
                      "the correspondence instantiates them with the concrete IntField / StringField / BoolField / FeatureFlagField / AnyField model "
                      "of ConfigInst.v; schema validators come from a fixed vocabulary (a string field must differ from a given text)",
                      "not in the operation alphabet: assigning Config objects (only plain data), aliasing one object in two places, environment bindings (C14)"],
    "assumptions": ['schema keys are distinct per level (Python dicts)', 'declared defaults are valid (premise of the property)'],
}
