"""
stream `fields` (C05): Field.validate / to_basic / to_python of every built-in field class on a real field
attached to a real Schema/Config, compared with Fields.v (`run_fields_um`).

case = {"f": field descriptor, "op": 0|1, "x": value}
  op 0: v = validate(x); validate(v); b = to_basic(v); p = to_python(b); validate(p)
  op 1: p = to_python(x) (x is on-disk data); validate(p)
observation = tuple of outcomes, each "err" or ("ok", value-with-exact-type), cut after the first failing stage
of a chain.  Error classes and messages are not compared (C15's business).

The direct oracle is independent of the model: determinism (two fresh fields), idempotence, round trip, and a
small re-statement of the declared constraints (numeric, string, bool, IPv4 classes) in both directions.
"""
import math
import re

from common import gal, g_str, g_z, g_n, g_bool, g_opt, g_list, g_float, Proxy, Other, canon

NAME = "fields"
IMPORTS = "From Cinco Require Import Base Str Num Net Codec Fields."
RUN = "run_fields_um"
CASE_TYPE = "(field * list (str * str * bool) * N * pyval * option pyval)"

LOG_LEVELS = ["debug", "info", "warning", "error", "critical"]
APP_MODES = ["development", "production"]
STRING_KINDS = ("str", "loglevel", "appmode", "ipv4", "net", "host")
OPAQUE = {"filename": 1, "url": 2}


# ---------------------------------------------------------------------------------------------
# field descriptors
# ---------------------------------------------------------------------------------------------
def fstr(k="str", req=False, mn=None, mx=None, regex=None, choices=None, case=None, strip=None, **kw):
    d = {"k": k, "req": req, "min": mn, "max": mx, "regex": regex, "choices": choices, "case": case, "strip": strip}
    d.update(kw)
    return d


def fnum(k, req=False, mn=None, mx=None):
    return {"k": k, "req": req, "min": mn, "max": mx}


def eff_sopts(fd):
    """(min, max, regex, choices, case, strip) the constructor ends up with -- re-stated from the class docs"""
    k = fd["k"]
    case, strip, choices = fd.get("case"), fd.get("strip"), fd.get("choices")
    if k in ("loglevel", "appmode"):
        case = case or "lower"
        strip = True if strip is None else strip
        choices = (fd.get("levels") or LOG_LEVELS) if k == "loglevel" else (fd.get("modes") or APP_MODES)
    return fd.get("min"), fd.get("max"), fd.get("regex") or None, choices or [], case, (strip or None)


def build(fd, reg):
    """the real field; typed list/dict fields are appended to reg in preorder (index = fid)"""
    import cincoconfig as C
    k, req = fd["k"], fd.get("req", False)
    if k == "any":
        return C.AnyField(required=req)
    if k in STRING_KINDS:
        kw = {"required": req}
        for a, b in (("min", "min_len"), ("max", "max_len"), ("regex", "regex"), ("choices", "choices"),
                     ("case", "transform_case"), ("strip", "transform_strip")):
            if fd.get(a) is not None:
                kw[b] = fd[a]
        if k == "str":
            return C.StringField(**kw)
        if k == "loglevel":
            kw.pop("choices", None)
            return C.LogLevelField(levels=fd.get("levels"), **kw)
        if k == "appmode":
            kw.pop("choices", None)
            return C.ApplicationModeField(modes=fd.get("modes"), **kw)
        if k == "ipv4":
            return C.IPv4AddressField(**kw)
        if k == "net":
            return C.IPv4NetworkField(min_prefix_len=fd.get("minp"), max_prefix_len=fd.get("maxp"), **kw)
        return C.HostnameField(allow_ipv4=fd.get("allow", True), resolve=False, **kw)
    if k in ("int", "float"):
        return (C.IntField if k == "int" else C.FloatField)(required=req, min=fd.get("min"), max=fd.get("max"))
    if k == "port":
        kw = {}
        if "min" in fd:
            kw["min"] = fd["min"]
        if "max" in fd:
            kw["max"] = fd["max"]
        return C.PortField(required=req, **kw)
    if k == "bool":
        return (C.FeatureFlagField if fd.get("flag") else C.BoolField)(required=req)
    if k == "bytes":
        return C.BytesField(encoding=fd["enc"], required=req)
    if k == "list":
        if not typed_list(fd):
            it = fd.get("item")
            return C.ListField(C.AnyField(required=it.get("req", False)) if it else (C.AnyField() if fd.get("anyitem") else None), required=req)
        holder = [None]
        reg.append(holder)
        item = build(fd["item"], reg)
        holder[0] = C.ListField(item, required=req)
        return holder[0]
    if k == "dict":
        if fd.get("kf") is None and fd.get("vf") is None:
            return C.DictField(required=req)
        holder = [None]
        reg.append(holder)
        kf = build(fd["kf"], reg) if fd.get("kf") is not None else None
        vf = build(fd["vf"], reg) if fd.get("vf") is not None else None
        holder[0] = C.DictField(kf, vf, required=req)
        return holder[0]
    if k == "filename":
        return C.FilenameField(required=req)
    if k == "url":
        return C.UrlField(required=req)
    raise ValueError(k)


def g_sopts(fd):
    mn, mx, rx, ch, case, strip = eff_sopts(fd)
    gs = "SNone" if not strip else ("SWs" if strip is True else "(SChars %s)" % g_str(strip))
    gc = {None: "CNone", "lower": "CLower", "upper": "CUpper"}[case]
    return "(mk_sopts %s %s %s %s %s %s)" % (g_opt(mn, g_z), g_opt(mx, g_z), g_opt(rx, g_str), g_list(ch, g_str), gc, gs)


def gfield(fd, ctr):
    k, req = fd["k"], g_bool(fd.get("req", False))
    if k == "any":
        return "(FAny %s)" % req
    if k in ("str", "loglevel", "appmode"):
        return "(FStr %s %s)" % (req, g_sopts(fd))
    if k == "ipv4":
        return "(FIPv4 %s %s)" % (req, g_sopts(fd))
    if k == "net":
        return "(FNet %s %s %s %s)" % (req, g_sopts(fd), g_opt(fd.get("minp"), g_z), g_opt(fd.get("maxp"), g_z))
    if k == "host":
        return "(FHost %s %s %s false)" % (req, g_sopts(fd), g_bool(fd.get("allow", True)))
    if k == "int":
        return "(FInt %s %s %s)" % (req, g_opt(fd.get("min"), g_z), g_opt(fd.get("max"), g_z))
    if k == "port":   # PortField: kwargs.setdefault("min", 1) / ("max", 65535)
        return "(FInt %s %s %s)" % (req, g_opt(fd.get("min", 1), g_z), g_opt(fd.get("max", 65535), g_z))
    if k == "float":
        return "(FFloat %s %s %s)" % (req, g_opt(fd.get("min"), g_float), g_opt(fd.get("max"), g_float))
    if k == "bool":
        return "(FBool %s)" % req
    if k == "bytes":
        return "(FBytes %s %s)" % (req, {"base64": "B64", "hex": "BHex"}[fd["enc"]])
    if k == "list":
        if not typed_list(fd):
            return "(FListU %s)" % req
        fid = ctr[0]
        ctr[0] += 1
        return "(FListT %s %s %s)" % (g_n(fid), req, gfield(fd["item"], ctr))
    if k == "dict":
        if fd.get("kf") is None and fd.get("vf") is None:
            return "(FDictU %s)" % req
        fid = ctr[0]
        ctr[0] += 1
        gk = gfield(fd["kf"], ctr) if fd.get("kf") is not None else "(FAny false)"
        gv = gfield(fd["vf"], ctr) if fd.get("vf") is not None else "(FAny false)"
        return "(FDictT %s %s %s %s)" % (g_n(fid), req, gk, gv)
    return "(FOpaque %s %s)" % (req, g_n(OPAQUE[k]))


def typed_list(fd):
    """ListField(None) and ListField(AnyField()) store plain lists"""
    return fd["k"] == "list" and fd.get("item") is not None and fd["item"]["k"] != "any"


def typed_dict(fd):
    return fd["k"] == "dict" and (fd.get("kf") is not None or fd.get("vf") is not None)


def subfields(fd):
    yield fd
    if fd["k"] == "list" and not typed_list(fd):
        return
    for a in ("item", "kf", "vf"):
        if fd.get(a) is not None:
            yield from subfields(fd[a])


def strings_in(x):
    if isinstance(x, str):
        yield x
    elif isinstance(x, (list, tuple)):
        for i in x:
            yield from strings_in(i)
    elif isinstance(x, dict):
        for k, v in x.items():
            yield from strings_in(k)
            yield from strings_in(v)


# ---------------------------------------------------------------------------------------------
# Python facts the model relies on, re-stated (NOT via cincoconfig)
# ---------------------------------------------------------------------------------------------
SPACE = set(list(range(9, 14)) + list(range(28, 33)) + [0x85, 0xA0, 0x1680] + list(range(0x2000, 0x200B))
            + [0x2028, 0x2029, 0x202F, 0x205F, 0x3000])
INT_RE = re.compile(r"[+-]?[0-9]+(_[0-9]+)*\Z")
B64_RE = re.compile(r"(?:[A-Za-z0-9+/]{4})*(?:[A-Za-z0-9+/]{2}==|[A-Za-z0-9+/]{3}=)?\Z")
B64_PLAIN = re.compile(r"[A-Za-z0-9+/]*\Z")


def case_known(s):
    return all(ord(c) < 128 or ord(c) in SPACE for c in s)


def num_strip(s):
    sp = {chr(c) for c in SPACE if not 28 <= c <= 31}
    i, j = 0, len(s)
    while i < j and s[i] in sp:
        i += 1
    while j > i and s[j - 1] in sp:
        j -= 1
    return s[i:j]


def may_unmodelled(c):
    """coarse over-approximation of the inputs outside the model (Fields.v returns Unmodelled there)"""
    strs = list(strings_in(c["x"]))
    for fd in subfields(c["f"]):
        k = fd["k"]
        if k in OPAQUE:
            return True
        if k in STRING_KINDS and eff_sopts(fd)[4] and not all(case_known(s) for s in strs):
            return True
        if k in ("int", "port", "float", "bool") and not all(case_known(s) and len(s) <= 4000 for s in strs):
            return True
        if k == "float":
            for s in strs:
                t = num_strip(s)
                if any(ch.isdigit() for ch in s) and not INT_RE.match(t):
                    return True
        if k == "net" and any("/" in s and "." in s.split("/", 1)[1] for s in strs):
            return True
        if k == "host" and not all(s.isascii() for s in strs):
            return True
        if k == "bytes" and fd["enc"] == "base64" and c["op"] == 1:
            for s in strs:
                if s.isascii() and not B64_RE.match(s) and not B64_PLAIN.match(s):
                    return True
        if k == "dict" and (fd.get("kf") is not None or fd.get("vf") is not None):
            if fd.get("kf") is not None and fd["kf"]["k"] in ("float", "list", "dict"):
                return True
            if not _keys_ok(c["x"]):
                return True
        if c["op"] == 1 and (typed_list(fd) or typed_dict(fd)):
            if not _shape_ok(fd, c["x"]):
                return True
    return False


def _keys_ok(x):
    if isinstance(x, dict):
        return all((k is None or type(k) in (bool, int, str, bytes)) and _keys_ok(v) for k, v in x.items())
    if isinstance(x, (list, tuple)):
        return all(_keys_ok(i) for i in x)
    return True


def _shape_ok(fd, x):
    """op 1 on a typed container: the on-disk value has the container shape all the way down"""
    if x is None:
        return True
    if typed_list(fd):
        return isinstance(x, (list, tuple)) and all(_shape_ok(fd["item"], i) for i in x)
    if fd["k"] == "dict" and (fd.get("kf") is not None or fd.get("vf") is not None):
        return isinstance(x, dict) and all(fd.get("vf") is None or _shape_ok(fd["vf"], v) for v in x.values())
    return True


def regex_table(c):
    """re.match answers for every (pattern of the field, string the model may ask about)"""
    pats = sorted({eff_sopts(fd)[2] for fd in subfields(c["f"]) if fd["k"] in STRING_KINDS and eff_sopts(fd)[2]})
    if not pats:
        return []
    strips = [None, True] + sorted({eff_sopts(fd)[5] for fd in subfields(c["f"])
                                    if fd["k"] in STRING_KINDS and isinstance(eff_sopts(fd)[5], str)})
    cur = set(strings_in(c["x"]))
    seen = set(cur)
    for _ in range(4):
        nxt = set()
        for s in cur:
            r = own_net(s)
            if isinstance(r, tuple):   # IPv4NetworkField re-checks the canonical text
                a, p = r
                nxt.add("%d.%d.%d.%d/%d" % (a >> 24, (a >> 16) & 255, (a >> 8) & 255, a & 255, p))
            for st in strips:
                u = s if st is None else (s.strip() if st is True else s.strip(st))
                for t in (u, u.lower(), u.upper()):
                    nxt.add(t)
        cur = nxt - seen
        seen |= nxt
    out = []
    for p in pats:
        rx = re.compile(p)
        for s in sorted(seen):
            out.append((p, s, bool(rx.match(s))))
    return out


# ---------------------------------------------------------------------------------------------
# running the implementation
# ---------------------------------------------------------------------------------------------
class UserSeq:
    """a sequence class of the user's own (iterable, sized, indexable) that is neither a list nor a tuple"""
    def __init__(self, items):
        self._items = list(items)

    def __iter__(self):
        return iter(self._items)

    def __len__(self):
        return len(self._items)

    def __getitem__(self, i):
        return self._items[i]


# collection-like values that are NOT list / tuple / dict: Other(tag) in a case stands for a fresh one of these.
# Measured on the unchanged tree: every list / dict field class rejects all of them (the type gates are
# isinstance(value, (list, tuple)) and isinstance(value, dict)); AnyField and untyped containers hold them as they are.
def _gen():
    yield 1
    yield 2


EXOTIC = {
    1: ("set", lambda: {1, 2}), 2: ("frozenset", lambda: frozenset({1, 2})), 3: ("dict_keys", lambda: {"a": 1, "b": 2}.keys()),
    4: ("dict_values", lambda: {"a": 1, "b": 2}.values()), 5: ("dict_items", lambda: {"a": 1}.items()), 6: ("range", lambda: range(3)),
    7: ("generator", _gen), 8: ("list_iterator", lambda: iter([1, 2])), 9: ("bytearray", lambda: bytearray(b"ab")),
    10: ("deque", lambda: __import__("collections").deque([1, 2])), 11: ("array", lambda: __import__("array").array("i", [1, 2])),
    12: ("UserSeq", lambda: UserSeq([1, 2])), 13: ("UserDict", lambda: __import__("collections").UserDict({"a": 1})),
    14: ("mappingproxy", lambda: __import__("types").MappingProxyType({"a": 1})),
    15: ("ChainMap", lambda: __import__("collections").ChainMap({"a": 1})), 16: ("set", lambda: set()),
}
EXOTIC_ALL = [Other(t) for t in sorted(EXOTIC)]
# the ones copy.deepcopy can carry (configuration-level streams hand values over through a deep copy)
EXOTIC_COPYABLE = [Other(t) for t in (1, 2, 6, 9, 10, 11, 12, 13, 15, 16)]


def exotic_tag(v):
    name = type(v).__name__
    if name == "set" and len(v) == 0:
        return 16
    for t, (n, _) in EXOTIC.items():
        if n == name:
            return t
    return 0


def mk(x):
    """a fresh Python object for the case's plain data"""
    if isinstance(x, Other):
        return EXOTIC[x.tag][1]() if x.tag in EXOTIC else object()
    if isinstance(x, list):
        return [mk(i) for i in x]
    if isinstance(x, tuple):
        return tuple(mk(i) for i in x)
    if isinstance(x, dict):
        return {mk(k): mk(v) for k, v in x.items()}
    return x


def _fid(reg, fobj):
    for i, h in enumerate(reg):
        if h[0] is fobj:
            return i
    return 99


def conv(v, reg):
    from cincoconfig.fields import ListProxy, DictProxy
    t = type(v)
    if v is None or t in (bool, int, float, str, bytes):
        return v
    if t is ListProxy:
        return Proxy(_fid(reg, v.list_field), [conv(i, reg) for i in list.__iter__(v)])
    if t is list:
        return [conv(i, reg) for i in v]
    if t is tuple:
        return tuple(conv(i, reg) for i in v)
    if t is DictProxy:
        return Proxy(_fid(reg, v.dict_field), {conv(k, reg): conv(x, reg) for k, x in dict.items(v)})
    if t is dict:
        return {conv(k, reg): conv(x, reg) for k, x in v.items()}
    return Other(exotic_tag(v))


def _run(c):
    from cincoconfig import Schema
    reg = []
    field = build(c["f"], reg)
    s = Schema()
    s.f = field
    cfg = s()
    raw = {}

    def step(name, fn):
        try:
            raw[name] = fn()
        except Exception:  # noqa
            return "err"
        try:
            return ("ok", conv(raw[name], reg))
        except Exception:  # noqa  (unhashable converted key and the like)
            return ("ok", Other(0))

    x = mk(c["x"])
    if c["op"] == 0:
        out = [step("v", lambda: field.validate(cfg, x))]
        if out[0] != "err":
            out.append(step("v2", lambda: field.validate(cfg, raw["v"])))
            out.append(step("b", lambda: field.to_basic(cfg, raw["v"])))
            if out[-1] != "err":
                out.append(step("p", lambda: field.to_python(cfg, raw["b"])))
                if out[-1] != "err":
                    out.append(step("v3", lambda: field.validate(cfg, raw["p"])))
    else:
        out = [step("p", lambda: field.to_python(cfg, x))]
        if out[0] != "err":
            out.append(step("v3", lambda: field.validate(cfg, raw["p"])))
    return tuple(out)


def impl(c):
    o1 = _run(c)
    o2 = _run(c)
    c["_det"] = canon(o1) == canon(o2)
    c["_obs"] = o1
    return o1


def gcase(c):
    um = may_unmodelled(c)
    tab = g_list(regex_table(c), lambda e: "(%s,%s,%s)" % (g_str(e[0]), g_str(e[1]), g_bool(e[2])))
    return "(%s, %s, %s, %s, %s)" % (gfield(c["f"], [0]), tab, g_n(c["op"]), gal(c["x"]),
                                     ("(Some %s)" % gal(c["_obs"])) if um else "None")


# ---------------------------------------------------------------------------------------------
# direct oracle
# ---------------------------------------------------------------------------------------------
def same(a, b):
    return canon(a) == canon(b)


def rt_equal(fd, v, w):
    """equality after the on-disk round trip: exact, except that an unset (None) TYPED list/dict may come back
    empty (property C02: "the only normalisations are that an unset typed list or dict may come back empty")"""
    if typed_list(fd) or typed_dict(fd):
        if v is None:
            return w is None or (isinstance(w, Proxy) and len(w.items) == 0)
        if not (isinstance(v, Proxy) and isinstance(w, Proxy) and v.fid == w.fid and type(v.items) is type(w.items)
                and len(v.items) == len(w.items)):
            return False
        if typed_list(fd):
            return all(rt_equal(fd["item"], a, b) for a, b in zip(v.items, w.items))
        anyf = {"k": "any"}
        return all(rt_equal(fd.get("kf") or anyf, ka, kb) and rt_equal(fd.get("vf") or anyf, va, vb)
                   for (ka, va), (kb, vb) in zip(v.items.items(), w.items.items()))
    return same(v, w)


def own_ipv4(s):
    parts = s.split(".")
    if len(parts) != 4:
        return None
    n = 0
    for p in parts:
        if not (1 <= len(p) <= 3) or any(ch not in "0123456789" for ch in p) or (len(p) > 1 and p[0] == "0"):
            return None
        if int(p) > 255:
            return None
        n = n * 256 + int(p)
    return n


def own_net(s):
    """(addr, prefix) | None = invalid | "?" = netmask form (no opinion)"""
    parts = s.split("/")
    if len(parts) > 2:
        return None
    a = own_ipv4(parts[0])
    if a is None:
        return None
    if len(parts) == 1:
        return (a, 32)
    m = parts[1]
    if m and all(ch in "0123456789" for ch in m):
        p = int(m)
        if p > 32 or a % (1 << (32 - p)):
            return None
        return (a, p)
    return "?" if "." in m else None


def str_constraints(fd, v):
    """the declared constraints of a string-like field on an accepted value"""
    mn, mx, rx, ch, case, strip = eff_sopts(fd)
    bad = []
    if type(v) is not str:
        return ["accepted value is not a str"]
    if mn is not None and len(v) < mn:
        bad.append("shorter than min_len")
    if mx is not None and len(v) > mx:
        bad.append("longer than max_len")
    if rx and not re.compile(rx).match(v):
        bad.append("does not match the pattern")
    if ch and v not in ch:
        bad.append("not one of the choices")
    return bad


def declared(fd, v):
    """violations of the field's declared constraints by an ACCEPTED value v (converted form)"""
    k = fd["k"]
    if v is None:
        return ["None accepted by a required field"] if fd.get("req") else []
    if k in ("ipv4", "net", "host"):
        # the stored text itself has to meet the inherited string constraints and be in the declared case
        extra = str_constraints(fd, v)
        case = eff_sopts(fd)[4]
        if type(v) is str and case and v != (v.lower() if case == "lower" else v.upper()):
            extra.append("not in the declared %s case" % case)
        return extra + _declared_class(fd, v)
    return _declared_class(fd, v)


def _declared_class(fd, v):
    k = fd["k"]
    if k in ("int", "port"):
        mn = fd.get("min", 1 if k == "port" else None)
        mx = fd.get("max", 65535 if k == "port" else None)
        if type(v) is not int:
            return ["accepted value is not an int"]
        return [m for m, bad in (("below min", mn is not None and not v >= mn), ("above max", mx is not None and not v <= mx)) if bad]
    if k == "float":
        if type(v) is not float:
            return ["accepted value is not a float"]
        mn, mx = fd.get("min"), fd.get("max")
        return [m for m, bad in (("below min", mn is not None and not v >= mn), ("above max", mx is not None and not v <= mx)) if bad]
    if k == "bool":
        return [] if type(v) is bool else ["accepted value is not a bool"]
    if k == "bytes":
        return [] if type(v) is bytes else ["accepted value is not bytes"]
    if k in ("str", "loglevel", "appmode"):
        bad = str_constraints(fd, v)
        case = eff_sopts(fd)[4]
        if type(v) is str and case and v != (v.lower() if case == "lower" else v.upper()):
            bad.append("not in the declared %s case" % case)
        if fd.get("req") and v == "":
            bad.append("empty string accepted by a required field")
        return bad
    if k == "ipv4":
        if type(v) is not str or own_ipv4(v) is None:
            return ["accepted value is not a dotted quad"]
        return []
    if k == "net":
        r = own_net(v) if type(v) is str else None
        if not isinstance(r, tuple) or "/" not in v:
            return ["accepted value is not canonical CIDR"]
        bad = []
        if fd.get("minp") is not None and r[1] < fd["minp"]:
            bad.append("prefix below min_prefix_len")
        if fd.get("maxp") is not None and r[1] > fd["maxp"]:
            bad.append("prefix above max_prefix_len")
        return bad
    if k == "host":
        if type(v) is not str:
            return ["accepted value is not a str"]
        if own_ipv4(v) is not None:
            return [] if fd.get("allow", True) else ["IPv4 address accepted with allow_ipv4=False"]
        if not (re.match(r"[a-zA-Z0-9][a-zA-Z0-9.\-]+\Z", v) or re.match(r"[\w!@#$%^()\-'{}.~]{1,15}\Z", v)):
            return ["accepted value is not a host name"]
        return []
    if k == "list":
        if not typed_list(fd):
            return [] if type(v) is list else ["untyped list field stores a %s" % (EXOTIC.get(v.tag, ("object",))[0] if isinstance(v, Other) else type(v).__name__)]
        if not (isinstance(v, Proxy) and isinstance(v.items, list)):
            return ["typed list field stores a %s" % type(v).__name__]
        bad = []
        if fd.get("req") and not v.items:
            bad.append("empty list accepted by a required field")
        for i in v.items:
            bad += ["item: " + m for m in declared(fd["item"], i)]
        return bad
    if k == "dict":
        if fd.get("kf") is None and fd.get("vf") is None:
            return [] if type(v) is dict else ["untyped dict field stores a %s" % type(v).__name__]
        if not (isinstance(v, Proxy) and isinstance(v.items, dict)):
            return ["typed dict field stores a %s" % type(v).__name__]
        bad = []
        if fd.get("req") and not v.items:
            bad.append("empty dict accepted by a required field")
        for kk, vv in v.items.items():
            if fd.get("kf") is not None:
                bad += ["key: " + m for m in declared(fd["kf"], kk)]
            if fd.get("vf") is not None:
                bad += ["value: " + m for m in declared(fd["vf"], vv)]
        return bad
    return []


def expect_accept(fd, x):
    """True / False where the declared constraints decide the outcome for x as it stands; None = no opinion"""
    k = fd["k"]
    if x is None:
        return not fd.get("req")
    if k in ("int", "port") and type(x) in (int, bool):
        if type(x) is bool:
            return False
        return not declared(fd, x)
    if k == "float" and type(x) in (float, bool):
        if type(x) is bool:
            return False
        return not declared(fd, x)
    if k == "bool":
        if type(x) in (bool, int, float):
            return True
        if type(x) is str and x.isascii():
            return x.lower() in ("t", "true", "1", "on", "yes", "y", "f", "false", "0", "off", "no", "n")
        if type(x) in (bytes, list, tuple, dict):
            return False
    if k in STRING_KINDS and type(x) is not str:
        return False
    if k in STRING_KINDS and type(x) is str:
        mn, mx, rx, ch, case, strip = eff_sopts(fd)
        if case or strip:
            return None
        if str_constraints(fd, x) or (fd.get("req") and x == ""):
            return False
        if k in ("str", "loglevel", "appmode"):
            return True
        if k == "ipv4":
            return own_ipv4(x) is not None
        if k == "host":
            if own_ipv4(x) is not None:
                return bool(fd.get("allow", True))
            if not x.isascii():
                return None
            return bool(re.match(r"[a-zA-Z0-9][a-zA-Z0-9.\-]+\Z", x) or re.match(r"[A-Za-z0-9_!@#$%^()\-'{}.~]{1,15}\Z", x))
        if k == "net":
            r = own_net(x)
            if r == "?":
                return None
            if r is None:
                return False
            canon_txt = "%d.%d.%d.%d/%d" % (r[0] >> 24, (r[0] >> 16) & 255, (r[0] >> 8) & 255, r[0] & 255, r[1])
            if str_constraints(fd, canon_txt):   # F49: the stored canonical text has to meet them too
                return False
            return not ((fd.get("minp") is not None and r[1] < fd["minp"]) or (fd.get("maxp") is not None and r[1] > fd["maxp"]))
    if k == "bytes":
        return True if type(x) is bytes else (None if type(x) is str else False)
    if k == "list" and not isinstance(x, (list, tuple)):
        return False
    if k == "dict" and not isinstance(x, dict):
        return False
    if k in ("list", "dict") and fd.get("req") and len(x) == 0:
        return False
    return None


def has_F13(fd):
    return any(f["k"] in STRING_KINDS and f["k"] != "net" and isinstance(eff_sopts(f)[5], str) and eff_sopts(f)[4] for f in subfields(fd))


def oracle(c, obs):
    msgs = []
    if not c.get("_det", True):
        msgs.append("determinism: two fresh fields gave different results")
    if c["f"]["k"] in OPAQUE:
        return msgs
    if c["op"] == 0:
        if obs[0] != "err":
            v = obs[0][1]
            if obs[1] == "err":
                msgs.append("idem: an accepted result is rejected when validated again")
            elif not same(obs[1][1], v):
                msgs.append("idem: validating an accepted result again gives a different value")
            if obs[2] == "err":
                msgs.append("roundtrip: to_basic fails on an accepted value")
            elif obs[3] == "err":
                msgs.append("roundtrip: to_python(to_basic(v)) fails")
            elif obs[4] == "err" or not rt_equal(c["f"], v, obs[4][1]):
                msgs.append("roundtrip: to_python(to_basic(v)) does not validate back to v")
            msgs += ["constraint: " + m for m in declared(c["f"], v)]
        exp = expect_accept(c["f"], c["x"])
        if exp is True and obs[0] == "err":
            msgs.append("exact: a value that meets the declared constraints is rejected")
        if exp is False and obs[0] != "err":
            msgs.append("exact: a value that violates the declared constraints is accepted")
    else:
        if obs[0] != "err" and len(obs) > 1 and obs[1] != "err":
            msgs += ["constraint: " + m for m in declared(c["f"], obs[1][1])]
    return msgs


def classify(c, msg):
    f = c["f"]
    if msg.startswith("idem:") and f["k"] in STRING_KINDS and f["k"] != "net" and has_F13({k: v for k, v in f.items() if k not in ("item", "kf", "vf")}):
        return "F13"
    if msg.startswith("roundtrip: to_python(to_basic(v)) does not validate") and has_F13(f):
        return "F13"
    if msg.startswith("roundtrip: to_python(to_basic(v)) fails") and has_F13(f):
        return "F13"
    return None


def tags(c, obs):
    t = {"class:" + c["f"]["k"], "op%d" % c["op"]}
    t.add("accepted" if obs[0] != "err" else "rejected")
    x = c["x"]
    t.add("xtype:" + ("other" if isinstance(x, Other) else type(x).__name__))
    if may_unmodelled(c):
        t.add("may-unmodelled")
    if has_F13(c["f"]):
        t.add("F13-region")
    if obs[0] != "err" and c["op"] == 0 and not same(obs[0][1], x):
        t.add("normalised")
    if any(fd.get("req") for fd in subfields(c["f"])):
        t.add("required")
    if len(list(subfields(c["f"]))) > 1:
        t.add("nested")
    return t


def nontrivial(c, obs):
    return c["x"] is not None and not may_unmodelled(c)


# ---------------------------------------------------------------------------------------------
# generation: deterministic matrix, then random
# ---------------------------------------------------------------------------------------------
NAN, INF = float("nan"), float("inf")
WRONG = [None, True, False, 0, 1, -1, 2.5, NAN, "", "x", b"x", [], [1], (), (1,), {}, {"a": 1}, Other(0), Other(1), Other(6), Other(10), Other(13)]


def near(b):
    return [b - 1, b, b + 1]


def matrix():
    cs = []

    def add(f, x, op=0):
        cs.append({"f": f, "op": op, "x": x})

    # ---- IntField / PortField
    int_opts = [(None, None), (0, None), (None, 0), (-5, 5), (5, 5), (6, 5), (1, 65535)]
    int_vals = [None, True, False, 0, -0.0, 0.0, NAN, INF, -INF, 1e300, -1e300, 2.5, -2.5, 0.999, -0.999, 5.999, -5.999,
                "", " ", "abc", "1.5", "1e2", "\x1c1", "1\x1f", "\x0b1", " 1\xa0", "1_0", "1__0", "_1", "1_", "0x10",
                "+ 1", "--1", "+-1", "-", "+", "00", "-00", "007", "nan", b"1", [1], (1,), {}, {"a": 1}, Other(0),
                2 ** 64, -2 ** 64, 10 ** 30, "1" + "0" * 30, "١"]
    for mn, mx in int_opts:
        for req in (False, True):
            f = fnum("int", req, mn, mx)
            vals = list(int_vals)
            for b in (mn, mx):
                if b is not None:
                    for n in near(b):
                        vals += [n, float(n), n + 0.5, n - 0.5, str(n), " %d " % n, "+%d" % n if n >= 0 else "-%d" % -n,
                                 "\t%d\n" % n, "%d\x1c" % n]
            for x in vals:
                add(f, x)
    for fd in ({"k": "port", "req": False}, {"k": "port", "req": True}, {"k": "port", "req": False, "min": None},
               {"k": "port", "req": False, "max": None}, {"k": "port", "req": False, "min": 1024, "max": 2048},
               {"k": "port", "req": False, "min": 0}):
        for x in [None, True, 0, 1, 2, 65534, 65535, 65536, -1, 1023, 1024, 1025, 2047, 2048, 2049, "0", "1", "65535", "65536",
                  " 80 ", "80.0", 80.0, 80.9, 0.9, 65535.5, 65536.0, NAN, INF, "http", b"80", [80]]:
            add(fd, x)

    # ---- FloatField
    fl_opts = [(None, None), (0.0, None), (None, 0.0), (-1.5, 2.5), (2.5, 2.5), (3.0, 2.5), (-INF, INF), (NAN, None), (None, NAN),
               (INF, None), (None, -INF), (-0.0, 0.0)]
    fl_vals = [None, True, False, 0, 1, -1, 3, 2 ** 53 + 1, -(2 ** 53 + 1), 2 ** 1024, -2 ** 1024, 2 ** 1024 - 2 ** 970,
               2 ** 1024 - 2 ** 970 - 1, 10 ** 400, 0.0, -0.0, NAN, INF, -INF, 5e-324, -5e-324, 1.7976931348623157e308,
               "", " ", "abc", "nan", "NaN", "-nan", "+nan", " nan ", "inf", "-inf", "+INF", "Infinity", "-iNfInItY", "infinit",
               "in_f", "n an", "1", "-0", "+0", "0", " 2 ", "\x0b2\x0c", "\x1c2", "2\x1f", "1_0", "1__0", "_1", "--1", "+-1", "+", "-",
               "1" + "0" * 400, "-1" + "0" * 400, "9007199254740993", "0x10", b"1", [1.0], (1.0,), {}, Other(0), " 2\xa0"]
    for mn, mx in fl_opts:
        for req in (False, True):
            f = fnum("float", req, mn, mx)
            vals = list(fl_vals)
            for b in (mn, mx):
                if b is not None and not math.isnan(b) and not math.isinf(b):
                    vals += [b, math.nextafter(b, INF), math.nextafter(b, -INF), b + 1, b - 1]
                    if b == int(b):
                        vals += [int(b), int(b) + 1, int(b) - 1, str(int(b)), str(int(b) + 1), str(int(b) - 1)]
            for x in vals:
                add(f, x)

    # ---- BoolField
    toks = ["t", "true", "1", "on", "yes", "y", "f", "false", "0", "off", "no", "n"]
    bvals = [None, True, False, 0, 1, 2, -1, 10 ** 30, 0.0, -0.0, 0.5, NAN, INF, "", " ", "2", "tru", "yess", "of", "o", "nn", "01",
             "10", "1.0", "0.0", "none", "null", "enable", "disabled", b"true", b"1", [], [True], (), {}, {"a": 1}, Other(0),
             "true", "K", "yesİ"]
    for t in toks:
        bvals += [t, t.upper(), t.title(), t[0] + t[1:].upper(), " " + t, t + " ", t + "\n", "\t" + t, t + t]
    for req in (False, True):
        for x in bvals:
            add({"k": "bool", "req": req}, x)
    for x in [None, True, "on", "OFF", 0, "maybe"]:
        add({"k": "bool", "req": False, "flag": True}, x)

    # ---- StringField
    svals = [None, "", " ", "  ", "a", "A", "aa", "ab", "Ab", "aB", "AB", "abc", "abcd", "aba", "aAb", "bab", "xabx", " ab ", "  a  ",
             "\tab\n", "\x1cab\x1f", "\x1c", "\x1d \x1e", " ab\xa0", "\x85ab　", "a b", "b", "B", "ba", "Ba", "BA", "aab", "aA",
             "Aa", "x", " x", "x ", "  ", "é", "aé", "Éa", "İ", "中", 5, 0, True, 2.5, b"ab", ["ab"], ("ab",),
             {"a": 1}, Other(0)]
    strips = [None, True, "a", "ab", "Aa", " x", "b"]
    cases_ = [None, "lower", "upper"]
    lens = [(None, None), (2, None), (None, 3), (2, 3), (0, 0), (3, 2)]
    for st in strips:
        for ca in cases_:
            for req in (False, True):
                for mn, mx in (lens if not req else [(None, None), (2, 3), (1, 1)]):
                    f = fstr(req=req, mn=mn, mx=mx, case=ca, strip=st)
                    for x in svals:
                        add(f, x)
    for ch in (["ab", "B"], ["AB"], [], ["", "a"]):
        for st in (None, True, "a"):
            for ca in cases_:
                for req in (False, True):
                    f = fstr(req=req, choices=ch, case=ca, strip=st)
                    for x in ["", "ab", "AB", "Ab", " ab ", "B", "b", "a", "aba", "abc", "aab", None, 5]:
                        add(f, x)
    for rx in ("[a-z]+$", "^a", "b", "(?i)ab$", "^$", ""):
        for st in (None, True, "a"):
            for ca in cases_:
                f = fstr(regex=rx, case=ca, strip=st, mn=None, mx=4)
                for x in ["", "ab", "AB", "Ab", " ab ", "ab\n", "abc1", "aab", "ba", "b", "abcde", None]:
                    add(f, x)
    # patterns are re.match: anchored at the start only.  Patterns / values on which search, match and fullmatch differ
    for rx in ("abc", "^abc", "abc$", "abc\\Z", "a|bc", "x*", "(?m)^b", "b$", "(?s)a.c", "[0-9]"):
        for st, ca in ((None, None), (True, None), (None, "upper")):
            f = fstr(regex=rx, case=ca, strip=st)
            for x in ["abc", "xabc", "abcx", "abc\n", "x\nabc", "\nabc", "bc", "xbc", "a", "", "b", "x\nb", "a\nc", "ABC", " abc ", "x1", "1x"]:
                add(f, x)
    for k, rx, vals in (("host", "srv", ["srv1", "my-srv", "SRV", "srv", "x.srv.y", "1.2.3.4"]),
                        ("host", "[0-9]+$", ["h1", "1h", "1.2.3.4", "a.1"]),
                        ("ipv4", "1\\.", ["1.2.3.4", "21.2.3.4", "2.1.3.4", "11.1.1.1"]),
                        ("ipv4", "4$", ["1.2.3.4", "4.3.2.1", "1.2.3.44"]),
                        ("net", "10\\.", ["10.0.0.0/8", "110.0.0.0/8", "1.10.0.0/16", "10.1.2.3"]),
                        ("net", "/8", ["10.0.0.0/8", "8.0.0.0/8", "10.0.0.0/16"])):
        for x in vals + [None, ""]:
            add(fstr(k, regex=rx), x)
            add({"k": "list", "req": False, "item": fstr(k, regex=rx)}, [x, vals[0]])
            add({"k": "dict", "req": False, "kf": fstr(regex="k"), "vf": fstr(k, regex=rx)}, {"k": x, "xk": vals[0]})
    for fd in ({"k": "loglevel", "req": False, "regex": "info|err"}, {"k": "loglevel", "req": False, "regex": "(?i)e", "levels": ["e1", "xe", "E2"]}):
        for x in ["info", "error", "xinfo", " INFO ", "debug", "e1", "xe", "E2"]:
            add(fd, x)
    for fd in ({"k": "loglevel", "req": False}, {"k": "loglevel", "req": True}, {"k": "loglevel", "req": False, "levels": ["lo", "HI"]},
               {"k": "loglevel", "req": False, "case": "upper"}, {"k": "loglevel", "req": False, "strip": "d"},
               {"k": "appmode", "req": False}, {"k": "appmode", "req": False, "modes": ["a", "b_1"]}):
        for x in ["debug", "DEBUG", " Info\n", "warn", "warning", "error", "critical", "", " ", "lo", "hi", "HI", "production",
                  " Development ", "a", "B_1", "b_1", None, 10, "ebug", "debu"]:
            add(fd, x)

    # ---- IPv4AddressField
    ipvals = [None, "", "1.2.3.4", "0.0.0.0", "255.255.255.255", "256.1.1.1", "1.2.3.255", "1.2.3.256", "01.2.3.4", "1.2.3.04",
              "00.0.0.0", "000.0.0.0", "0000.0.0.0", "1.2.3", "1.2.3.4.5", " 1.2.3.4", "1.2.3.4 ", "1.2.3.4\n", "\t1.2.3.4\x1f",
              "1.2.3.4/32", "1..3.4", ".1.2.3", "1.2.3.", "a.b.c.d", "1.2.3.1000", "+1.2.3.4", "1.2.3.-4", "1_0.2.3.4", "١.2.3.4",
              "10.20.30.40", "100.200.100.200", "199.99.9.0", "0.0.0.00", "1.2.3.4a", "A.2.3.4", "0x1.2.3.4", "1,2,3,4", "1.2.3.4.",
              "x1.2.3.4x", "001.2.3.4", "10.0.0.10", "010.0.0.1", 16909060, 1.2, b"1.2.3.4", ["1.2.3.4"], True]
    ipvals += ["::1", "::", "fe80::1", "::ffff:1.2.3.4", "1::", "2001:db8::1", "::1.2.3.4", "16909060", "0x1020304", "0x1.2.3.4", "1.2.3.4%eth0", "fe80::1%1", "[::1]", "::1/128", 16909060, 0, b"\x01\x02\x03\x04", b"1.2.3.4", (1, 2, 3, 4)]
    for f in (fstr("ipv4"), fstr("ipv4", req=True), fstr("ipv4", strip=True), fstr("ipv4", strip="0"), fstr("ipv4", strip="x", case="lower"),
              fstr("ipv4", case="upper"), fstr("ipv4", mn=8), fstr("ipv4", mx=7), fstr("ipv4", mn=7, mx=8), fstr("ipv4", choices=["1.2.3.4", "01.2.3.4"]),
              fstr("ipv4", strip=True, case="lower", req=True)):
        for x in ipvals:
            add(f, x)

    # ---- IPv4NetworkField
    netvals = [None, "", "0.0.0.0/0", "128.0.0.0/1", "0.0.0.0/1", "1.0.0.0/0", "64.0.0.0/1", "10.0.0.0/8", "10.0.0.0/7", "10.0.0.0/9",
               "10.128.0.0/9", "10.1.2.0/24", "10.1.2.0/23", "10.1.2.0/25", "10.1.2.3/24", "10.1.2.2/31", "10.1.2.3/31", "10.1.2.3/32",
               "10.1.2.3", "10.1.2.3/33", "10.1.2.3/032", "10.1.2.3/0032", "10.1.2.0/024", "0.0.0.0/00", "10.1.2.3/", "10.1.2.3/-1",
               "10.1.2.3/+1", "10.1.2.3/ 32", "10.1.2.3/32 ", "10.1.2.3/3_2", "10.1.2.3/1/2", "/24", "/", "10.1.2.3//32", "10.1.2.256/32",
               "010.1.2.3/32", "10.1.2/24", "10.1.2.3/abc", "10.1.2.3/٣", " 10.1.2.0/24", "10.1.2.0/24\n", "255.255.255.255/32",
               "255.255.255.254/31", "255.255.255.255/31", "0.0.0.0/32", "0.0.0.0", "10.1.2.3/999999999999999999999", 5, b"10.0.0.0/8",
               ["10.0.0.0/8"], True]
    netvals += ["::1", "::", "fe80::1", "::ffff:1.2.3.4", "1::", "2001:db8::1", "::1.2.3.4", "16909060", "0x1020304", "0x1.2.3.4", "1.2.3.4%eth0", "fe80::1%1", "[::1]", "::1/128", 16909060, 0, b"\x01\x02\x03\x04", b"1.2.3.4", (1, 2, 3, 4)] + ["::/0", "::1/128", "fe80::/10", "::ffff:10.0.0.0/104", "2001:db8::/32", "16909060/32", "0x0a000000/8", 167772160,
                ("10.0.0.0", 8), ("10.0.0.0", "8"), (167772160, 8)]
    for minp, maxp in [(None, None), (0, None), (None, 0), (8, 24), (32, 32), (1, 31), (0, 0), (33, None), (None, -1), (24, 8), (None, 32), (1, None)]:
        for req in (False, True):
            f = fstr("net", req=req, minp=minp, maxp=maxp)
            for x in netvals:
                add(f, x)
    for f in (fstr("net", strip=True), fstr("net", strip="0/", minp=8), fstr("net", case="upper", strip=True), fstr("net", mn=10, mx=11),
              fstr("net", strip="1", case="lower")):
        for x in netvals:
            add(f, x)
    # F49 (repaired): the canonical text has to pass the string pipeline unchanged
    add(fstr("net", mn=10), "0.0.0.0/00")
    add(fstr("net", mx=8), "10.1.2.3")
    add(fstr("net", choices=["10.1.2.3"]), "10.1.2.3")
    add(fstr("net", regex="^[0-9.]+$"), "10.1.2.3")
    add(fstr("net", mx=11), "10.1.2.3")
    add(fstr("net", choices=["10.1.2.3", "10.1.2.3/32"]), "10.1.2.3")
    add(fstr("net", regex="^[0-9./]+$"), "10.1.2.3")
    for st in ("2", "3", "/0", "1", "01"):
        for ca in (None, "lower"):
            for x in ("1.2.3.4", "0.0.0.0/32", "0.0.0.0/0", "1.2.3.4/32", "10.0.0.0/8", "2.2.2.2", "22.0.0.0/32", "0.0.0.0/3", "3.0.0.0/8"):
                add(fstr("net", strip=st, case=ca), x)
    add(fstr("net"), "10.1.2.0/255.255.255.0")
    add(fstr("net"), "10.1.2.0/0.0.0.255")
    add(fstr("net"), "10.1.2.0/1.2")

    # ---- HostnameField
    hvals = [None, "", "a", "ab", "a-b.c", "-ab", "-", ".", "a.", ".a", "..", "a_b", "_", "ab!", "a b", " ab", "ab ", "host\n", "h\n", "x" * 15,
             "x" * 16, "x" * 15 + "_", "x" * 14 + "_", "x" * 16 + "-", "-" * 15, "-" * 16, "1.2.3.4", "1.2.3.256", "01.2.3.4", "1.2.3",
             "1.2.3.4.5", "ab~", "a/b", "a\\b", "a:b", "a,b", "a+b", "a=b", "a*b", "a&b", "a@b", "a#b", "a$b", "a%b", "a^b", "a(b)", "a'b",
             "a{b}", "a[b]", "a\"b", "a<b", "a|b", "a`b", "a;b", "a?b", "A1", "Z9.example.COM", "localhost", "my-host.example.com",
             "é", "hôte", "host١", 5, b"host", ["host"], True, "a\tb", "ab\x1f", "\x7f"]
    hvals += ["::1", "fe80::1", "::ffff:1.2.3.4", "1::", "2001:db8::1", "16909060", "0x1020304", 16909060, b"\x01\x02\x03\x04",
              "Example.COM", "WORKSTATION-7", "DB-PRIMARY", "db-primary", "Db-Primary", "FILESRV01", "filesrv01", "NAS-2", "nas-2",
              "build-host", "Build-Host", "BUILD-HOST", "  Gateway.Example.org ", "A", "Z9"]
    for f in (fstr("host", case="upper"), fstr("host", case="upper", strip=True), fstr("host", case="lower"),
              fstr("host", choices=["DB-PRIMARY", "DB-REPLICA"]), fstr("host", choices=["DB-PRIMARY", "db-primary"]),
              fstr("host", choices=["db-primary"], case="lower"), fstr("host", choices=["DB-PRIMARY"], case="upper"),
              fstr("host", regex="^[A-Z][A-Z0-9\\-]+$"), fstr("host", regex="^[A-Z][A-Z0-9\\-]+$", case="upper"),
              fstr("host", regex="^[a-z][a-z0-9.\\-]+$"), fstr("host", regex="[A-Z]", allow=False),
              fstr("host", mn=2, mx=10, case="upper", allow=False)):
        for x in hvals:
            add(f, x)
    for f in (fstr("host"), fstr("host", allow=False), fstr("host", req=True), fstr("host", strip=True), fstr("host", strip=True, case="lower"),
              fstr("host", case="upper", allow=False), fstr("host", mn=2, mx=15), fstr("host", strip="-.", case=None), fstr("host", strip="x", case="upper")):
        for x in hvals:
            add(f, x)

    # ---- BytesField
    bvals_ = [None, b"", b"\x00", b"\xff", b"\x00\xff", b"a", b"ab", b"abc", b"abcd", b"abcde", bytes(range(256)), b"\xfb\xff\xbf", b">>>???",
              "", "text", "é", "߿", "ࠀ", "￿", "\U00010000", "\U0010ffff", "\ud800", "\udfff", "a\ud800", "中\U0001f600",
              "\x00\x7f\x80", 5, 0, True, 2.5, [], [1], (1,), {}, Other(0)]
    for enc in ("base64", "hex"):
        for req in (False, True):
            for x in bvals_:
                add({"k": "bytes", "req": req, "enc": enc}, x)
    b64texts = [None, "", "QQ==", "QR==", "QQ=", "QQ", "Q", "QUI=", "QUJD", "QUJDR", "QUJDRA", "QUJDRA=", "QUJDRA==", "QUJDRAE=", "QUJDRAEF",
                "AAAA", "AAA", "AA", "A", "////", "++++", "+/+/", "-_-_", "é", "QQé=", "Q Q==", "QQ==\n", "=", "====", "Q===", "QQ===",
                "QUJD=", "QU=JD", "Q=Q=", "!!!!", "QUJD!", 5, b"QQ==", ["QQ=="], True, 0, "abcdefghijklmnopqrstuvwxyzABCDEFGHIJKLMNOPQRSTUVWXYZ0123456789+/"]
    hextexts = [None, "", "00", "0", "0g", "AbCd", "abcd", "ABCD", "ab cd", " ab", "ab ", "a b", "ab\ncd", "ab\tcd", "ab\x0bcd", "ab\x0ccd", "ab\rcd",
                "ab\x1ccd", "ab\xa0cd", "ab\x85cd", "abé", "0x00", "ab  cd", "  ", "\n", "abc", "ab c", "gg", "-1", "+1", "ff" * 20, 5, b"00",
                ["00"], True, 0]
    for req in (False, True):
        for x in b64texts:
            add({"k": "bytes", "req": req, "enc": "base64"}, x, op=1)
        for x in hextexts:
            add({"k": "bytes", "req": req, "enc": "hex"}, x, op=1)

    # ---- AnyField
    for req in (False, True):
        for x in WRONG + ["text", 3, [1, [2]], {"a": {"b": 1}}]:
            add({"k": "any", "req": req}, x)
            add({"k": "any", "req": req}, x, op=1)

    # ---- untyped ListField / DictField
    for req in (False, True):
        for anyitem in (False, True):
            for x in [None, [], [1, "a"], [None], (), (1, 2), ((1,),), [(1,)], [[1], {"a": b"x"}], "ab", "", 5, {}, {"a": 1}, b"ab", True, Other(0)] + EXOTIC_ALL + [[Other(1)], (Other(6),)]:
                add({"k": "list", "req": req, "item": None, "anyitem": anyitem}, x)
        for x in [None, {}, {"a": 1}, {"a": {"b": [1]}}, {1: "x", "1": "y"}, {True: 1}, {None: None}, {(1, 2): 3}, {2.5: 1}, [], [("a", 1)], (), "ab", 5, True] + EXOTIC_ALL + [{"a": Other(1)}]:
            add({"k": "dict", "req": req}, x)
    for x in [None, [], [1], (1,), "ab", 5, {"a": 1}]:
        add({"k": "list", "req": False, "item": None}, x, op=1)
        add({"k": "dict", "req": False}, x, op=1)

    # ---- typed ListField
    items = [fnum("int", False, 0, 10), fnum("int", True, 0, 10), fstr(strip=True, case="lower", mn=1), fstr(req=True), {"k": "bytes", "req": False, "enc": "base64"},
             {"k": "bytes", "req": True, "enc": "hex"}, {"k": "bool", "req": False}, fnum("float", False, 0.0, None), fstr("ipv4"), fstr("net", maxp=24),
             fstr("host", allow=False), {"k": "any", "req": True}, fstr(strip="a", case="lower"), fstr(strip="a", case="lower", mn=2),
             {"k": "list", "req": False, "item": fnum("int", False, 0, 10)}, {"k": "list", "req": True, "item": {"k": "bytes", "req": False, "enc": "base64"}},
             {"k": "list", "req": False, "item": None}, {"k": "dict", "req": False, "kf": fstr(case="lower"), "vf": fnum("int")},
             {"k": "dict", "req": False}]
    lvals = [None, [], (), [1], [1, 2, 3], (1, 2), ["1", 2.0, " 3 "], [0, 10], [-1], [11], [1, None], [None], [True], ["a"], ["A", " b "], ["", "x"], [" "],
             [b"a", "b", b""], [b"\xff\x00"], ["\ud800"], ["t", "F", 0, 1.5], ["maybe"], [1.5, "2", 3], [-0.5], [NAN], ["1.2.3.4", "10.0.0.1"], ["1.2.3.04"],
             ["10.0.0.0/8", "10.1.2.3"], ["10.0.0.0/24", "10.0.0.0/25"], ["host", "a-b"], ["1.2.3.4"], ["Ab", "ab", "aab"], ["aAb"], ["ba"], [[1, 2], [3]], [[]],
             [[b"x"], [b"y", "z"]], [[11]], [["1"], ("2",)], [(1, 2)], [1, [2]], [{"A": 1}, {}], [{"A": 1, "a": 2}], [{"a": "x"}], [{}], "12", "", 5, {"a": 1}, {},
             b"ab", True, Other(0), [Other(0)]] + EXOTIC_ALL
    for it in items:
        for req in (False, True):
            for x in lvals:
                add({"k": "list", "req": req, "item": it}, x)
    ondisk = [None, [], ["QQ==", "QUI="], ["QQ="], ["00", "ff"], ["0"], [5], [None], ["QQ==", None], [["QQ=="], ["QUJD", "QQ=="]], [[]], [["QQ="]], ("QQ==",),
              [1, "2"], [11], ["x"], [{"A": 1}], [{"A": "x"}], [[1], [2, 3]], [["a"]], [" B "], ["Ab"], [""]]
    for it in items:
        for x in ondisk:
            add({"k": "list", "req": False, "item": it}, x, op=1)

    # ---- typed DictField
    dfields = [(fstr(case="lower"), fnum("int", False, 0, 10)), (None, {"k": "bytes", "req": False, "enc": "base64"}), ({"k": "bytes", "req": False, "enc": "hex"}, None),
               (fnum("int"), fstr(strip=True)), (fstr(req=True, mn=1), {"k": "list", "req": False, "item": fnum("int")}), ({"k": "bool", "req": False}, {"k": "bool", "req": True}),
               (fstr(strip="a", case="lower"), None), (None, fstr(strip="a", case="upper")), (fstr("ipv4"), fstr("net", minp=8)),
               (fstr(), {"k": "dict", "req": False, "kf": fstr(), "vf": {"k": "bytes", "req": False, "enc": "hex"}}), ({"k": "any", "req": True}, {"k": "any", "req": True})]
    dvals = [None, {}, {"a": 1}, {"A": 1}, {"A": 1, "a": 2}, {"a": 1, "A": 2, "b": 3}, {"a": 11}, {"a": "x"}, {"a": None}, {None: 1}, {"": 1}, {1: "a", "1": "b"},
             {1: " a ", 2: "b"}, {True: "a"}, {"1": "a", 1: "b", " 1": "c"}, {"a": b"x", "b": "y"}, {b"k": 1, "k": 2}, {b"\x00\xff": None}, {"t": "f", "F": "T"},
             {"t": None}, {0: 1, "f": 0, False: 1}, {"Ab": 1, "ab": 2}, {"k": "Ab"}, {"k": [1, "2"]}, {"k": [1], "": [2]}, {"k": "12"}, {"1.2.3.4": "10.0.0.0/8"},
             {"1.2.3.4": "10.0.0.0/7"}, {"1.2.3.4": "1.0.0.0/4"}, {"k": {"x": b"y", "z": "w"}}, {"k": {}}, {"k": {"x": 5}}, {2.5: 1}, {(1,): 1}, [("a", 1)], [], (), "ab",
             5, True, Other(0)] + EXOTIC_ALL
    for kf, vf in dfields:
        for req in (False, True):
            for x in dvals:
                add({"k": "dict", "req": req, "kf": kf, "vf": vf}, x)
    ddisk = [None, {}, {"a": 1}, {"A": 1, "a": 2}, {"a": "QQ=="}, {"a": "QQ="}, {"00ff": 1, "00FF": 2}, {"0": 1}, {"k": "x"}, {"1": "a"}, {1: "a"}, {"k": [1, 2]},
             {"k": {"x": "00"}}, {"k": {"x": "0"}}, {"k": None}, {"Ab": 1}, {"k": "Ab"}, {"1.2.3.4": "10.0.0.0/8"}, {"t": "f"}]
    for kf, vf in dfields:
        for x in ddisk:
            add({"k": "dict", "req": False, "kf": kf, "vf": vf}, x, op=1)

    # ---- classes outside the model (observed, never compared)
    for k in ("filename", "url"):
        for x in [None, "", "a.txt", "http://x.y", 5]:
            add({"k": k, "req": False}, x)
    return cs


ALPHA = "aAbBxX01. -_\t\n\x1c\x1f\xa0 "


def rstr(rng, alpha=ALPHA, maxlen=6):
    return "".join(rng.choice(alpha) for _ in range(rng.randint(0, maxlen)))


def rint(rng):
    return rng.choice([0, 1, -1, 5, -5, 10, 255, 256, 65535, 65536, rng.randint(-20, 20), rng.randint(-10 ** 6, 10 ** 6), 2 ** 63, -2 ** 63 - 1])


def rfloat(rng):
    return rng.choice([0.0, -0.0, 1.0, -1.0, 0.5, 2.5, -2.5, NAN, INF, -INF, rng.uniform(-10, 10), float(rng.randint(-20, 20)),
                       rng.uniform(-1e6, 1e6), 5e-324, 1e308])


def rwrong(rng):
    return rng.choice(WRONG)


def rsopts(rng, allow_f13=True):
    d = {}
    if rng.random() < 0.4:
        d["mn"] = rng.choice([0, 1, 2, 3, 5])
    if rng.random() < 0.4:
        d["mx"] = rng.choice([0, 1, 2, 3, 5, 8])
    if rng.random() < 0.5:
        d["strip"] = rng.choice([True, True, "a", "ab", "x ", "A", ".0"])
    if rng.random() < 0.5:
        d["case"] = rng.choice(["lower", "upper"])
    if rng.random() < 0.2:
        d["choices"] = [rstr(rng, "aAbB ", 3) for _ in range(rng.randint(1, 4))]
    if rng.random() < 0.12:
        d["regex"] = rng.choice(["[a-z]+$", "^[AB]", "b", ".a", "\\s", "[ab]*\\Z"])
    if rng.random() < 0.3:
        d["req"] = True
    return d


def rscalar_field(rng):
    k = rng.choice(["int", "int", "float", "bool", "str", "str", "bytes", "ipv4", "net", "host", "port", "any"])
    req = rng.random() < 0.3
    if k == "int":
        return fnum("int", req, rng.choice([None, rint(rng)]), rng.choice([None, rint(rng)]))
    if k == "port":
        d = {"k": "port", "req": req}
        if rng.random() < 0.3:
            d["min"] = rng.choice([None, 0, 1024])
        if rng.random() < 0.3:
            d["max"] = rng.choice([None, 1024, 70000])
        return d
    if k == "float":
        return fnum("float", req, rng.choice([None, rfloat(rng)]), rng.choice([None, rfloat(rng)]))
    if k == "bool":
        return {"k": "bool", "req": req}
    if k == "bytes":
        return {"k": "bytes", "req": req, "enc": rng.choice(["base64", "hex"])}
    if k == "any":
        return {"k": "any", "req": req}
    so = rsopts(rng)
    if k in ("ipv4", "net", "host"):
        so.pop("choices", None)
        so.pop("regex", None)
        if rng.random() < 0.7:
            so.pop("mn", None)
            so.pop("mx", None)
    f = fstr(k, **so)
    if k == "net":
        f["minp"] = rng.choice([None, None, 0, 8, 16, 24, 32])
        f["maxp"] = rng.choice([None, None, 0, 8, 16, 24, 32])
    if k == "host":
        f["allow"] = rng.random() < 0.6
        if rng.random() < 0.3:
            f["choices"] = rng.sample(["SRV1", "srv1", "HOST-1.Example.COM", "host-1.example.com", "ab", "AB", "1.2.3.4"], 3)
    return f


V6POOL = ["::1", "::", "fe80::1", "::ffff:1.2.3.4", "1::", "2001:db8::1", "16909060", "0x1020304"]


def rip(rng):
    if rng.random() < 0.06:
        return rng.choice(V6POOL)
    return ".".join(str(rng.choice([0, 1, 9, 10, 99, 100, 199, 254, 255, 256, rng.randint(0, 255)])) for _ in range(rng.choice([4, 4, 4, 4, 3, 5])))


def rvalue_for(rng, fd, depth=0):
    """a candidate value aimed at the field (mostly valid, boundary-biased, sometimes wrong type)"""
    k = fd["k"]
    r = rng.random()
    if r < 0.08:
        return rwrong(rng)
    if r < 0.12:
        return None
    if k in ("int", "port"):
        bs = [b for b in (fd.get("min", 1 if k == "port" else None), fd.get("max", 65535 if k == "port" else None)) if b is not None]
        n = rng.choice(bs) + rng.choice([-1, 0, 1]) if bs and rng.random() < 0.6 else rint(rng)
        form = rng.random()
        if form < 0.5:
            return n
        if form < 0.65:
            return float(n) + rng.choice([0.0, 0.5, -0.5]) if abs(n) < 2 ** 52 else n
        pad = rng.choice(["", " ", "\t", "\n", "\x1c", "\xa0"])
        return pad + rng.choice(["", "+", ""]) * (n >= 0) + str(n) + rng.choice(["", " ", "\x1f", " ", "_0", "."])
    if k == "float":
        bs = [b for b in (fd.get("min"), fd.get("max")) if b is not None and not math.isnan(b) and not math.isinf(b)]
        if bs and rng.random() < 0.6:
            b = rng.choice(bs)
            return rng.choice([b, math.nextafter(b, INF), math.nextafter(b, -INF)])
        form = rng.random()
        if form < 0.6:
            return rfloat(rng)
        if form < 0.8:
            return rint(rng)
        return rng.choice([" ", "", "\t"]) + rng.choice(["nan", "inf", "-inf", "Infinity", str(rng.randint(-50, 50)), "-0", "abc", "+" + str(rng.randint(0, 9))]) + rng.choice(["", " ", "\x1f"])
    if k == "bool":
        t = rng.choice(["t", "true", "1", "on", "yes", "y", "f", "false", "0", "off", "no", "n", "maybe", ""])
        return rng.choice([True, False, rint(rng), rfloat(rng), t, t.upper(), t.title(), " " + t, "".join(rng.choice([ch, ch.upper()]) for ch in t)])
    if k == "bytes":
        if rng.random() < 0.7:
            return bytes(rng.getrandbits(8) for _ in range(rng.randint(0, 9)))
        return rstr(rng, "abé中\U0001f600\x00\x7f\x80\ud800", 4)
    if k == "ipv4":
        s = rip(rng)
    elif k == "net":
        if rng.random() < 0.6:
            p = rng.choice([0, 1, 7, 8, 9, 16, 23, 24, 25, 31, 32])
            a = rng.getrandbits(32)
            if rng.random() < 0.8:
                a &= ~((1 << (32 - p)) - 1)
            s = "%d.%d.%d.%d/%s" % (a >> 24, (a >> 16) & 255, (a >> 8) & 255, a & 255, rng.choice([str(p), str(p), "0" + str(p), str(p + rng.choice([0, 1, 32]))]))
        else:
            s = rip(rng) + rng.choice(["", "", "/", "/8", "/32", "/33", "/x", "/-1"])
    elif k == "host" and fd.get("choices") and rng.random() < 0.6:
        s = rng.choice(fd["choices"])
    elif k == "host":
        s = rng.choice([rstr(rng, "abAB01.-_!~ ", 8), rip(rng), "h" * rng.choice([1, 2, 14, 15, 16, 17]), "host-%d.example.com" % rng.randint(0, 99),
                        "HOST-%d.Example.COM" % rng.randint(0, 99), "SRV%d" % rng.randint(0, 9)])
    elif k in STRING_KINDS:
        ch = eff_sopts(fd)[3]
        s = rstr(rng)
        if ch and rng.random() < 0.6:
            s = rng.choice(ch)
            s = rng.choice([s, s.upper(), s.lower(), " " + s + "\n", "a" + s])
    elif k == "any":
        return rng.choice([rint(rng), rstr(rng), [1, "a"], {"a": 1}, 2.5, b"x", True])
    elif k == "list":
        n = rng.choice([0, 1, 1, 2, 3])
        items = [rvalue_for(rng, fd["item"], depth + 1) if fd.get("item") is not None else rng.choice([1, "a", None, [1], b"x"]) for _ in range(n)]
        return tuple(items) if rng.random() < 0.15 else items
    elif k == "dict":
        n = rng.choice([0, 1, 1, 2, 3])
        d = {}
        for _ in range(n):
            kk = rvalue_for(rng, fd["kf"], depth + 1) if fd.get("kf") is not None else rng.choice(["a", "b", 1, True, None, "A"])
            if isinstance(kk, (list, dict, float, tuple, Other)):
                kk = rng.choice(["a", "A", " a", 1, "1"])
            d[kk] = rvalue_for(rng, fd["vf"], depth + 1) if fd.get("vf") is not None else rng.choice([1, "a", None, [1], b"x"])
        return d
    else:
        return rwrong(rng)
    # string-like: decorate
    if rng.random() < 0.35:
        s = rng.choice([" ", "\t", "\n", "\x1c", "\xa0", "a", "x", "0", "A"]) + s + rng.choice([" ", "\n", "\x1f", " ", "a", "x", "0", ""])
    if rng.random() < 0.15:
        s = s.upper() if rng.random() < 0.5 else s.title()
    return s


def rfield(rng, depth=0):
    r = rng.random()
    if depth >= 2 or r < 0.6:
        return rscalar_field(rng)
    req = rng.random() < 0.3
    if r < 0.8:
        return {"k": "list", "req": req, "item": rfield(rng, depth + 1) if rng.random() < 0.85 else None}
    kf = rng.choice([None, fstr(**{k: v for k, v in rsopts(rng).items() if k not in ("choices", "regex")}), fnum("int"), {"k": "bytes", "req": False, "enc": rng.choice(["hex", "base64"])},
                     {"k": "bool", "req": False}])
    vf = rfield(rng, depth + 1) if rng.random() < 0.8 else None
    return {"k": "dict", "req": req, "kf": kf, "vf": vf}


def on_disk_for(rng, fd):
    """something a document might hold for the field (op 1)"""
    k = fd["k"]
    if rng.random() < 0.1:
        return rng.choice([None, 5, "x", [], {}])
    if k == "bytes":
        import base64 as _b
        b = bytes(rng.getrandbits(8) for _ in range(rng.randint(0, 7)))
        t = _b.b64encode(b).decode() if fd["enc"] == "base64" else b.hex()
        if rng.random() < 0.25:
            t = rng.choice([t[:-1], t + "A", t.upper(), t + "=", " " + t if fd["enc"] == "hex" else t[1:]])
        return t
    if k == "list" and fd.get("item") is not None:
        return [on_disk_for(rng, fd["item"]) for _ in range(rng.choice([0, 1, 2, 3]))]
    if k == "dict" and (fd.get("kf") is not None or fd.get("vf") is not None):
        d = {}
        for _ in range(rng.choice([0, 1, 2, 3])):
            kk = on_disk_for(rng, fd["kf"]) if fd.get("kf") is not None else rng.choice(["a", "b", "A"])
            if isinstance(kk, (list, dict, float, tuple, Other)):
                kk = "k"
            d[kk] = on_disk_for(rng, fd["vf"]) if fd.get("vf") is not None else rng.choice([1, "a", None])
        return d
    return rvalue_for(rng, fd)


def generate(rng, tier):
    cases = matrix()
    n = 2500 if tier == "quick" else 60000
    for _ in range(n):
        f = rfield(rng)
        if rng.random() < 0.85:
            cases.append({"f": f, "op": 0, "x": rvalue_for(rng, f)})
        else:
            cases.append({"f": f, "op": 1, "x": on_disk_for(rng, f)})
    return cases
