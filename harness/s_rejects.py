"""
stream `rejects` (C06, supplementary, evaluated on the implementation only): a REJECTED assignment to a field of every
built-in class -- in particular typed and untyped lists / dicts, and fields with a custom field-level validator that refuses a
value whose parts are all individually valid -- leaves the configuration exactly as it was: same values at every depth, same
container OBJECT holding the same items, same default marks.  Routes: attribute, dotted path, constructor keyword (no
configuration may exist afterwards), load_tree of a one-key tree, item assignment / append / insert on the held container.
Config.v proves this for the state machine with opaque leaves; this stream exercises the leaf classes whose `_validate` builds
or refills containers.
"""
import copy

NAME = "rejects"
MODEL = False
IMPORTS = RUN = CASE_TYPE = None


def pool():
    """name -> (constructor, a valid prior value, [(rejected value, why)], refused-by-validator value or None)"""
    import cincoconfig as cc

    def too_long(cfg, v):
        if v is not None and len(v) > 3:
            raise ValueError("at most three entries")
        return v

    def not_seven(cfg, v):
        if v == 7:
            raise ValueError("seven is refused")
        return v
    return {
        "int": (lambda: cc.IntField(min=0, max=10, validator=not_seven), 3, [11, "x", [1], None.__class__], 7),
        "str": (lambda: cc.StringField(min_len=2, validator=lambda c, v: (_ for _ in ()).throw(ValueError("no")) if v == "nope" else v), "ab",
                ["a", 5, ["ab"]], "nope"),
        "list-int": (lambda: cc.ListField(cc.IntField(min=0, max=10), validator=too_long), [1, 2], [[1, 11], [1, "x"], "12", 5, [None, [1]]],
                     [1, 2, 3, 4]),
        "list-str": (lambda: cc.ListField(cc.StringField(transform_case="lower"), validator=too_long), ["a", "b"], [["a", 5], 7],
                     ["a", "b", "c", "d"]),
        "list-untyped": (lambda: cc.ListField(validator=too_long), [1, "a"], [5, "str", {"a": 1}], [1, 2, 3, 4]),
        "dict-typed": (lambda: cc.DictField(cc.StringField(), cc.IntField(min=0, max=10), validator=too_long), {"a": 1},
                       [{"a": 11}, {"a": "x"}, {5: 1}, [("a", 1)], "str"], {"a": 1, "b": 2, "c": 3, "d": 4}),
        "dict-untyped": (lambda: cc.DictField(validator=too_long), {"a": [1]}, [5, [1, 2], "str"], {"a": 1, "b": 2, "c": 3, "d": 4}),
        "bytes": (lambda: cc.BytesField(), b"ab", [5, [b"a"]], None),
        "net": (lambda: cc.IPv4NetworkField(min_prefix_len=8), "10.0.0.0/8", ["10.0.0.0/4", "nonsense", 5], None),
    }


ROUTES = ["attr", "dotted", "load_tree", "ctor"]
PLACES = ["root", "sub", "item"]


def generate(rng, tier):
    cases = []
    names = list(pool())
    for name in names:
        _, _, rejected, refused = pool()[name]
        nvals = len(rejected) + (1 if refused is not None else 0)
        for vi in range(nvals):
            for route in ROUTES:
                for place in PLACES:
                    cases.append({"field": name, "vi": vi, "route": route, "place": place, "src": "matrix"})
        for op in ("setitem", "append", "insert", "update", "setdefault"):
            for place in PLACES:
                cases.append({"field": name, "vi": 0, "route": "inplace:" + op, "place": place, "src": "matrix"})
    for _ in range(60 if tier == "quick" else 2000):
        name = rng.choice(names)
        _, _, rejected, refused = pool()[name]
        cases.append({"field": name, "vi": rng.randrange(len(rejected) + (1 if refused is not None else 0)),
                      "route": rng.choice(ROUTES), "place": rng.choice(PLACES), "src": "random"})
    return cases


def gcase(c):
    return ""


def _snap(cfg):
    from cincoconfig import Config
    out = {}
    for k, v in cfg._data.items():
        if isinstance(v, Config):
            out[k] = ("cfg", id(v), _snap(v))
        elif isinstance(v, (list, dict)):
            items = list(v.items()) if isinstance(v, dict) else list(v)
            out[k] = (type(v).__name__, id(v), copy.deepcopy([(_snap(i) if isinstance(i, Config) else i) for i in items]) if not isinstance(v, dict)
                      else copy.deepcopy(items), [id(i) for i in (v.values() if isinstance(v, dict) else v)])
        else:
            out[k] = ("val", copy.deepcopy(v), type(v).__name__)
    out["__defaults__"] = sorted(cfg._default_value_keys)
    return out


def impl(c):
    from cincoconfig import Schema, ListField, IntField
    mk, prior, rejected, refused = pool()[c["field"]]
    values = list(rejected) + ([refused] if refused is not None else [])
    bad = values[c["vi"]]
    if bad is type(None):
        bad = object()        # an arbitrary object
    item = Schema()
    item.f = mk()
    item.other = IntField(default=1)
    s = Schema()
    s.f = mk()
    s.other = IntField(default=1)
    s.sub.f = mk()
    s.sub.other = IntField(default=1)
    s.items = ListField(item)
    out = {"refused": refused is not None and c["vi"] == len(rejected)}
    try:
        cfg = s()
        cfg.items = [{"other": 5}, {"other": 6}]
        tgt = {"root": cfg, "sub": cfg.sub, "item": cfg.items[1]}[c["place"]]
        tgt.f = copy.deepcopy(prior)
        keep = tgt._data["f"]          # the stored object
        before = _snap(cfg)
        route = c["route"]
        try:
            if route == "attr":
                tgt.f = bad
            elif route == "dotted":
                if c["place"] == "item":
                    tgt["f"] = bad
                else:
                    cfg[{"root": "f", "sub": "sub.f"}[c["place"]]] = bad
            elif route == "load_tree":
                tgt.load_tree({"f": bad})
            elif route == "ctor":
                if c["place"] == "root":
                    s(f=bad)
                elif c["place"] == "sub":
                    s(sub={"f": bad})
                else:
                    s(items=[{"other": 1}, {"f": bad}])
            else:
                op = route.split(":")[1]
                cur = tgt._data["f"]
                if isinstance(cur, dict):
                    bad_item = {"dict-typed": 11}.get(c["field"], object())
                    if op == "setitem":
                        cur["zz"] = bad_item
                    elif op == "update":
                        cur.update({"ok": 1, "zz": bad_item})
                    elif op == "setdefault":
                        cur.setdefault("zz", bad_item)
                    else:
                        out["result"] = "n/a"
                elif isinstance(cur, list):
                    bad_item = {"list-int": 11, "list-str": 5}.get(c["field"], None)
                    if bad_item is None or op in ("update", "setdefault"):
                        out["result"] = "n/a"
                    elif op == "setitem":
                        cur[0] = bad_item
                    elif op == "append":
                        cur.append(bad_item)
                    elif op == "insert":
                        cur.insert(0, bad_item)
                else:
                    out["result"] = "n/a"
            out.setdefault("result", "accepted")
        except ValueError as e:
            out["result"] = "rejected"
            out["exc"] = type(e).__name__
        except Exception as e:  # noqa
            out["result"] = "raised"
            out["exc"] = type(e).__name__
        after = _snap(cfg)
        out["unchanged"] = before == after
        out["same_object"] = tgt._data["f"] is keep
        if before != after:
            out["diff"] = [k for k in before if before.get(k) != after.get(k)]
    except Exception as e:  # noqa
        out["setup"] = "%s: %s" % (type(e).__name__, e)
    return out


def oracle(c, obs):
    what = "%s field at %s, route %s, value #%d" % (c["field"], c["place"], c["route"], c["vi"])
    if "setup" in obs:
        return ["%s: setup failed: %s" % (what, obs["setup"])]
    bad = []
    if obs["result"] in ("rejected", "raised"):
        if not obs["unchanged"]:
            bad.append("%s: the rejected assignment changed the configuration (%s)" % (what, obs.get("diff")))
        elif not obs["same_object"]:
            bad.append("%s: the rejected assignment replaced the stored container object" % what)
    direct = c["route"] in ("attr", "dotted") or (c["route"] == "ctor" and c["place"] == "root")
    if obs["result"] == "accepted" and direct:
        # every value of the pool is unacceptable for a DIRECT assignment (the load routes first convert the on-disk form:
        # a string is iterated by a typed list, a list of pairs becomes a dict -- accepted there, and that is not C06's business)
        bad.append("%s: an unacceptable value was accepted" % what)
    return bad


def tags(c, obs):
    return {"field:" + c["field"], "route:" + c["route"], "place:" + c["place"], "result:" + str(obs.get("result"))}


def nontrivial(c, obs):
    return obs.get("result") in ("rejected", "raised")
