"""
stream `rejects` (C06, supplementary, evaluated on the implementation only): a REJECTED assignment to a field of every
built-in class -- in particular typed and untyped lists / dicts, and fields with a custom field-level validator that refuses a
value whose parts are all individually valid -- leaves the configuration exactly as it was: same values at every depth, same
container OBJECT holding the same items, same default marks.  Routes: attribute, dotted path, constructor keyword (no
configuration may exist afterwards), load_tree of a one-key tree, item assignment / append / insert on the held container.
Config.v proves this for the state machine with opaque leaves; this stream exercises the leaf classes whose `_validate` builds
or refills containers.
"""
import copy

NAME = "rejects"
MODEL = False
IMPORTS = RUN = CASE_TYPE = None


def pool():
    """name -> (constructor, a valid prior value, [(rejected value, why)], refused-by-validator value or None)"""
    import cincoconfig as cc

    def too_long(cfg, v):
        if v is not None and len(v) > 3:
            raise ValueError("at most three entries")
        return v

    def not_seven(cfg, v):
        if v == 7:
            raise ValueError("seven is refused")
        return v
    return {
        "int": (lambda **kw: cc.IntField(min=0, max=10, validator=not_seven, **kw), 3, [11, "x", [1], None.__class__], 7),
        "str": (lambda **kw: cc.StringField(min_len=2, validator=lambda c, v: (_ for _ in ()).throw(ValueError("no")) if v == "nope" else v, **kw), "ab",
                ["a", 5, ["ab"]], "nope"),
        "list-int": (lambda **kw: cc.ListField(cc.IntField(min=0, max=10), validator=too_long, **kw), [1, 2], [[1, 11], [1, "x"], "12", 5, [None, [1]]],
                     [1, 2, 3, 4]),
        "list-str": (lambda **kw: cc.ListField(cc.StringField(transform_case="lower"), validator=too_long, **kw), ["a", "b"], [["a", 5], 7],
                     ["a", "b", "c", "d"]),
        "list-untyped": (lambda **kw: cc.ListField(validator=too_long, **kw), [1, "a"], [5, "str", {"a": 1}], [1, 2, 3, 4]),
        "dict-typed": (lambda **kw: cc.DictField(cc.StringField(), cc.IntField(min=0, max=10), validator=too_long, **kw), {"a": 1},
                       [{"a": 11}, {"a": "x"}, {5: 1}, [("a", 1)], "str"], {"a": 1, "b": 2, "c": 3, "d": 4}),
        "dict-untyped": (lambda **kw: cc.DictField(validator=too_long, **kw), {"a": [1]}, [5, [1, 2], "str"], {"a": 1, "b": 2, "c": 3, "d": 4}),
        "bytes": (lambda **kw: cc.BytesField(**kw), b"ab", [5, [b"a"]], None),
        "net": (lambda **kw: cc.IPv4NetworkField(min_prefix_len=8, **kw), "10.0.0.0/8", ["10.0.0.0/4", "nonsense", 5], None),
    }


ROUTES = ["attr", "dotted", "load_tree", "ctor"]
PLACES = ["root", "sub", "item"]
# a configuration OBJECT built elsewhere, assigned where a sub-configuration / list item lives
CFGOBJ_VARIANTS = ["required-unset", "schema-validator-fails", "valid", "foreign-schema"]
CFGOBJ_PLACES = ["sub", "subsub", "item-set", "item-append", "item-insert", "list-assign", "ctor-sub"]
# where the container that is modified in place came from: the user-defined marks must not move on a rejection either
ORIGINS = ["default", "assigned", "loaded"]
# single-element insertions and replacements only: C06 says nothing about a multi-element extend / update that fails half way
INPLACE_OPS = ["setitem", "setitem-existing", "append", "insert", "update", "update-kw", "update-pairs", "setdefault", "ior", "extend", "iadd", "slice"]


def generate(rng, tier):
    cases = []
    names = list(pool())
    for name in names:
        _, _, rejected, refused = pool()[name]
        nvals = len(rejected) + (1 if refused is not None else 0)
        for vi in range(nvals):
            for route in ROUTES:
                for place in PLACES:
                    cases.append({"field": name, "vi": vi, "route": route, "place": place, "src": "matrix"})
        for op in ("setitem", "append", "insert", "update", "setdefault"):
            for place in PLACES:
                cases.append({"field": name, "vi": 0, "route": "inplace:" + op, "place": place, "src": "matrix"})
    for variant in CFGOBJ_VARIANTS:
        for place in CFGOBJ_PLACES:
            cases.append({"field": "cfgobj", "vi": 0, "variant": variant, "route": "cfgobj", "place": place, "src": "matrix"})
    for origin in ORIGINS:
        for name in ("dict-typed", "dict-untyped", "list-int", "list-str"):
            for op in INPLACE_OPS:
                for place in PLACES:
                    cases.append({"field": name, "vi": 0, "route": "inplace:" + op, "place": place, "origin": origin, "src": "matrix"})
    for _ in range(60 if tier == "quick" else 2000):
        name = rng.choice(names)
        _, _, rejected, refused = pool()[name]
        cases.append({"field": name, "vi": rng.randrange(len(rejected) + (1 if refused is not None else 0)),
                      "route": rng.choice(ROUTES), "place": rng.choice(PLACES), "src": "random"})
    return cases


def gcase(c):
    return ""


def _snap(cfg):
    from cincoconfig import Config, is_value_defined
    out = {}
    for k, v in cfg._data.items():
        if isinstance(v, Config):
            out[k] = ("cfg", id(v), _snap(v))
        elif isinstance(v, (list, dict)):
            items = list(v.items()) if isinstance(v, dict) else list(v)
            out[k] = (type(v).__name__, id(v), copy.deepcopy([(_snap(i) if isinstance(i, Config) else i) for i in items]) if not isinstance(v, dict)
                      else copy.deepcopy(items), [id(i) for i in (v.values() if isinstance(v, dict) else v)])
        else:
            out[k] = ("val", copy.deepcopy(v), type(v).__name__)
    out["__defaults__"] = sorted(cfg._default_value_keys)
    out["__defined__"] = sorted(k for k in cfg._fields if k in cfg._data and is_value_defined(cfg, k))
    return out


def _cfgobj(c, out):
    """a configuration object built elsewhere is assigned where a sub-configuration or a list item lives"""
    from cincoconfig import Schema, ListField, IntField, StringField

    def leafy(s):
        s.host = StringField(required=True)      # no default: a fresh configuration of this schema does not validate
        s.port = IntField(default=5432, min=1, max=65535)

    def refuse(cfg):
        if cfg.port == 1234:
            raise ValueError("port 1234 is refused by the schema's validator")
    item = Schema()
    leafy(item)
    item.validator(refuse)
    s = Schema()
    s.mode = StringField(default="prod")
    leafy(s.db)
    leafy(s.db.deep)
    s.db.validator(refuse)
    s.db.deep.validator(refuse)
    s.items = ListField(item)
    foreign = Schema()
    foreign.unrelated = IntField(default=1)
    cfg = s()
    cfg.db.host = "db1"
    cfg.db.deep.host = "deep1"
    cfg.items = [{"host": "i0"}, {"host": "i1", "port": 81}]
    place, variant = c["place"], c["variant"]
    sch = {"sub": s.db, "ctor-sub": s.db, "subsub": s.db.deep}.get(place, item)
    other = (foreign if variant == "foreign-schema" else sch)()
    if variant == "schema-validator-fails":
        other.host = "h"
        other.port = 1234
    elif variant == "valid":
        other.host = "h"
        other.port = 99
    elif variant == "required-unset":
        other.port = 99
    before = _snap(cfg)
    held = {"sub": lambda: cfg.db, "ctor-sub": lambda: cfg.db, "subsub": lambda: cfg.db.deep}.get(place, lambda: cfg.items)
    keep = held()
    try:
        if place == "sub":
            cfg.db = other
        elif place == "subsub":
            cfg.db.deep = other
        elif place == "item-set":
            cfg.items[1] = other
        elif place == "item-append":
            cfg.items.append(other)
        elif place == "item-insert":
            cfg.items.insert(0, other)
        elif place == "list-assign":
            cfg.items = [{"host": "n0"}, other]
        elif place == "ctor-sub":
            s(db=other)
        out["result"] = "accepted"
    except ValueError as e:
        out["result"] = "rejected"
        out["exc"] = type(e).__name__
    except Exception as e:  # noqa
        out["result"] = "raised"
        out["exc"] = type(e).__name__
    after = _snap(cfg)
    out["unchanged"] = before == after
    now = held()
    out["same_object"] = now is keep
    if before != after:
        out["diff"] = [k for k in before if before.get(k) != after.get(k)]
    if out["result"] == "accepted" and place in ("sub", "subsub"):
        out["linked"] = now is other and other._parent is (cfg if place == "sub" else cfg.db)
    return out


def impl(c):
    from cincoconfig import Schema, ListField, IntField
    out = {}
    if c["field"] == "cfgobj":
        try:
            return _cfgobj(c, out)
        except Exception as e:  # noqa
            out["setup"] = "%s: %s" % (type(e).__name__, e)
            return out
    mk, prior, rejected, refused = pool()[c["field"]]
    values = list(rejected) + ([refused] if refused is not None else [])
    bad = values[c["vi"]]
    if bad is type(None):
        bad = object()        # an arbitrary object
    origin = c.get("origin", "assigned")
    kw = {"default": (lambda: copy.deepcopy(prior))} if origin == "default" else {}
    item = Schema()
    item.f = mk(**kw)
    item.other = IntField(default=1)
    s = Schema()
    s.f = mk(**kw)
    s.other = IntField(default=1)
    s.sub.f = mk(**kw)
    s.sub.other = IntField(default=1)
    s.items = ListField(item)
    out = {"refused": refused is not None and c["vi"] == len(rejected)}
    try:
        cfg = s()
        cfg.items = [{"other": 5}, {"other": 6}]
        tgt = {"root": cfg, "sub": cfg.sub, "item": cfg.items[1]}[c["place"]]
        if origin == "assigned":
            tgt.f = copy.deepcopy(prior)
        elif origin == "loaded":
            tgt.load_tree({"f": copy.deepcopy(prior)})
        out["prior_is_default"] = "f" in tgt._default_value_keys
        keep = tgt._data["f"]          # the stored object
        before = _snap(cfg)
        route = c["route"]
        try:
            if route == "attr":
                tgt.f = bad
            elif route == "dotted":
                if c["place"] == "item":
                    tgt["f"] = bad
                else:
                    cfg[{"root": "f", "sub": "sub.f"}[c["place"]]] = bad
            elif route == "load_tree":
                tgt.load_tree({"f": bad})
            elif route == "ctor":
                if c["place"] == "root":
                    s(f=bad)
                elif c["place"] == "sub":
                    s(sub={"f": bad})
                else:
                    s(items=[{"other": 1}, {"f": bad}])
            else:
                op = route.split(":")[1]
                cur = tgt.f                   # the way a caller reaches the container
                if cur is not tgt._data["f"]:
                    out["result"] = "n/a"     # the getter hands out something else than the stored container
                elif isinstance(cur, dict):
                    bad_item = {"dict-typed": 11}.get(c["field"], None)
                    first = next(iter(cur))
                    if bad_item is None:
                        # an untyped dict accepts any entry: only the field-level validator (at most three entries) can refuse,
                        # and it is not consulted for in-place changes
                        out["result"] = "n/a"
                    elif op == "setitem":
                        cur["zz"] = bad_item
                    elif op == "setitem-existing":
                        cur[first] = bad_item
                    elif op == "update":
                        cur.update({"zz": bad_item})
                    elif op == "update-kw":
                        cur.update(zz=bad_item)
                    elif op == "update-pairs":
                        cur.update([("zz", bad_item)])
                    elif op == "setdefault":
                        cur.setdefault("zz", bad_item)
                    elif op == "ior":
                        cur |= {"zz": bad_item}
                    else:
                        out["result"] = "n/a"
                elif isinstance(cur, list):
                    bad_item = {"list-int": 11, "list-str": 5}.get(c["field"], None)
                    if bad_item is None or op in ("update", "update-kw", "update-pairs", "setdefault", "ior"):
                        out["result"] = "n/a"
                    elif op in ("setitem", "setitem-existing"):
                        cur[0] = bad_item
                    elif op == "append":
                        cur.append(bad_item)
                    elif op == "insert":
                        cur.insert(0, bad_item)
                    elif op == "extend":
                        cur.extend([bad_item])
                    elif op == "iadd":
                        cur += [bad_item]
                    elif op == "slice":
                        cur[0:1] = [bad_item]
                else:
                    out["result"] = "n/a"
            out.setdefault("result", "accepted")
        except ValueError as e:
            out["result"] = "rejected"
            out["exc"] = type(e).__name__
        except Exception as e:  # noqa
            out["result"] = "raised"
            out["exc"] = type(e).__name__
        after = _snap(cfg)
        out["unchanged"] = before == after
        out["same_object"] = tgt._data["f"] is keep
        if before != after:
            out["diff"] = [k for k in before if before.get(k) != after.get(k)]
    except Exception as e:  # noqa
        out["setup"] = "%s: %s" % (type(e).__name__, e)
    return out


def oracle(c, obs):
    if c["field"] == "cfgobj":
        what = "a %s configuration object assigned at %s" % (c["variant"], c["place"])
    else:
        what = "%s field (%s) at %s, route %s, value #%d" % (c["field"], c.get("origin", "assigned"), c["place"], c["route"], c["vi"])
    if "setup" in obs:
        return ["%s: setup failed: %s" % (what, obs["setup"])]
    bad = []
    if obs["result"] in ("rejected", "raised"):
        if not obs["unchanged"]:
            bad.append("%s: the rejected assignment changed the configuration (%s)" % (what, obs.get("diff")))
        elif not obs["same_object"]:
            bad.append("%s: the rejected assignment replaced the stored container object" % what)
    if c["field"] == "cfgobj":
        if obs["result"] == "accepted" and obs.get("linked") is False:
            bad.append("%s: accepted, but the configuration does not hold the assigned object under its new parent" % what)
        return bad
    direct = c["route"] in ("attr", "dotted") or (c["route"] == "ctor" and c["place"] == "root")
    inplace = c["route"].startswith("inplace:") and obs["result"] != "n/a"
    if obs["result"] == "accepted" and (direct or inplace):
        # every value of the pool is unacceptable for a DIRECT assignment (the load routes first convert the on-disk form:
        # a string is iterated by a typed list, a list of pairs becomes a dict -- accepted there, and that is not C06's business)
        bad.append("%s: an unacceptable value was accepted" % what)
    return bad


def tags(c, obs):
    return {"field:" + c["field"], "route:" + c["route"], "place:" + c["place"], "result:" + str(obs.get("result"))}


def nontrivial(c, obs):
    return obs.get("result") in ("rejected", "raised")
