from registry import KERNEL, TIE, HARNESS

PROP = "C14"
SPEC = {
    "manifest": {
        "technique": "machine-checked proof in Coq (induction over schema trees and paths for the naming rule; invariant over all operation histories for the precedence machine) + model/implementation correspondence by vm_compute under a patched os.environ",
        "text": ("Twelve theorems in coq/theories/Env*.v. Naming: for every schema tree, path and combination of schema/field "
                 "settings (absent, automatic, named, disabled) the name stored by Field.__setkey__/Schema.__setkey__ when the "
                 "schema is built top-down equals the declarative rule (explicit name, else upper-cased underscore-joined path "
                 "below the nearest schema with a setting; disabled schemas/fields give no binding). Precedence: for every "
                 "history of build / load_tree / nested load (sub-configuration rebuild) / assignment / reset_value and every "
                 "validator, the held value is the last accepted assignment since the last (re)build, else the validated "
                 "variable when bound and non-empty, else the last accepted loaded value, else the default; an invalid variable "
                 "makes construction fail with a validation error carrying the field's path; unset/empty/opted-out fields step "
                 "exactly like unbound ones. Outside the region known_F20 (list/dict fields, challenge fields with default, "
                 "bound to a variable), inside which both clauses are refuted by witnesses. Environments per construction: with the "
                 "process environment changing between constructions of configurations of one schema, the state after a "
                 "construction under environment e and any operations on it is that of the one-environment machine under e, "
                 "whatever was read or validated before (env_per_build, precedence_per_build). The model is tied to core.py by "
                 "running the same schemas, environments and histories on the implementation and comparing every stored "
                 "Field.env/Schema._env_prefix and every step's outcome, value and user-set flag inside Coq."),
        "note": ("Trusted: Coq kernel + vm_compute; the correspondence harness; str.upper enters the naming theorems as an "
                 "arbitrary function (ASCII upper-casing in the executable model, ASCII keys generated); the field validator "
                 "enters the machine theorems as an arbitrary function (IntField/StringField/BoolField/ListField/DictField/"
                 "ChallengeField modelled concretely for the correspondence); os.environ is constant over a history. No axioms."),
        "design_ref": "DESIGN.md section 6 C14"},
    "streams": ["env"],
    "witnesses": [],
    "rule": ("deterministic matrix: depth 1 = 4 schema x 4 field settings x {unset, empty, valid, invalid} x 7 field classes; "
             "depth 2 = 4x4x4 settings x 4 environments (IntField) plus the other classes on valid/unset; depth 3 = 4x4x4x4 "
             "settings x 4 environments; every case with decoy variables under every other "
             "spelling of the name, sibling fields of other settings, and the history build, load, assign, load, rebuilding "
             "load, assign, invalid assign, invalid load, reset, load, build; three construction styles (Schema.__getattr__, "
             "assigned Schema(env=), schema['a.b.f'] = field). Plus, at depth 1-3 and four ways of binding, fields whose "
             "validation of the variable's text raises ValueError / TypeError / KeyError / ZeroDivisionError / OSError / a "
             "custom Exception subclass, through a `validator=` callable and through a Field subclass's _validate: "
             "construction must raise ValidationError with the field's dotted path. Plus environment changes between "
             "constructions of one schema (set, changed, unset, emptied, made invalid, valid again; 3 scripts x depth 1-3 x "
             "4 bindings x 7 classes), every construction judged against the environment of that moment; is_value_defined "
             "of every field after each construction and reset (C12's clause). Plus schemas constructed with a key= of "
             "their own (root key 'myapp', nested Schema(key=...) renamed on attach) under every root / innermost-schema "
             "setting: the key starts the error paths, never the names; and the sensitive= flag on every field class "
             "(SecureField included, sensitive by default) bound six ways at depth 1-3: it plays no part in the binding. "
             "Then seeded random cases: depth <= 6, mixed-case and odd "
             "names, empty names, random sibling schemas, random histories and boundary strings for int()/bool. "
             "non-trivial = some field of the schema is bound or the root has a setting; distinct = distinct case"),
    "trusted_base": [KERNEL, "Print Assumptions: closed under the global context (no axioms)", TIE, HARNESS,
                     "modelled, not verified: str.upper (arbitrary function in the theorems, ASCII map in the executable "
                     "model); the validators of the six field classes used by the stream; os.environ as a constant "
                     "association list patched in per case"],
    "assumptions": ["the process environment changes only immediately before a construction, not between a construction and the "
                    "later loads / resets of that configuration (load_tree re-reads os.environ at load time; a variable that "
                    "appears or disappears while a configuration is in use is outside the model)",
                    "schemas are built top-down (a sub-schema is attached to its parent before fields are added to it), as the "
                    "property's quantifier says; a schema populated before it is attached computes names from its own prefix only",
                    "keys are ASCII in the correspondence stream (str.upper of other code points is outside the executable model)",
                    "constructor keyword data (Config(schema, key=value)) bypasses __setdefault__ and is not in the operation alphabet",
                    "defaults are valid values of their field (load_tree's final validate() is not modelled)"],
}
