from registry import KERNEL, TIE, HARNESS
PROP = "C12"
SPEC = {
    "manifest": {"technique": 'machine-checked proof in Coq (default-mark algebra of store / reset over the configuration model, fresh-configuration theorems) + model/implementation correspondence by vm_compute',
                 "text": "Theorems in coq/theories/ConfigLemmas.v for all schemas, states and values: a fresh configuration marks every declared key as default and exposes the declared default (callable defaults evaluated per build through a call counter); an accepted assignment is exactly `store`: the key becomes user-defined, reads back the stored value, no other key's value or mark changes, object identity kept (store_spec, set_value_ok); a rejected assignment changes nothing (set_value_err); reset restores default value and mark and touches nothing else (reset_spec). Tied to the code by comparing values and _default_value_keys of every (sub)configuration after every step of random histories, plus a direct oracle on is_value_defined semantics.",
                 "note": 'Trusted: Coq kernel + vm_compute; harness. Virtual and instance-method fields hold no value and are outside the model (finding F27 region). No axioms.',
                 "design_ref": "DESIGN.md section 6 C12"},
    "streams": ['co12', 'defaults', 'configfields', 'env'],
    # of the environment stream (C14) the C12 clause: a loaded value makes the field user-defined / is not silently dropped
    "stream_filters": {"env": r"^value: op \d+ \(load\)"},
    "witnesses": [],
    "rule": 'as C06, with reset-heavy histories; stream configfields: the same kinds of histories (set by attribute / dotted path / constructor keyword, load_tree, reset, validate, append / item assignment) over schemas whose leaves are ALL field classes of the field model Fields.v (strings with every option, ints / ports, floats, bools / flags, IPv4 address / network, host names, bytes, untyped and typed lists / dicts) mixed with nested schemas, config types and lists of configurations -- a fixed 19-field schema x ~330 curated single operations, a seed-chosen slice of ordered pairs, then random schemas; values from the boundary pools of the `fields` stream; compared with ConfigFields.v (run_configfields) after every step, with the property\'s own direct oracle',
    "trusted_base": [KERNEL, "Print Assumptions: closed under the global context (no axioms)", TIE, HARNESS,
                      "modelled, not verified: leaf fields are opaque in Config.v (Section variables lvalidate / lto_python / lto_basic / ldefault); "
                      "the correspondence instantiates them with the concrete IntField / StringField / BoolField / FeatureFlagField / AnyField model "
                      "of ConfigInst.v; schema validators come from a fixed vocabulary (a string field must differ from a given text)",
                      "not in the operation alphabet: assigning Config objects (only plain data), aliasing one object in two places, environment bindings (C14)"],
    "assumptions": ['callable defaults used by the harness are counters (fresh value per evaluation)'],
}
