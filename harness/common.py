"""
Shared machinery of the correspondence harness.

 * Python value -> Gallina `pyval` literal (`gal`)
 * case files: `build/cases/<name>_<k>.v`, evaluated by coqc with vm_compute; Coq itself compares the
   model's observation with the implementation's and prints only the indices that differ
 * proof obligations: incremental `make` of /verif/coq and a fresh `coqc` of Props/Cxx.v whose
   `Print Assumptions` output is parsed
 * evidence / replay / VIOLATION protocol
"""
import concurrent.futures
import hashlib
import json
import math
import os
import re
import struct
import subprocess
import sys
import time

VERIF = os.path.dirname(os.path.dirname(os.path.abspath(__file__)))
COQ = os.path.join(VERIF, "coq")
BUILD = os.path.join(VERIF, "build")
CASES_DIR = os.path.join(BUILD, "cases")
EVIDENCE = os.environ.get("VERIF_EVIDENCE_DIR") or os.path.join(VERIF, "evidence")
REPLAYS = os.environ.get("VERIF_REPLAYS_DIR") or os.path.join(VERIF, "replays")
COQ_TIMEOUT = 600
JOBS = int(os.environ.get("VERIF_JOBS", "0")) or max(2, min(16, (os.cpu_count() or 4)))


class Broken(Exception):
    """the toolchain (not the property) is broken: exit 2, never a VIOLATION line"""


# ---------------------------------------------------------------------------------------------
# Python -> Gallina
# ---------------------------------------------------------------------------------------------
class Raw(str):
    """a ready-made Gallina term"""


class Proxy:
    """a ListProxy/DictProxy value: typed container of field `fid`"""
    def __init__(self, fid, items):
        self.fid, self.items = fid, items


class Digest:
    def __init__(self, salt, digest, alg):
        self.salt, self.digest, self.alg = salt, digest, alg


class Other:
    def __init__(self, tag):
        self.tag = tag


_SAFE = set(range(32, 127)) - {ord('"')}


def g_str(s):
    cps = [ord(c) for c in s]
    if all(c in _SAFE for c in cps):
        return '(sa "%s")' % s
    return "(s_ [%s])" % ";".join(map(str, cps))


def g_bytes(b):
    return '(hx "%s")' % bytes(b).hex()


def g_z(n):
    return "(%d)" % n if n < 0 else "%d" % n


def g_n(n):
    return "(n_ %d)" % n


def g_bool(b):
    return "true" if b else "false"


def g_opt(v, f):
    return "None" if v is None else "(Some %s)" % f(v)


def g_list(items, f=lambda x: x):
    return "[%s]" % ";".join(f(i) for i in items)


def g_float(x):
    """binary64 -> canonical SpecFloat.spec_float literal"""
    bits = struct.unpack(">Q", struct.pack(">d", x))[0]
    sign = bits >> 63
    e = (bits >> 52) & 0x7FF
    frac = bits & ((1 << 52) - 1)
    s = "true" if sign else "false"
    if e == 0x7FF:
        return "S754_nan" if frac else "(S754_infinity %s)" % s
    if e == 0:
        if frac == 0:
            return "(S754_zero %s)" % s
        return "(S754_finite %s %d%%positive (-1074))" % (s, frac)
    return "(S754_finite %s %d%%positive (%d))" % (s, frac + (1 << 52), e - 1075)


def gal(v):
    """Python value -> Gallina term of type pyval"""
    if isinstance(v, Raw):
        return str(v)
    if v is None:
        return "PNone"
    if v is True or v is False:
        return "(PBool %s)" % g_bool(v)
    if isinstance(v, int):
        return "(PInt %s)" % g_z(v)
    if isinstance(v, float):
        return "(PFloat %s)" % g_float(v)
    if isinstance(v, str):
        return "(PStr %s)" % g_str(v)
    if isinstance(v, (bytes, bytearray)):
        return "(PBytes %s)" % g_bytes(v)
    if isinstance(v, Proxy):
        if isinstance(v.items, dict):
            return "(PDict %s [%s])" % (g_n(v.fid + 1), ";".join("(%s,%s)" % (gal(k), gal(x)) for k, x in v.items.items()))
        return "(PList %s [%s])" % (g_n(v.fid + 1), ";".join(gal(x) for x in v.items))
    if isinstance(v, list):
        return "(PList 0%%N [%s])" % ";".join(gal(x) for x in v)
    if isinstance(v, tuple):
        return "(PTuple [%s])" % ";".join(gal(x) for x in v)
    if isinstance(v, dict):
        return "(PDict 0%%N [%s])" % ";".join("(%s,%s)" % (gal(k), gal(x)) for k, x in v.items())
    if isinstance(v, Digest):
        return "(PDigest %s %s %s)" % (g_bytes(v.salt), g_bytes(v.digest), g_n(v.alg))
    if isinstance(v, Other):
        return "(POther %s)" % g_n(v.tag)
    raise Broken("gal: cannot encode %r" % (type(v),))


def canon(v):
    """JSON-able canonical form of an observation (for evidence samples, distinct counting)"""
    if isinstance(v, float):
        return {"float": v.hex()}
    if isinstance(v, (bytes, bytearray)):
        return {"bytes": bytes(v).hex()}
    if isinstance(v, Proxy):
        return {"proxy": v.fid, "items": canon(v.items)}
    if isinstance(v, Digest):
        return {"digest": [v.salt.hex(), v.digest.hex(), v.alg]}
    if isinstance(v, Other):
        return {"other": v.tag}
    if isinstance(v, Raw):
        return {"raw": str(v)}
    if isinstance(v, tuple):
        return {"tuple": [canon(x) for x in v]}
    if isinstance(v, list):
        return [canon(x) for x in v]
    if isinstance(v, dict):
        return {"dict": [[canon(k), canon(x)] for k, x in v.items()]}
    return v


def uncanon(v):
    """inverse of canon (replay files)"""
    if isinstance(v, list):
        return [uncanon(x) for x in v]
    if isinstance(v, dict):
        if set(v) == {"float"}:
            return float.fromhex(v["float"])
        if set(v) == {"bytes"}:
            return bytes.fromhex(v["bytes"])
        if set(v) == {"tuple"}:
            return tuple(uncanon(x) for x in v["tuple"])
        if set(v) == {"dict"}:
            return {uncanon(k): uncanon(x) for k, x in v["dict"]}
        if set(v) == {"proxy", "items"}:
            return Proxy(v["proxy"], uncanon(v["items"]))
        if set(v) == {"digest"}:
            return Digest(bytes.fromhex(v["digest"][0]), bytes.fromhex(v["digest"][1]), v["digest"][2])
        if set(v) == {"other"}:
            return Other(v["other"])
        if set(v) == {"raw"}:
            return Raw(v["raw"])
        raise Broken("uncanon: %r" % (v,))
    return v


def digest_of(obj):
    return hashlib.sha1(json.dumps(canon(obj), sort_keys=True, default=str).encode()).hexdigest()


# ---------------------------------------------------------------------------------------------
# running the model inside Coq
# ---------------------------------------------------------------------------------------------
def sh(cmd, cwd=None, timeout=COQ_TIMEOUT, env=None):
    if env is None:
        # first touch of fresh memory is very expensive in this sandbox: keep coqc's heap small
        env = dict(os.environ, OCAMLRUNPARAM=os.environ.get("OCAMLRUNPARAM", "s=2M,o=80"))
    try:
        p = subprocess.run(cmd, cwd=cwd, shell=isinstance(cmd, str), capture_output=True, text=True,
                           timeout=timeout, env=env)
    except subprocess.TimeoutExpired:
        raise Broken("timeout: %s" % (cmd,))
    return p.returncode, p.stdout, p.stderr


def ensure_built():
    """full incremental .vo build of the Coq development (no -vos)"""
    rc, out, err = sh("./gen_project.sh", cwd=COQ)
    if rc or not os.path.exists(os.path.join(COQ, "Makefile")):
        raise Broken("gen_project.sh / coq_makefile failed: " + out + err)
    rc, out, err = sh("timeout 3000 make -j%d" % JOBS, cwd=COQ, timeout=3100)
    if rc:
        return False, (out + err)[-4000:]
    return True, ""


def check_theorems(prop):
    """compile Props/<prop>.v afresh; return (obligations, discharged, assumptions, log)"""
    path = os.path.join("theories", "Props", prop + ".v")
    src = open(os.path.join(COQ, path)).read()
    names = re.findall(r"^\s*Theorem\s+(\w+)", src, re.M)
    printed = re.findall(r"^\s*Print Assumptions\s+(\w+)", src, re.M)
    if not names or set(names) != set(printed):
        raise Broken("%s: every Theorem needs a Print Assumptions" % path)
    for bad in ("Admitted", "admit.", "Axiom ", "Parameter ", "Conjecture ", "Unset Guard", "bypass_check"):
        if bad in src:
            raise Broken("%s contains %r" % (path, bad))
    rc, out, err = sh(["coqc", "-Q", "theories", "Cinco", path], cwd=COQ)
    if rc:
        return names, [], {}, (out + err)[-4000:]
    # Print Assumptions output: either "Closed under the global context" or "Axioms:\n name : type ..."
    chunks = re.split(r"(?m)^(?=Closed under the global context|Axioms:)", out)
    chunks = [c for c in chunks if c.startswith("Closed") or c.startswith("Axioms:")]
    assumptions = {}
    discharged = []
    for name, ch in zip(printed, chunks):
        if ch.startswith("Closed"):
            assumptions[name] = []
            discharged.append(name)
        else:
            ax = re.findall(r"(?m)^(\S+)\s*:", ch[len("Axioms:"):])
            assumptions[name] = ax
            if all(a in ALLOWED_AXIOMS for a in ax):
                discharged.append(name)
    if len(chunks) != len(printed):
        return names, [], assumptions, "could not parse Print Assumptions output:\n" + out[-2000:]
    return names, discharged, assumptions, ""


# axioms of Coq's own standard library a theorem may rely on (named in DESIGN.md section 7)
ALLOWED_AXIOMS = {
    "functional_extensionality_dep", "FunctionalExtensionality.functional_extensionality_dep",
    "proof_irrelevance", "Classical_Prop.classic", "classic", "Eqdep.Eq_rect_eq.eq_rect_eq", "eq_rect_eq",
    "JMeq_eq", "JMeq.JMeq_eq", "propositional_extensionality",
}


def grep_forbidden():
    """no Admitted/admit/Axiom/... anywhere in the development"""
    bad = []
    pat = re.compile(r"\b(Admitted|admit|Axiom|Axioms|Parameter|Parameters|Conjecture|Admit Obligations)\b|Unset Guard|bypass_check|type-in-type|impredicative-set")
    for root, _, files in os.walk(os.path.join(COQ, "theories")):
        for f in files:
            if f.endswith(".v"):
                txt = open(os.path.join(root, f)).read()
                txt = re.sub(r"\(\*.*?\*\)", "", txt, flags=re.S)
                for m in pat.finditer(txt):
                    bad.append("%s: %s" % (f, m.group(0)))
    return bad


def run_cases(name, imports, run_fn, case_type, cases, shard=300):
    """
    cases: list of (gallina_case, gallina_expected_obs).  Returns (mismatch_indices, details)
    where details maps index -> Coq's printing of the model's observation.
    """
    os.makedirs(CASES_DIR, exist_ok=True)
    for f in os.listdir(CASES_DIR):
        if f.startswith(name + "_"):
            os.unlink(os.path.join(CASES_DIR, f))
    shard = max(40, min(shard, -(-len(cases) // max(1, JOBS))))     # at least one shard per job when there are enough cases
    shards = [cases[i:i + shard] for i in range(0, len(cases), shard)]
    jobs = []
    for k, sh_cases in enumerate(shards):
        mod = "%s_%d" % (name, k)
        path = os.path.join(CASES_DIR, mod + ".v")
        body = ";\n".join("(%s,\n %s)" % (c, e) for c, e in sh_cases)
        # intern repeated / long string literals as constants: elaborating a literal costs time
        # proportional to its term size, a reference to a constant costs nothing
        table = {}
        lit_re = re.compile(r'\((?:hx|sa) "[^"]*"\)')
        freq = {}
        for m in lit_re.finditer(body):
            freq[m.group(0)] = freq.get(m.group(0), 0) + 1

        def intern(m):
            lit = m.group(0)
            if len(lit) < 14 or freq[lit] * len(lit) < 160:
                return lit
            if lit not in table:
                table[lit] = "lit%d_" % len(table)
            return table[lit]
        body = lit_re.sub(intern, body)
        with open(path, "w") as fp:
            fp.write("From Coq Require Import ZArith NArith String List Bool SpecFloat.\n")
            fp.write(imports + "\nImport ListNotations.\nOpen Scope string_scope.\nOpen Scope Z_scope.\n")
            for lit, nm in table.items():
                fp.write("Definition %s := Eval vm_compute in %s.\n" % (nm, lit))
            fp.write("Definition cases : list (%s * pyval) := [\n" % case_type)
            fp.write(body)
            fp.write("\n].\n")
            fp.write("Definition bad := Eval vm_compute in mismatches %s cases.\n" % run_fn)
            fp.write("Print bad.\n")
            fp.write("Eval vm_compute in model_outputs %s (firstn 3 bad) cases.\n" % run_fn)
        jobs.append((k, path))

    def one(job):
        k, path = job
        rc, out, err = sh(["coqc", "-noglob", "-Q", os.path.join(COQ, "theories"), "Cinco", path],
                          cwd=CASES_DIR)
        return k, rc, out, err

    mism, details = [], {}
    with concurrent.futures.ThreadPoolExecutor(max_workers=JOBS) as ex:
        for k, rc, out, err in ex.map(one, jobs):
            if rc:
                raise Broken("coqc failed on case shard %s_%d:\n%s" % (name, k, (out + err)[-3000:]))
            flat = " ".join(out.split())
            m = re.search(r"bad = \[(.*?)\]\s*:\s*list nat", flat)
            if not m:
                if re.search(r"bad = nil", flat):
                    idx = []
                else:
                    raise Broken("cannot parse coqc output for shard %s_%d:\n%s" % (name, k, out[-2000:]))
            else:
                idx = [int(x) for x in re.findall(r"\d+", m.group(1))]
            base = k * shard
            if idx:
                tail = out[out.find("Print") if False else 0:]
                details[base + idx[0]] = out[-6000:]
            mism.extend(base + i for i in idx)
    return mism, details


# ---------------------------------------------------------------------------------------------
# evidence / verdict
# ---------------------------------------------------------------------------------------------
def write_evidence(prop, data):
    os.makedirs(EVIDENCE, exist_ok=True)
    with open(os.path.join(EVIDENCE, prop + ".json"), "w") as fp:
        json.dump(data, fp, indent=1, default=str)
        fp.write("\n")


def write_replay(prop, seed, n, data):
    os.makedirs(REPLAYS, exist_ok=True)
    path = os.path.join(REPLAYS, "%s-%s-%d.json" % (prop, seed, n))
    with open(path, "w") as fp:
        json.dump(data, fp, indent=1, default=str)
        fp.write("\n")
    return path


def run_coqchk(prop):
    """thorough tier: re-check Props/<prop>.vo and everything it depends on with the independent checker;
    returns (ok, axioms, summary_text)"""
    rc, out, err = sh(["coqchk", "-silent", "-o", "-Q", "theories", "Cinco", "Cinco.Props." + prop], cwd=COQ, timeout=3000)
    txt = out + err
    m = re.search(r"\* Axioms:(.*?)\n\s*\n\* Constants/Inductives relying on type-in-type:(.*?)\n\s*\n\* Constants/Inductives relying on unsafe \(co\)fixpoints:(.*?)\n\s*\n\* Inductives whose positivity is assumed:(.*?)\n", txt, re.S)
    if rc or not m:
        return False, [], txt[-2000:]
    axioms = [a.strip() for a in m.group(1).split("\n") if a.strip() and a.strip() != "<none>"]
    unsafe = [x.strip() for g in (m.group(2), m.group(3), m.group(4)) for x in g.split("\n") if x.strip() and x.strip() != "<none>"]
    ok = not unsafe and all(a.split()[0] in ALLOWED_AXIOMS or a.split(".")[-1] in ALLOWED_AXIOMS for a in axioms)
    return ok, axioms + unsafe, txt[txt.find("CONTEXT SUMMARY"):][:1500]
