"""
stream `alias` (C13): several live configurations of one schema with mutable defaults at several
nesting levels, histories of assignments / loads / resets / in-place container mutations / dynamic
field additions on one of them; compared with the heap model Alias.v (`run_alias`).

Observation (model and implementation): deep snapshot of every configuration (walking `_data`), of
every schema default object and the field names of the schema, after the history.
Oracle (implementation only): after every event every *other* configuration, every default, the
field table and the field options are what they were before; no mutable container object
reachable from one configuration is reachable (by `is`) from another one or from a default.
"""
import copy

from common import gal, g_str, Broken

NAME = "alias"
IMPORTS = "From Cinco Require Import Base Alias."
RUN = "run_alias"
CASE_TYPE = "(fld * list xevent)"


# ---------------------------------------------------------------------------------------------
# schema text (plain data)
#   ("any", dflt, hint)               hint: "int" | "str" | "bare"
#   ("list", item | None, dflt)
#   ("dict", val | None, dflt)        typed: DictField(StringField(), val)
#   ("sub", dyn, [(name, spec)], kind, sid)   kind: "schema" | "ct"; one sid = one Python object
#   dflt: None | ("tree", t) | ("call", t) | ("cfgs", [t, ...])
# ---------------------------------------------------------------------------------------------
class CfgS(dict):
    """generator-side shadow of a configuration object"""


def has_cfgs(spec):
    k = spec[0]
    if k == "sub":
        return any(has_cfgs(f) for _, f in spec[2])
    d = spec[2] if k in ("list", "dict") else spec[1]
    if d is not None and d[0] == "cfgs":
        return True
    if k in ("list", "dict") and spec[1] is not None:
        return has_cfgs(spec[1])
    return False


def dflt_of(spec):
    return spec[2] if spec[0] in ("list", "dict") else spec[1]


def default_shadow(spec):
    """what a fresh configuration holds for this field (generator aid only)"""
    k = spec[0]
    if k == "sub":
        return CfgS((n, default_shadow(f)) for n, f in spec[2])
    d = dflt_of(spec)
    if d is None:
        return None
    if d[0] == "cfgs":
        return [shadow_of(spec[1], t) for t in d[1]]
    return shadow_of(spec, d[1])          # tree / call / tmpl


def shadow_of(spec, t):
    if spec is None:
        return copy.deepcopy(t)
    k = spec[0]
    if k == "sub" and isinstance(t, dict):
        c = default_shadow(spec)
        for n, f in spec[2]:
            if n in t:
                c[n] = shadow_of(f, t[n])
        for n in t:
            if n not in c:
                c[n] = copy.deepcopy(t[n])
        return c
    if k == "list" and isinstance(t, list):
        return [shadow_of(spec[1], x) for x in t]
    if k == "dict" and isinstance(t, dict):
        return {kk: shadow_of(spec[1], x) for kk, x in t.items()}
    return copy.deepcopy(t)


def targets(val, spec, path, out):
    k = spec[0] if spec else None
    if k == "sub":
        if isinstance(val, CfgS):
            out.append((path, "cfg", spec))
            for n, f in spec[2]:
                if n in val:
                    targets(val[n], f, path + [("a", n)], out)
    elif isinstance(val, CfgS):
        return
    elif isinstance(val, list):
        item = spec[1] if k == "list" else None
        out.append((path, "list", item))
        for i, x in enumerate(val):
            targets(x, item, path + [("i", i)], out)
    elif isinstance(val, tuple):
        for i, x in enumerate(val):
            targets(x, None, path + [("i", i)], out)
    elif isinstance(val, dict):
        vs = spec[1] if k == "dict" else None
        out.append((path, "dict", vs))
        for kk, x in val.items():
            targets(x, vs, path + [("k", kk)], out)


def sh_nav(sh, path):
    for s in path:
        try:
            if s[0] == "a":
                if not isinstance(sh, CfgS):
                    return None
                sh = sh[s[1]]
            elif s[0] == "i":
                if not isinstance(sh, (list, tuple)):
                    return None
                sh = sh[s[1]]
            else:
                if not isinstance(sh, dict) or isinstance(sh, CfgS):
                    return None
                sh = sh[s[1]]
        except (KeyError, IndexError, TypeError):
            return None
    return sh


def spec_nav(spec, path):
    """the field spec governing the object at `path` (None = untyped region)"""
    for s in path:
        if spec is None:
            return None
        k = spec[0]
        if s[0] == "a" and k == "sub":
            spec = dict(spec[2]).get(s[1])
        elif s[0] == "i" and k == "list":
            spec = spec[1]
        elif s[0] == "k" and k == "dict":
            spec = spec[1]
        else:
            spec = None
    return spec


def sh_apply(sh, spec, op):
    """keep the generator's shadow roughly in step (never used as an oracle)"""
    kind, path = op[0], op[1]
    tgt = sh_nav(sh, path)
    sp = spec_nav(spec, path)
    if tgt is None:
        return
    if kind == "secload":
        kind, op = "set", ("set", op[1], op[2], op[3])
    if kind == "incload":
        kind, op = "load", ("load", op[1], op[2])
    if kind in ("set", "reset", "load") and isinstance(tgt, CfgS) and sp and sp[0] == "sub":
        fields = dict(sp[2])
        if kind == "set":
            if op[2] in fields:
                tgt[op[2]] = shadow_of(fields[op[2]], op[3])
            elif sp[1]:
                tgt[op[2]] = copy.deepcopy(op[3])
        elif kind == "reset":
            if op[2] in fields:
                tgt[op[2]] = default_shadow(fields[op[2]])
        else:
            for n, t in op[2].items():
                if n in fields:
                    tgt[n] = shadow_of(fields[n], t)
                elif sp[1]:
                    tgt[n] = copy.deepcopy(t)
    elif kind == "append" and isinstance(tgt, list):
        tgt.append(shadow_of(sp[1] if sp and sp[0] == "list" else None, op[2]))
    elif kind == "setitem" and isinstance(tgt, list) and op[2] < len(tgt):
        tgt[op[2]] = shadow_of(sp[1] if sp and sp[0] == "list" else None, op[3])
    elif kind == "dset" and isinstance(tgt, dict) and not isinstance(tgt, CfgS):
        tgt[op[2]] = shadow_of(sp[1] if sp and sp[0] == "dict" else None, op[3])


# ---------------------------------------------------------------------------------------------
# generators
# ---------------------------------------------------------------------------------------------
KEYS = ["a", "b", "k"]


def rand_tree(rng, depth=0):
    r = rng.random()
    if depth >= 2 or r < 0.35:
        return rng.choice([0, 1, 2, 7, "s", "t", None, True])
    if r < 0.6:
        return [rand_tree(rng, depth + 1) for _ in range(rng.randint(0, 2))]
    if r < 0.85:
        return {rng.choice(KEYS): rand_tree(rng, depth + 1) for _ in range(rng.randint(0, 2))}
    return tuple(rand_tree(rng, depth + 1) for _ in range(rng.randint(1, 2)))


# leaf hints: which built-in field class stands behind an FAny of the model (the model stores the value as given,
# so every hint only ever receives values its class stores unchanged)
NONE_ONLY = ("challenge", "bytes", "filename", "float", "include-none", "include-dir")   # option-carrying classes, value stays None
LEAF_HINTS = ["int", "str", "int", "bare", "intb", "strn", "secure-best", "secure-xor", "secure-aes", "port", "bool", "url",
              "challenge", "bytes", "filename", "float", "include-none", "include-dir", "choice", "loglevel", "appmode"]
CHOICES = {"choice": ["b", "c", "a"], "loglevel": ["debug", "info", "warning", "error", "critical"], "appmode": ["prod", "dev", "test"]}
# a value the leaf's own validation rejects (the model's FAny has no validation: such operations are no-ops there)
REJECT = {"choice": "zz", "loglevel": "zz", "appmode": "zz", "intb": 1000, "port": 0, "strn": "ZZ9"}
_CASE_DIR = [None]        # per-case temp dir (include files, startdir of include-dir fields); set and removed by impl()


def leaf_value(rng, hint):
    if hint in ("int", "intb", "bare"):
        return rng.randint(0, 9)
    if hint == "port":
        return rng.randint(1, 9)
    if hint in ("str", "strn") or hint.startswith("secure"):
        return rng.choice(["s", "t", "uv"])
    if hint in CHOICES:
        return rng.choice(CHOICES[hint])
    if hint == "bool":
        return rng.random() < 0.5
    if hint == "url":
        return rng.choice(["http://a.b/", "https://c.d/x"])
    return None


def gen_value(rng, spec, depth=0):
    if spec is None:
        return rand_tree(rng, depth)
    k = spec[0]
    if k == "any":
        if spec[2] == "bare":
            return rand_tree(rng, 1)
        return leaf_value(rng, spec[2])
    if k == "list":
        return [gen_value(rng, spec[1], depth + 1) for _ in range(rng.randint(0 if depth else 1, 2))]
    if k == "dict":
        return {rng.choice(KEYS): gen_value(rng, spec[1], depth + 1) for _ in range(rng.randint(0 if depth else 1, 2))}
    out = {}
    for n, f in spec[2]:
        if rng.random() < 0.6:
            out[n] = gen_value(rng, f, depth + 1)
    if spec[1] and rng.random() < 0.3:
        out["x9"] = rng.randint(0, 9)
    return out


def gen_dflt(rng, spec_wo_default):
    r = rng.random()
    if r < 0.15:
        return None
    t = gen_value(rng, spec_wo_default)
    if r < 0.25:
        return ("call", t)
    if r < 0.35:
        return ("tmpl", t)       # default=lambda: TEMPLATE -- the callable hands out the same object every time
    return ("tree", t)


def gen_leaf(rng, hint=None):
    hint = hint or rng.choice(LEAF_HINTS)
    r = rng.random()
    v = leaf_value(rng, hint)
    if hint in NONE_ONLY or v is None:
        return ("any", None, hint)
    if r < 0.2:
        d = None
    elif r < 0.9 or hint != "bare":
        d = ("tree", v)
    else:
        d = ("call", [v])          # a bare Field with a callable default: fresh per configuration
    return ("any", d, hint)


def gen_item(rng, subs, depth):
    """item / value field of a typed container (its own default is never used)"""
    r = rng.random()
    if r < 0.12:
        return ("any", None, "int", "shared1")       # ONE IntField object used as the item field of several lists / dicts
    if r < 0.3:
        return ("any", None, rng.choice(["int", "str", "choice"]))
    if r < 0.45:
        return ("dict", None, None)
    if r < 0.6:
        return ("list", None, None)
    if r < 0.72:
        return ("list", ("any", None, "int"), None)
    if r < 0.82:
        return ("dict", ("any", None, "int"), None)
    return gen_sub(rng, subs, depth + 1, item=True)


def gen_sub(rng, subs, depth, item=False):
    if item and subs["made"] and rng.random() < 0.5:
        return rng.choice(subs["made"])          # the same schema / config type as item type again
    subs["n"] += 1
    sid = subs["n"]
    fields = []
    for i in range(rng.randint(1, 3)):
        fields.append(("f%d" % i, gen_field(rng, subs, depth + 1)))
    dyn = rng.random() < 0.25
    kind = rng.choice(["schema", "ct"]) if item else "schema"
    sp = ("sub", dyn, fields, kind, sid)
    if item:
        subs["made"].append(sp)
    return sp


def gen_field(rng, subs, depth):
    r = rng.random()
    if r < 0.2 or depth >= 3:
        return gen_leaf(rng)
    if r < 0.35:
        return ("list", None, gen_dflt(rng, ("list", None, None)))
    if r < 0.6:
        it = gen_item(rng, subs, depth) if depth < 2 else ("any", None, "int")
        sp = ("list", it, None)
        d = gen_dflt(rng, sp)
        if it[0] == "sub" and d is not None and d[0] == "tree" and rng.random() < 0.04:
            d = ("cfgs", d[1])                   # Config OBJECTS inside the default: open finding F46
        return ("list", it, d)
    if r < 0.72:
        return ("dict", None, gen_dflt(rng, ("dict", None, None)))
    if r < 0.85:
        vf = rng.choice([("any", None, "int"), ("list", None, None), ("list", ("any", None, "int"), None),
                         ("dict", None, None), ("dict", ("any", None, "int"), None), ("list", ("any", None, "int", "shared1"), None)])
        return ("dict", vf, gen_dflt(rng, ("dict", vf, None)))
    if r < 0.93 and depth < 2:
        return gen_sub(rng, subs, depth)
    if subs["made"]:
        m = rng.choice(subs["made"])
        if m[3] == "ct":
            return m                              # config type as a field
    return gen_leaf(rng)


def gen_schema(rng):
    subs = {"n": 0, "made": []}
    fields = [("g%d" % i, gen_field(rng, subs, 0)) for i in range(rng.randint(2, 5))]
    return ("sub", rng.random() < 0.3, fields, "schema", 0)


def gen_op(rng, spec, sh):
    out = []
    targets(sh, spec, [], out)
    path, kind, sp = rng.choice(out)
    if rng.random() < 0.03:
        path = path + [rng.choice([("i", 5), ("k", "zz"), ("a", "nope")])]      # a path that does not resolve
    if kind == "cfg":
        names = [n for n, _ in sp[2]]
        fields = dict(sp[2])
        r = rng.random()
        if rng.random() < 0.07:
            bad = bad_op(rng, path, sp)
            if bad is not None:
                return bad
        rej = [(n, f) for n, f in sp[2] if f[0] == "any" and f[2] in REJECT]
        if rej and rng.random() < 0.1:
            n, f = rng.choice(rej)
            return ("badleaf", path, n, REJECT[f[2]], rng.choice(["set", "load", "loads"]))
        if path == [] and rng.random() < 0.15:
            inc = gen_incload(rng, spec)
            if inc is not None:
                return inc
        if r < 0.45:
            n = rng.choice(names)
            return ("set", path, n, gen_value(rng, fields[n]))
        if r < 0.6:
            n = rng.choice(names + (["x1"] if sp[1] else []))
            return ("reset", path, n)
        if r < 0.8:
            t = gen_value(rng, sp)
            return ("load", path, t)
        secs = [n for n, f in sp[2] if f[0] == "any" and f[2].startswith("secure")]
        if secs and r < 0.9:
            # a document whose secret was written with another method than the field declares
            return ("secload", path, rng.choice(secs), rng.choice(["s", "t", "uv"]), rng.choice(["xor", "aes"]))
        if sp[1] or r < 0.83:
            return ("set", path, rng.choice(["x1", "x2"]), rand_tree(rng, 1))   # dynamic field (or AttributeError)
        n = rng.choice(names)
        return ("set", path, n, gen_value(rng, fields[n]))
    if kind == "list":
        cur = sh_nav(sh, path)
        n = len(cur) if isinstance(cur, list) else 0
        if sp is not None and sp[0] == "any" and sp[2] in REJECT and rng.random() < 0.15:
            return ("badleaf", path, None, REJECT[sp[2]], "append")
        if sp is not None and sp[0] == "sub" and rng.random() < 0.07:
            return ("badappend", path, rng.choice([5, "s", [1], None]))      # not a configuration: ValueError
        if rng.random() < 0.6 or n == 0:
            return ("append", path, gen_value(rng, sp))
        return ("setitem", path, rng.randint(0, n if rng.random() < 0.1 else n - 1), gen_value(rng, sp))
    if sp is not None and sp[0] == "any" and sp[2] in REJECT and rng.random() < 0.15:
        return ("badleaf", path, "k", REJECT[sp[2]], "dset")
    return ("dset", path, rng.choice(KEYS), gen_value(rng, sp))


def include_sites(spec, pre=()):
    """(path of sub-schema keys, field name, hint) of every IncludeField that Config.loads processes: root and plain nested schemas"""
    out = []
    for n, f in spec[2]:
        if f[0] == "any" and f[2].startswith("include"):
            out.append((list(pre), n, f[2]))
        elif f[0] == "sub" and f[3] == "schema":
            out += include_sites(f, pre + (n,))
    return out


def detuple(t):
    if isinstance(t, (list, tuple)):
        return [detuple(x) for x in t]
    if isinstance(t, dict):
        return {k: detuple(x) for k, x in t.items()}
    return t


def strip_inc(tree, spec):
    """the tree without the keys of include fields (at every sub-schema level)"""
    if not isinstance(tree, dict) or spec is None or spec[0] != "sub":
        return tree
    fields = dict(spec[2])
    out = {}
    for k, v in tree.items():
        f = fields.get(k)
        if f is not None and f[0] == "any" and f[2].startswith("include"):
            continue
        out[k] = strip_inc(v, f) if f is not None and f[0] == "sub" and f[3] == "schema" else v
    return out


def spec_include(spec, doc, incs, pre=()):
    """what Config.loads makes of `doc` when the include field at each site names a file holding the site's tree:
    includes of one level in field order (the included tree wins, maps merge), then the sub-schemas -- written from
    the documentation, with the independent deep merge of s_merge.py"""
    from s_merge import spec_merge
    tree = dict(doc)
    for n, f in spec[2]:
        if f[0] == "any" and f[2].startswith("include"):
            for sp_, name, _h, child in incs:
                if tuple(sp_) == tuple(pre) and name == n:
                    tree = spec_merge(tree, child)
    for n, f in spec[2]:
        if f[0] == "sub" and f[3] == "schema" and isinstance(tree.get(n), dict):
            tree[n] = spec_include(f, tree[n], incs, pre + (n,))
    return tree


def gen_incload(rng, spec):
    sites = include_sites(spec)
    if not sites:
        return None
    chosen = rng.sample(sites, min(len(sites), rng.choice([1, 1, 2])))
    doc = strip_inc(detuple(gen_value(rng, spec)), spec)
    incs = []
    for sp_, name, hint in chosen:
        sub = spec
        node = doc
        ok = True
        for k in sp_:
            sub = dict(sub[2])[k]
            if not isinstance(node.get(k), dict):
                node[k] = {}
            node = node[k]
        child = strip_inc(detuple(gen_value(rng, sub)), sub)
        incs.append((sp_, name, hint, child))
    # the document names the file under the include key; only the position of the key matters for the expectation
    marked = copy.deepcopy(doc)
    merged = strip_inc(spec_include(spec, marked, incs), spec)
    return ("incload", [], merged, rng.choice(["a", "b"]), rng.choice(["rel", "rel", "abs"]), doc, incs)


def inc_schema():
    sub = ("sub", False, [("inc", ("any", None, "include-none")), ("x", ("any", ("tree", 1), "int")),
                          ("u", ("list", None, ("tree", [1])))], "schema", 2)
    fields = [("inc", ("any", None, "include-none")), ("inc2", ("any", None, "include-dir")), ("n", ("any", ("tree", 3), "int")),
              ("l", ("list", ("any", None, "int"), ("tree", [1]))), ("d", ("dict", None, ("tree", {"k": 1}))), ("sub", sub)]
    return ("sub", False, fields, "schema", 0)


def bad_values(f):
    """values the field of this kind rejects, on assignment and (second list) in a loaded tree; [] = none modelled"""
    if f[0] == "sub":
        return [5, "s", [1], None], [5, "s", [1], None]
    if f[0] == "list":
        return [5, "s", {"a": 1}], [5]
    if f[0] == "dict":
        return [5, "s", [1]], [5]
    return [], []


def bad_op(rng, path, sp):
    """an assignment / load the library rejects; the error is attached to the field's key (a sub-schema, a list / dict
    field) -- the model stores nothing"""
    cands = [(n, f) for n, f in sp[2] if f[0] != "any"]
    if not cands:
        return None
    subs = [(n, f) for n, f in cands if f[0] == "sub"]
    n, f = rng.choice(subs) if subs and rng.random() < 0.6 else rng.choice(cands)
    on_set, on_load = bad_values(f)
    if rng.random() < 0.6:
        return ("badset", path, n, rng.choice(on_set))
    return ("badload", path, {n: rng.choice(on_load)})


def err_schema():
    """sub-configurations at the root, nested, in a list item and as a config type; list and dict fields"""
    inner = ("sub", False, [("x", ("any", ("tree", 1), "int"))], "schema", 3)
    it_s = ("sub", False, [("n", ("any", ("tree", 0), "int")), ("deep", ("sub", False, [("y", ("any", ("tree", 2), "int"))], "schema", 5))],
            "schema", 4)
    ct = ("sub", False, [("w", ("any", ("tree", 1), "int")), ("cs", ("sub", False, [("z", ("any", None, "str"))], "schema", 7))], "ct", 6)
    fields = [
        ("db", ("sub", False, [("port", ("any", ("tree", 8), "port")), ("inner", inner)], "schema", 2)),
        ("ct", ct),
        ("items", ("list", it_s, ("tree", [{"n": 1}]))),
        ("cts", ("list", ct, ("tree", [{}]))),
        ("l", ("list", ("any", None, "int"), ("tree", [1]))),
        ("u", ("list", None, ("tree", [1]))),
        ("d", ("dict", None, ("tree", {"k": 1}))),
        ("td", ("dict", ("any", None, "int"), ("tree", {"k": 1}))),
    ]
    return ("sub", False, fields, "schema", 0)


READS = ["to_tree", "dumps", "asdict", "validate", "get_all_fields"]


def scalar_item(f):
    """fields whose assigned value the proxy constructor copies completely: typed list / dict of scalars, scalars"""
    if f[0] == "any":
        return f[2] in ("int", "str")
    return f[0] in ("list", "dict") and f[1] is not None and f[1][0] == "any"


def gen_cross(rng, spec, shadows, i):
    """cfg_i<p>.k = cfg_j<p>.k for a field whose value is copied on assignment; None if there is none"""
    others = [j for j in range(len(shadows)) if j != i]
    if not others:
        return None
    j = rng.choice(others)
    out = []
    targets(shadows[i], spec, [], out)
    cands = []
    for path, kind, sp in out:
        if kind == "cfg" and isinstance(sh_nav(shadows[j], path), CfgS):
            for n, f in sp[2]:
                if scalar_item(f):
                    cands.append((path, n))
    if not cands:
        return None
    path, n = rng.choice(cands)
    return ("cross", i, j, path, n)


def gen_cross_field(rng, spec, shadows, i):
    """cfg_i<p>.k = cfg_j<ps>.ks between two DIFFERENT list / dict fields that use the same item field object / item
    schema / config type: same configuration (any shared item type) or another one (scalar items only)"""
    out = []
    targets(shadows[i], spec, [], out)
    fields = []
    for path, kind, sp in out:
        if kind == "cfg" and not any(s_[0] == "i" for s_ in path):
            for n, f in sp[2]:
                if f[0] in ("list", "dict") and f[1] is not None and (f[1][0] == "sub" or (f[1][0] == "any" and len(f[1]) > 3)):
                    fields.append((path, n, f))
    pairs = [(a, b) for a in fields for b in fields if a is not b and a[2][0] == b[2][0] and a[2][1] == b[2][1]]
    if not pairs:
        return None
    (path, n, f), (spath, sn, _f) = rng.choice(pairs)
    j = i
    if f[1][0] == "any" and len(shadows) > 1 and rng.random() < 0.5:
        j = rng.choice([x for x in range(len(shadows)) if x != i])
    return ("cross", i, j, path, n, spath, sn)


def gen_xupdate(rng, spec, shadows, i):
    """cfg_i<p>.k.update(cfg_j<p>.k) / |= for a typed dict whose values are scalars or typed containers of scalars"""
    others = [j for j in range(len(shadows)) if j != i]
    if not others:
        return None
    j = rng.choice(others)
    out = []
    targets(shadows[i], spec, [], out)
    cands = []
    for path, kind, sp in out:
        if kind == "cfg" and isinstance(sh_nav(shadows[j], path), CfgS):
            for n, f in sp[2]:
                if f[0] == "dict" and f[1] is not None and (f[1][0] == "any" or scalar_item(f[1])) \
                        and isinstance(sh_nav(shadows[i], path + [("a", n)]), dict) and isinstance(sh_nav(shadows[j], path + [("a", n)]), dict):
                    cands.append((path, n))
    if not cands:
        return None
    path, n = rng.choice(cands)
    return ("xupdate", i, j, path, n, rng.choice(["update", "ior"]))


def sh_cross(shadows, spec, e):
    i, j, path, n = e[1:5]
    spath, sn = (e[5], e[6]) if (e[0] == "cross" and len(e) > 5) else (path, n)
    src = sh_nav(shadows[j], spath)
    dst = sh_nav(shadows[i], path)
    if isinstance(src, CfgS) and isinstance(dst, CfgS) and sn in src:
        if e[0] == "xupdate":
            if isinstance(dst.get(n), dict) and isinstance(src[sn], dict):
                dst[n].update(copy.deepcopy(src[sn]))
        else:
            dst[n] = copy.deepcopy(src[sn])


def gen_clone(rng, spec, shadows):
    """cfg_j<p>.load_tree(cfg_i<p>.to_tree()) (or through dumps/loads json)"""
    if len(shadows) < 2:
        return None
    i, j = rng.sample(range(len(shadows)), 2)
    out = []
    targets(shadows[i], spec, [], out)
    paths = [p for p, kind, sp in out if kind == "cfg" and isinstance(sh_nav(shadows[j], p), CfgS)
             and not any(s_[0] == "i" for s_ in p)]
    if not paths:
        return None
    path = [] if rng.random() < 0.7 else rng.choice(paths)
    return ("clone", i, j, path, rng.choice(["tree", "tree", "json"]))


def sh_clone(shadows, e):
    _, i, j, path, _v = e
    src = sh_nav(shadows[i], path)
    dst = sh_nav(shadows[j], path)
    if isinstance(src, CfgS) and isinstance(dst, CfgS):
        for k_, v_ in copy.deepcopy(src).items():
            dst[k_] = v_


def clone_schema():
    """kinds whose to_tree() is fresh at every depth (untyped containers hold scalars only)"""
    it_s = ("sub", False, [("v", ("list", None, ("tree", [1]))), ("w", ("dict", None, ("tree", {"k": 1})))], "schema", 1)
    fields = [
        ("d", ("dict", None, ("tree", {"k": 1, "z": "s"}))),
        ("u", ("list", None, ("tree", [1, 2]))),
        ("tld", ("list", ("dict", None, None), ("tree", [{"a": 1}]))),
        ("tl", ("list", ("any", None, "int"), ("tree", [1]))),
        ("td", ("dict", ("any", None, "int"), ("tree", {"k": 1}))),
        ("tdl", ("dict", ("list", None, None), ("tree", {"k": [1]}))),
        ("sub", ("sub", False, [("d", ("dict", None, ("tree", {"k": 1}))), ("l", ("list", None, ("call", [3])))], "schema", 2)),
        ("items", ("list", it_s, ("tree", [{"v": [5]}]))),
        ("n", ("any", ("tree", 3), "int")),
    ]
    return ("sub", True, fields, "schema", 0)


# the witness shapes of DESIGN.md 1.1 F30 / probes/camp6.py, plus tuples (F47) and a reused item type
def matrix_schema():
    it_s = ("sub", False, [("v", ("list", None, ("tree", [1]))), ("n", ("any", ("tree", 0), "int"))], "schema", 1)
    it_c = ("sub", True, [("w", ("dict", None, ("tree", {"k": [1]})))], "ct", 2)
    fields = [
        ("a", ("list", ("dict", None, None), ("tree", [{"a": [1]}]))),
        ("b", ("dict", ("list", None, None), ("tree", {"k": [[1]]}))),
        ("c", ("list", None, ("tree", [[1], {"x": [2]}, (3, [4])]))),
        ("d", ("dict", None, ("tree", {"k": {"z": [1]}, "t": ([5],)}))),
        ("e", ("list", ("list", ("any", None, "int"), None), ("tree", [[1]]))),
        ("items", ("list", it_s, ("tree", [{"v": [5]}]))),
        ("more", ("list", it_s, ("call", [{"n": 2}]))),
        ("cts", ("list", it_c, ("tree", [{"w": {"q": [1]}}]))),
        ("ct", it_c),
        ("sub", ("sub", False, [("l", ("list", ("any", None, "int"), ("tree", [1]))),
                                ("m", ("dict", ("any", None, "int"), ("call", {"a": 1})))], "schema", 3)),
        ("n", ("any", ("tree", 3), "int")),
        ("f", ("any", ("call", [1, [2]]), "bare")),
    ]
    return ("sub", True, fields, "schema", 0)


def template_schema():
    """callable defaults that hand out ONE template object, and every option-carrying leaf class"""
    it_s = ("sub", False, [("v", ("list", None, ("tmpl", [[1]]))), ("s", ("any", ("tree", "s"), "secure-xor"))], "ct", 1)
    fields = [
        ("ta", ("list", ("dict", None, None), ("tmpl", [{"a": [1]}]))),
        ("tb", ("dict", ("list", None, None), ("tmpl", {"k": [[1]]}))),
        ("tc", ("list", None, ("tmpl", [[1], {"x": [2]}]))),
        ("td", ("dict", None, ("tmpl", {"k": {"z": [1]}}))),
        ("te", ("list", ("list", ("any", None, "int"), None), ("tmpl", [[1]]))),
        ("items", ("list", it_s, ("tmpl", [{"v": [[5]]}]))),
        ("sub", ("sub", False, [("l", ("list", None, ("tmpl", [{"q": [1]}]))), ("p", ("any", ("tree", "t"), "secure-aes"))], "schema", 2)),
        ("sec", ("any", ("tree", "s"), "secure-best")),
        ("port", ("any", ("tree", 8), "port")), ("ib", ("any", ("tree", 1), "intb")), ("sn", ("any", ("tree", "s"), "strn")),
        ("bo", ("any", ("tree", True), "bool")), ("url", ("any", None, "url")), ("ch", ("any", None, "challenge")),
        ("by", ("any", None, "bytes")), ("fn", ("any", None, "filename")), ("fl", ("any", None, "float")),
    ]
    return ("sub", False, fields, "schema", 0)


def f46_schema(kind):
    it = ("sub", False, [("n", ("any", ("tree", 0), "int")), ("v", ("list", None, ("tree", [1])))], kind, 1)
    return ("sub", False, [("items", ("list", it, ("cfgs", [{"n": 5}]))), ("z", ("any", ("tree", 1), "int"))], "schema", 0)


def generate(rng, tier):
    cases = []
    ms = matrix_schema()
    sh = default_shadow(ms)
    tg = []
    targets(sh, ms, [], tg)
    ops = []
    for path, kind, sp in tg:
        if kind == "cfg":
            for n, f in sp[2]:
                d = default_shadow(f)
                if f[0] != "sub" and d is not None:
                    ops.append(("set", path, n, copy.deepcopy(d) if not isinstance(d, CfgS) else {}))
                ops.append(("reset", path, n))
            if sp[1]:
                ops.append(("set", path, "x1", [1, {"a": [2]}]))
        elif kind == "list":
            v = {"dict": {"a": [9]}, "list": [9], "any": 9, "sub": {}}[sp[0]] if sp else [9, [8]]
            ops.append(("append", path, v))
            ops.append(("setitem", path, 0, v))
        else:
            v = {"dict": {"a": [9]}, "list": [9], "any": 9, "sub": {}}[sp[0]] if sp else {"q": [9]}
            ops.append(("dset", path, "k", v))
            ops.append(("dset", path, "new", v))
    ops.append(("load", [], {"a": [{"q": [1]}], "sub": {"l": [4]}, "items": [{"v": [1, 2]}, {}], "x7": [1]}))
    for o in ops:
        cases.append({"schema": ms, "events": [("build",), ("build",), ("op", 0, o)], "kind": "matrix"})
        cases.append({"schema": ms, "events": [("build",), ("op", 0, o), ("build",), ("op", 0, o)], "kind": "matrix"})
    # a value read from another configuration is assigned, then one side is mutated in place
    sp_ = [("a", "sub")]
    for (i, j) in ((1, 0), (0, 1)):
        for n, app in (("l", ("append", sp_ + [("a", "l")], 9)), ("m", ("dset", sp_ + [("a", "m")], "z", 9))):
            cases.append({"schema": ms, "kind": "matrix", "events": [
                ("build",), ("build",), ("op", j, app), ("cross", i, j, sp_, n), ("op", i, app), ("op", j, app)]})
    cases.append({"schema": ms, "kind": "matrix", "events": [
        ("build",), ("build",), ("op", 0, ("set", [], "n", 8)), ("cross", 1, 0, [], "n"), ("op", 0, ("set", [], "n", 7))]})
    # observers change nothing, also on a dynamic configuration that has extra fields
    for rk in READS:
        cases.append({"schema": ms, "kind": "matrix", "events": [
            ("build",), ("build",), ("op", 0, ("set", [], "x1", [1, {"a": [2]}])), ("read", 0, rk), ("read", 1, rk),
            ("op", 0, ("set", [("a", "cts"), ("i", 0)], "x2", 5)), ("read", 0, rk), ("build",)]})
    # options with content (choices / levels / modes, bounds, pattern): a value the leaf rejects, by every route
    os_ = ("sub", False, [
        ("lvl", ("any", ("tree", "info"), "loglevel")), ("mode", ("any", ("tree", "dev"), "appmode")),
        ("ch", ("any", ("tree", "b"), "choice")), ("ib", ("any", ("tree", 1), "intb")), ("po", ("any", ("tree", 8), "port")),
        ("sn", ("any", ("tree", "s"), "strn")),
        ("chl", ("list", ("any", None, "choice"), ("tree", ["c"]))), ("chd", ("dict", ("any", None, "choice"), ("tree", {"k": "a"}))),
        ("sub", ("sub", False, [("ch", ("any", ("tree", "c"), "choice"))], "schema", 2))], "schema", 0)
    lops = []
    for n_, h_ in (("lvl", "loglevel"), ("mode", "appmode"), ("ch", "choice"), ("ib", "intb"), ("po", "port"), ("sn", "strn")):
        for route in ("set", "load", "loads"):
            lops.append(("badleaf", [], n_, REJECT[h_], route))
    lops += [("badleaf", [("a", "chl")], None, "zz", "append"), ("badleaf", [("a", "chd")], "k", "zz", "dset"),
             ("badleaf", [("a", "sub")], "ch", "zz", "set"), ("badset", [], "chl", 5)]
    for o in lops:
        cases.append({"schema": os_, "kind": "matrix", "events": [("build",), ("build",), ("op", 0, o), ("read", 1, "validate"),
                                                                  ("op", 1, ("set", [], "ch", "a")), ("build",)]})
    # several list / dict fields over ONE item schema / config type / item field object: whole-value assignment between them
    its_ = ("sub", False, [("n", ("any", ("tree", 0), "int")), ("v", ("list", None, ("tree", [1])))], "schema", 1)
    itc_ = ("sub", False, [("w", ("any", ("tree", 1), "int"))], "ct", 2)
    shi_ = ("any", None, "int", "shared1")
    ss_ = ("sub", False, [
        ("primary", ("list", its_, ("tree", [{"n": 1}]))), ("backup", ("list", its_, None)),
        ("c1", ("list", itc_, ("tree", [{"w": 2}]))), ("c2", ("list", itc_, ("tree", []))),
        ("p2", ("list", shi_, ("tree", [1, 2]))), ("b2", ("list", shi_, ("tree", [3]))),
        ("d1", ("dict", shi_, ("tree", {"k": 1}))), ("d2", ("dict", shi_, None))], "schema", 0)
    for dst_, src_, add_ in (("backup", "primary", {"n": 7}), ("primary", "backup", {"n": 7}), ("c2", "c1", {"w": 5}), ("b2", "p2", 5), ("p2", "b2", 5)):
        app = lambda f_: ("append", [("a", f_)], copy.deepcopy(add_))     # noqa: E731
        if src_ == "backup":
            pre = [("op", 0, ("set", [], "backup", [{"n": 3}]))]
        else:
            pre = []
        cases.append({"schema": ss_, "kind": "matrix", "events": [("build",), ("build",)] + pre + [
            ("cross", 0, 0, [], dst_, [], src_), ("op", 0, app(dst_)), ("op", 0, app(src_)), ("build",)]})
        if isinstance(add_, int):
            cases.append({"schema": ss_, "kind": "matrix", "events": [("build",), ("build",), ("cross", 1, 0, [], dst_, [], src_),
                                                                  ("op", 1, app(dst_)), ("op", 0, app(src_)), ("cross", 0, 1, [], src_, [], dst_),
                                                                  ("op", 0, app(src_))]})
    cases.append({"schema": ss_, "kind": "matrix", "events": [("build",), ("build",), ("cross", 0, 0, [], "d2", [], "d1"),
                                                          ("op", 0, ("dset", [("a", "d2")], "z", 4)), ("cross", 1, 0, [], "d1", [], "d2"),
                                                          ("op", 1, ("dset", [("a", "d1")], "y", 5))]})
    # update / |= between the dict proxies of one field in two configurations, values are typed containers
    us_ = ("sub", False, [
        ("routes", ("dict", ("list", ("any", None, "int"), None), ("call", {"web": [80]}))),
        ("plain", ("dict", ("any", None, "int"), ("tree", {"a": 1}))),
        ("net", ("sub", False, [("groups", ("dict", ("dict", ("any", None, "int"), None), ("tmpl", {"dmz": {"mtu": 1500}})))], "schema", 2))],
           "schema", 0)
    for how in ("update", "ior"):
        cases.append({"schema": us_, "kind": "matrix", "events": [
            ("build",), ("build",), ("op", 1, ("dset", [("a", "routes")], "api", [8080, 8081])),
            ("xupdate", 0, 1, [], "routes", how), ("op", 0, ("append", [("a", "routes"), ("k", "api")], 9999)),
            ("op", 1, ("append", [("a", "routes"), ("k", "web")], 1)),
            ("op", 1, ("dset", [("a", "net"), ("a", "groups")], "lan", {"mtu": 9000})),
            ("xupdate", 0, 1, [("a", "net")], "groups", how), ("op", 0, ("dset", [("a", "net"), ("a", "groups"), ("k", "lan")], "mtu", 1)),
            ("op", 1, ("dset", [("a", "net"), ("a", "groups"), ("k", "dmz")], "vlan", 7)),
            ("xupdate", 1, 0, [], "plain", how), ("build",)]})
    # document loads with includes: configuration 0 from directory a, configuration 1 from directory b (same file names,
    # other contents), relative and absolute names, root and nested include fields, startdir None and set
    ins = inc_schema()

    def incl(dirname, mode, doc, incs):
        doc = copy.deepcopy(doc)
        for sp_, _n, _h, _c in incs:          # the document holds a map wherever an include key is going to be written
            node = doc
            for k in sp_:
                node = node.setdefault(k, {})
        return ("incload", [], strip_inc(spec_include(ins, copy.deepcopy(doc), incs), ins), dirname, mode, doc, incs)
    for mode in ("rel", "abs"):
        for site in (([], "inc", "include-none"), ([], "inc2", "include-dir"), (["sub"], "inc", "include-none")):
            ca = {"x": 5, "u": [7]} if site[0] else {"n": 5, "l": [7], "d": {"q": 1}, "sub": {"x": 6}}
            cb = {"x": 8} if site[0] else {"n": 8, "l": [9, 9], "sub": {"u": [2]}}
            ia = [(site[0], site[1], site[2], ca)]
            ib = [(site[0], site[1], site[2], cb)]
            da = {"n": 1, "sub": {"x": 2}}
            cases.append({"schema": ins, "kind": "matrix", "events": [
                ("build",), ("build",), ("op", 0, incl("a", mode, da, ia)), ("op", 1, incl("b", mode, {"d": {"z": 2}, "sub": {}}, ib)),
                ("op", 0, incl("b", mode, {}, ib)), ("read", 1, "to_tree"), ("build",)]})
    both = [([], "inc", "include-none", {"n": 4, "sub": {"x": 4}}), (["sub"], "inc", "include-none", {"x": 9, "u": [3]})]
    cases.append({"schema": ins, "kind": "matrix", "events": [("build",), ("build",), ("op", 1, incl("a", "rel", {"n": 2, "sub": {"u": [0]}}, both)),
                                                            ("op", 0, incl("b", "rel", {"l": [5]}, both[:1])), ("build",)]})
    # rejected operations: the error names a sub-schema key (root, nested, list item, config type), a list / dict field
    # or an undeclared key; raising AND rendering it must leave the schema alone
    es = err_schema()
    bad = []
    for p_, n_ in (([], "db"), ([("a", "db")], "inner"), ([], "ct"), ([("a", "ct")], "cs"), ([("a", "items"), ("i", 0)], "deep"),
                   ([("a", "cts"), ("i", 0)], "cs")):
        for v_ in (5, "s", [1], None):
            bad.append(("badset", p_, n_, v_))
        bad.append(("badload", p_, {n_: 5}))
        bad.append(("badload", p_, {n_: None}))
    for n_ in ("l", "u"):
        bad += [("badset", [], n_, 5), ("badset", [], n_, {"a": 1}), ("badload", [], {n_: 5})]
    for n_ in ("d", "td"):
        bad += [("badset", [], n_, 5), ("badset", [], n_, [1]), ("badload", [], {n_: 5})]
    bad += [("badappend", [("a", "items")], 5), ("badappend", [("a", "cts")], None), ("badset", [], "items", [5]),
            ("set", [], "nope", 1), ("set", [("a", "db")], "nope", 1), ("load", [], {"nope": 1}), ("reset", [], "nope"),
            ("load", [("a", "db")], {"port": 9, "nope": 1})]
    for o in bad:
        cases.append({"schema": es, "kind": "matrix", "events": [("build",), ("build",), ("op", 0, o), ("read", 1, "validate"), ("build",)]})
    # templates handed out by callable defaults; secrets written with another method; options of every leaf class
    ts = template_schema()
    ttg = []
    targets(default_shadow(ts), ts, [], ttg)
    for path, kind, sp in ttg:
        if kind == "cfg":
            continue
        v = ({"dict": {"a": [9]}, "list": [9], "any": 9, "sub": {}}[sp[0]] if sp else [9])
        mut = ("append", path, v) if kind == "list" else ("dset", path, "k", v)
        cases.append({"schema": ts, "kind": "matrix", "events": [("build",), ("build",), ("op", 0, mut), ("build",), ("op", 2, mut)]})
    for n_, p_, m_ in (("sec", [], "xor"), ("sec", [], "aes"), ("p", [("a", "sub")], "xor"), ("s", [("a", "items"), ("i", 0)], "aes")):
        cases.append({"schema": ts, "kind": "matrix", "events": [
            ("build",), ("build",), ("op", 0, ("secload", p_, n_, "pw", m_)), ("read", 1, "to_tree"), ("read", 0, "dumps"),
            ("clone", 0, 1, [], "tree"), ("op", 1, ("set", p_, n_, "uv")), ("build",)]})
    for rk in READS:
        cases.append({"schema": ts, "kind": "matrix", "events": [("build",), ("build",), ("read", 0, rk), ("op", 0, ("set", [], "port", 9)),
                                                             ("read", 1, rk), ("build",), ("read", 2, rk)]})
    # clone: cfg_1.load_tree(cfg_0.to_tree()), then in-place mutations on either side at every depth
    cs = clone_schema()
    ctg = []
    targets(default_shadow(cs), cs, [], ctg)
    for path, kind, sp in ctg:
        if kind == "cfg":
            continue
        if kind == "list":
            v = {"dict": {"a": 9}, "list": [9], "any": 9, "sub": {}}[sp[0]] if sp else 9
            mut = ("append", path, v)
        else:
            v = {"dict": {"a": 9}, "list": [9], "any": 9, "sub": {}}[sp[0]] if sp else 9
            mut = ("dset", path, "k", v)
        for variant in ("tree", "json"):
            cases.append({"schema": cs, "kind": "matrix", "events": [
                ("build",), ("build",), ("op", 0, mut), ("clone", 0, 1, [], variant), ("op", 1, mut), ("op", 0, mut)]})
    cases.append({"schema": cs, "kind": "matrix", "events": [
        ("build",), ("build",), ("op", 0, ("dset", [("a", "sub"), ("a", "d")], "q", 4)), ("clone", 0, 1, [("a", "sub")], "tree"),
        ("op", 1, ("dset", [("a", "sub"), ("a", "d")], "r", 5)), ("op", 0, ("set", [], "x1", 7)), ("clone", 0, 1, [], "tree"),
        ("op", 1, ("set", [], "x1", 8))]})
    cases.append({"schema": ms, "kind": "matrix", "events": [("build",), ("build",), ("clone", 0, 1, [], "tree"),
                                                             ("op", 1, ("append", [("a", "c"), ("i", 0)], 9))]})
    for kind in ("schema", "ct"):
        fs = f46_schema(kind)
        cases.append({"schema": fs, "events": [("build",), ("build",), ("op", 0, ("set", [("a", "items"), ("i", 0)], "n", 9))],
                      "kind": "f46"})
        cases.append({"schema": fs, "events": [("build",), ("op", 0, ("append", [("a", "items"), ("i", 0), ("a", "v")], 7)),
                                               ("build",)], "kind": "f46"})
    nrand = 700 if tier == "quick" else 12000
    nclone = 120 if tier == "quick" else 2000
    for it_ in range(nrand + nclone):
        cloney = it_ >= nrand                # histories around clones, on a schema of the copied kinds
        spec = clone_schema() if cloney else gen_schema(rng)
        shadows = [default_shadow(spec)]
        has_inc = bool(include_sites(spec))
        events = [("build",)]
        if rng.random() < 0.6:
            events.append(("build",))
            shadows.append(default_shadow(spec))
        for _ in range(rng.randint(2, 9 if tier == "quick" else 16)):
            if rng.random() < 0.12 and len(shadows) < 4:
                events.append(("build",))
                shadows.append(default_shadow(spec))
                continue
            i = 0 if rng.random() < 0.85 else rng.randrange(len(shadows))
            r = rng.random()
            if has_inc and rng.random() < 0.2:
                o = gen_incload(rng, spec)
                sh_apply(shadows[i], spec, o)
                events.append(("op", i, o))
                continue
            if r < 0.12:
                events.append(("read", rng.randrange(len(shadows)), rng.choice(READS)))
                continue
            if 0.24 <= r < (0.5 if cloney else 0.32):
                e = gen_clone(rng, spec, shadows)
                if e is not None:
                    sh_clone(shadows, e)
                    events.append(e)
                    continue
            if r < 0.24:
                e = gen_cross(rng, spec, shadows, i) if r < 0.18 else (
                    gen_cross_field(rng, spec, shadows, i) if r < 0.21 else gen_xupdate(rng, spec, shadows, i))
                if e is not None:
                    sh_cross(shadows, spec, e)
                    events.append(e)
                    continue
            o = gen_op(rng, spec, shadows[i])
            sh_apply(shadows[i], spec, o)
            events.append(("op", i, o))
        if rng.random() < 0.5:
            events.append(("build",))
        cases.append({"schema": spec, "events": events, "kind": "random-clone" if cloney else "random"})
    return cases


# ---------------------------------------------------------------------------------------------
# Gallina literals
# ---------------------------------------------------------------------------------------------
def g_tree(t):
    if isinstance(t, list):
        return "(AList [%s])" % ";".join(g_tree(x) for x in t)
    if isinstance(t, tuple):
        return "(ATuple [%s])" % ";".join(g_tree(x) for x in t)
    if isinstance(t, dict):
        return "(ADict [%s])" % ";".join("(%s,%s)" % (gal(k), g_tree(x)) for k, x in t.items())
    return "(ALeaf %s)" % gal(t)


def g_dflt(d):
    if d is None:
        return "DNone"
    if d[0] in ("tree", "tmpl"):
        # tmpl: the callable returns one template object; ListField/DictField copy what it returns, so for the model
        # the template is an object the schema holds (observed like a constant default)
        return "(DTree %s)" % g_tree(d[1])
    if d[0] == "call":
        return "(DCall %s)" % g_tree(d[1])
    if d[0] == "cfgs":
        return "(DCfgs [%s])" % ";".join(g_tree(x) for x in d[1])
    raise Broken("bad default %r" % (d,))


def g_fld(sp):
    k = sp[0]
    if k == "any":
        return "(FAny %s)" % g_dflt(sp[1])
    if k == "list":
        return "(FList %s %s)" % ("None" if sp[1] is None else "(Some %s)" % g_fld(sp[1]), g_dflt(sp[2]))
    if k == "dict":
        return "(FDict %s %s)" % ("None" if sp[1] is None else "(Some %s)" % g_fld(sp[1]), g_dflt(sp[2]))
    return "(FSub %s [%s])" % ("true" if sp[1] else "false",
                               ";".join("(%s,%s)" % (g_str(n), g_fld(f)) for n, f in sp[2]))


def g_path(p):
    def one(s):
        if s[0] == "a":
            return "SAttr %s" % g_str(s[1])
        if s[0] == "i":
            return "SIdx %d%%nat" % s[1]
        return "SKey %s" % gal(s[1])
    return "[%s]" % ";".join(one(s) for s in p)


def g_op(o):
    if o[0].startswith("bad"):
        o = (o[0][3:],) + tuple(o[1:])
    k = o[0]
    if k == "set":
        return "(OpSet %s %s %s)" % (g_path(o[1]), g_str(o[2]), g_tree(o[3]))
    if k == "load":
        return "(OpLoad %s %s)" % (g_path(o[1]), g_tree(o[2]))
    if k == "secload":
        return "(OpLoad %s %s)" % (g_path(o[1]), g_tree({o[2]: o[3]}))
    if k == "incload":
        return "(OpLoad %s %s)" % (g_path(o[1]), g_tree(o[2]))
    if k == "reset":
        return "(OpReset %s %s)" % (g_path(o[1]), g_str(o[2]))
    if k == "append":
        return "(OpAppend %s %s)" % (g_path(o[1]), g_tree(o[2]))
    if k == "setitem":
        return "(OpSetItem %s %d%%nat %s)" % (g_path(o[1]), o[2], g_tree(o[3]))
    if k == "dset":
        return "(OpDictSet %s %s %s)" % (g_path(o[1]), gal(o[2]), g_tree(o[3]))
    raise Broken("bad op %r" % (o,))


def gcase(c):
    evs = []
    skipped = c.get("_skip", [])
    for n_, e in enumerate(c["events"]):
        if e[0] == "build":
            evs.append("XE EBuild")
        elif e[0] == "op" and e[2][0] == "badleaf":
            evs.append("XRead")          # rejected by the leaf's own validation (not modelled): nothing may change
        elif e[0] == "op":
            evs.append("XE (EOp %d%%nat %s)" % (e[1], g_op(e[2])))
        elif e[0] == "cross":
            sp_, sn_ = (e[5], e[6]) if len(e) > 5 else (e[3], e[4])
            evs.append("XCross %d%%nat %d%%nat %s %s %s %s" % (e[1], e[2], g_path(e[3]), g_str(e[4]), g_path(sp_), g_str(sn_)))
        elif e[0] == "xupdate":
            evs.append("XUpdate %d%%nat %d%%nat %s %s" % (e[1], e[2], g_path(e[3]), g_str(e[4])))
        elif e[0] == "read":
            evs.append("XRead")
        elif e[0] == "clone":
            if n_ in skipped:
                evs.append("XRead")      # origin holds a value the library does not copy at every depth: not executed
            else:
                evs.append("XClone %d%%nat %d%%nat %s" % (e[1], e[2], g_path(e[3])))
        else:
            raise Broken("bad event %r" % (e,))
    return "(%s, [%s])" % (g_fld(c["schema"]), ";".join(evs))


# ---------------------------------------------------------------------------------------------
# the implementation
# ---------------------------------------------------------------------------------------------
def _inc_dir():
    import os
    if _CASE_DIR[0] is None:
        raise Broken("include field outside a case")
    d = os.path.join(_CASE_DIR[0], "inc")
    os.makedirs(d, exist_ok=True)
    return d


def _incload(cfg, o):
    """cfg.loads(<json document naming include files>) from directory o[3]; afterwards the include keys are reset so that
    no directory name stays in the configuration"""
    import json
    import os
    import cincoconfig as cc
    _, _path, _merged, dirname, mode, doc, incs = o
    d = os.path.join(_CASE_DIR[0], dirname)
    os.makedirs(d, exist_ok=True)
    doc = copy.deepcopy(doc)
    for idx, (sp_, name, hint, child) in enumerate(incs):
        fname = "c%d.json" % idx
        where = _inc_dir() if (hint == "include-dir" and mode == "rel") else d
        full = os.path.join(where, fname)
        with open(full, "w") as fp:
            json.dump(child, fp)
        node = doc
        for k in sp_:
            node = node.setdefault(k, {})
        node[name] = fname if mode == "rel" else full
    old = os.getcwd()
    os.chdir(d)
    try:
        cfg.loads(json.dumps(doc), "json")
    finally:
        os.chdir(old)
        for sp_, name, _h, _c in incs:
            sub = cfg
            for k in sp_:
                sub = getattr(sub, k)
            cc.reset_value(sub, name)


def _mk(spec, cache):
    """schema text -> real field object (Schema / ConfigType class / Field)"""
    import cincoconfig as cc
    k = spec[0]

    def dv(d):
        if d is None:
            return None
        if d[0] == "tree":
            return copy.deepcopy(d[1])
        if d[0] == "call":
            t = d[1]
            return lambda t=t: copy.deepcopy(t)
        if d[0] == "tmpl":
            tmpl = copy.deepcopy(d[1])
            fn = lambda tmpl=tmpl: tmpl           # noqa: E731  the same object on every call
            fn.verif_template = tmpl
            return fn
        raise Broken("default %r needs its item type" % (d,))
    if k == "any" and len(spec) > 3 and ("leaf", spec[3]) in cache:
        return cache[("leaf", spec[3])]
    if k == "any":
        h = spec[2]
        mk = {"choice": lambda **kw: cc.StringField(choices=list(CHOICES["choice"]), **kw),
              "loglevel": lambda **kw: cc.LogLevelField(**kw),
              "appmode": lambda **kw: cc.ApplicationModeField(modes=list(CHOICES["appmode"]), create_helpers=False, **kw),"int": cc.IntField, "str": cc.StringField, "bare": cc.Field,
              "intb": lambda **kw: cc.IntField(min=0, max=99, **kw),
              "strn": lambda **kw: cc.StringField(min_len=1, max_len=5, regex="^[a-z]+$", **kw),
              "secure-best": lambda **kw: cc.SecureField(method="best", **kw),
              "secure-xor": lambda **kw: cc.SecureField(method="xor", **kw),
              "secure-aes": lambda **kw: cc.SecureField(method="aes", **kw),
              "port": cc.PortField, "bool": cc.BoolField, "url": cc.UrlField,
              "challenge": lambda **kw: cc.ChallengeField("sha256", **kw), "bytes": lambda **kw: cc.BytesField("hex", **kw),
              "include-none": lambda **kw: cc.IncludeField(**kw),
              "include-dir": lambda **kw: cc.IncludeField(startdir=_inc_dir(), **kw),
              "filename": lambda **kw: cc.FilenameField(exists=False, **kw), "float": lambda **kw: cc.FloatField(min=0.5, max=2.5, **kw)}[h]
        fobj = mk(default=dv(spec[1]))
        if len(spec) > 3:
            cache[("leaf", spec[3])] = fobj
        return fobj
    if k == "list":
        if spec[1] is None:
            return cc.ListField(default=dv(spec[2]))
        item = _mk(spec[1], cache)
        d = spec[2]
        if d is not None and d[0] == "cfgs":
            default = [item(**copy.deepcopy(t)) for t in d[1]]
        else:
            default = dv(d)
        return cc.ListField(item, default=default)
    if k == "dict":
        if spec[1] is None:
            return cc.DictField(default=dv(spec[2]))
        return cc.DictField(cc.StringField(), _mk(spec[1], cache), default=dv(spec[2]))
    sid = spec[4]
    if sid in cache:
        return cache[sid]
    s = cc.Schema(dynamic=spec[1])
    for n, f in spec[2]:
        s._add_field(n, _mk(f, cache))
    # every schema level (root, sub-schema, item schema, config type) has an instance method
    cc.instance_method(s, IM)(_im_self)
    if spec[3] == "ct":
        s = cc.make_type(s, "CT%d" % sid)
    if sid:
        cache[sid] = s
    return s


IM = "im_"


def _im_self(cfg):
    return cfg


def _all_configs(v, out):
    from cincoconfig.core import Config
    if isinstance(v, Config):
        out.append(v)
        for x in v._data.values():
            _all_configs(x, out)
    elif isinstance(v, (list, tuple)):
        for x in v:
            _all_configs(x, out)
    elif isinstance(v, dict):
        for x in v.values():
            _all_configs(x, out)


def _schema_of(obj):
    """Schema behind a Schema / ConfigType class / ConfigTypeField"""
    from cincoconfig.core import Schema, ConfigTypeField, isconfigtype
    if isinstance(obj, Schema):
        return obj
    if isinstance(obj, ConfigTypeField):
        return obj.config_type.__schema__
    if isconfigtype(obj):
        return obj.__schema__
    return None


def _snap(v):
    from cincoconfig.core import Config
    if isinstance(v, Config):
        return ("cfg", {k: _snap(x) for k, x in v._data.items()}, list(v._fields))
    if isinstance(v, list):
        return [_snap(x) for x in v]
    if isinstance(v, tuple):
        return tuple(_snap(x) for x in v)
    if isinstance(v, dict):
        return {k: _snap(x) for k, x in v.items()}
    if v is None or isinstance(v, (bool, int, str)):
        return v
    raise Broken("unexpected value in a configuration: %r" % (type(v),))


def _plain(v):
    """plain-data copy of an asdict() result (never copy.deepcopy: it would reach the Schema)"""
    import cincoconfig as cc
    from cincoconfig.core import Config
    if isinstance(v, Config):
        return _plain(cc.asdict(v))
    if isinstance(v, list):
        return [_plain(x) for x in v]
    if isinstance(v, tuple):
        return tuple(_plain(x) for x in v)
    if isinstance(v, dict):
        return {k: _plain(x) for k, x in v.items()}
    return v


def _walk_fields(pf, fn):
    """visit every field object of the real schema, in the order of Alias.default_vals"""
    import cincoconfig as cc
    sch = _schema_of(pf)
    if sch is not None:
        for name in list(sch._fields):
            if name != IM:
                _walk_fields(sch._fields[name], fn)
        return
    fn(pf)
    if isinstance(pf, cc.ListField) and pf.field is not None:
        _walk_fields(pf.field, fn)
    elif isinstance(pf, cc.DictField) and pf._use_proxy:
        _walk_fields(pf.value_field, fn)


def _defaults(schema):
    out = []

    def one(f):
        d = f.__dict__.get("_default")
        if callable(d) and hasattr(d, "verif_template"):
            out.append(d.verif_template)          # the object a template-returning callable hands out
        elif d is not None and not callable(d):
            out.append(d)
    _walk_fields(schema, one)
    return out


def _names(pf):
    import cincoconfig as cc
    sch = _schema_of(pf)
    if sch is not None:
        return [(k, _names(f)) for k, f in sch._fields.items() if k != IM]
    if isinstance(pf, cc.ListField) and pf.field is not None:
        return _names(pf.field)
    if isinstance(pf, cc.DictField) and pf._use_proxy:
        return _names(pf.value_field)
    return None


def _options(schema):
    """field identities and options at every level (defaults excluded: observed separately)"""
    out = []
    seen = set()

    def content(v):
        """deep plain copy, order included, of a container-valued option"""
        import re
        if v is None or isinstance(v, (bool, int, float, str, bytes)):
            return v
        if isinstance(v, (list, tuple)):
            return (type(v).__name__, [content(x) for x in v])
        if isinstance(v, dict):
            return ("dict", [(content(k), content(x)) for k, x in v.items()])
        if isinstance(v, (set, frozenset)):
            return ("set", sorted(repr(x) for x in v))
        if isinstance(v, re.Pattern):
            return ("re", v.pattern, v.flags)
        return ("id", id(v))

    def scal(v):
        if v is None or isinstance(v, (bool, int, float, str, bytes)):
            return v
        return ("obj", id(v), content(v))      # identity AND content

    def visit(pf):
        sch = _schema_of(pf)
        if sch is not None:
            if id(sch) in seen:
                return
            seen.add(id(sch))
            out.append(("schema", id(sch), sch._dynamic, sch._key, scal(sch._env_prefix), len(sch._validators),
                        [(k, id(f)) for k, f in sch._fields.items()]))
            for f in list(sch._fields.values()):
                visit(f)
            return
        # every attribute of the field object, public and private (containers by identity): nothing is a cache
        out.append((type(pf).__name__, id(pf), sorted((k, scal(v)) for k, v in pf.__dict__.items())))
        import cincoconfig as cc
        if isinstance(pf, cc.ListField) and pf.field is not None:
            visit(pf.field)
        elif isinstance(pf, cc.DictField) and pf._use_proxy:
            visit(pf.value_field)
    visit(schema)
    return out


def _containers(v, acc):
    """ids of the mutable container objects reachable from v (through _data, lists, dicts, tuples)"""
    from cincoconfig.core import Config
    if isinstance(v, Config):
        if id(v) in acc:
            return
        acc[id(v)] = v
        acc[id(v._data)] = v._data
        acc[id(v._fields)] = v._fields
        for x in v._data.values():
            _containers(x, acc)
    elif isinstance(v, (list, dict)):
        if id(v) in acc:
            return
        acc[id(v)] = v
        for x in (v.values() if isinstance(v, dict) else v):
            _containers(x, acc)
    elif isinstance(v, tuple):
        for x in v:
            _containers(x, acc)


def _nav(obj, path):
    from cincoconfig.core import Config
    for s in path:
        if s[0] == "a":
            if not isinstance(obj, Config):
                raise LookupError("not a configuration")
            if s[1] not in obj._data:
                raise LookupError("no such value")
            obj = getattr(obj, s[1])
        elif s[0] == "i":
            if not isinstance(obj, (list, tuple)):
                raise LookupError("not a sequence")
            obj = obj[s[1]]
        else:
            if not isinstance(obj, dict):
                raise LookupError("not a dict")
            obj = obj[s[1]]
    return obj


def _apply(cfg, o):
    import cincoconfig as cc
    from cincoconfig.core import Config
    if o[0].startswith("bad"):
        o = (o[0][3:],) + tuple(o[1:])
    k = o[0]
    tgt = _nav(cfg, o[1])
    if k == "incload":
        _incload(tgt, o)
        return
    if k == "leaf":                      # ("badleaf", path, key, value, route)
        import json
        route = o[4]
        if route == "set":
            setattr(tgt, o[2], o[3])
        elif route == "load":
            tgt.load_tree({o[2]: o[3]})
        elif route == "loads":
            tgt.loads(json.dumps({o[2]: o[3]}), "json")
        elif route == "append":
            if not isinstance(tgt, list):
                raise LookupError("not a list")
            tgt.append(o[3])
        else:
            if not isinstance(tgt, dict):
                raise LookupError("not a dict")
            tgt[o[2]] = o[3]
        return
    if k == "secload":
        import base64
        if not isinstance(tgt, Config):
            raise LookupError("not a configuration")
        with tgt._keyfile as ctx:
            sv = ctx.encrypt(o[3], method=o[4])
        tgt.load_tree({o[2]: {"method": sv.method, "ciphertext": base64.b64encode(sv.ciphertext).decode()}})
        return
    if k in ("set", "load", "reset"):
        if not isinstance(tgt, Config):
            raise LookupError("not a configuration")
        if k == "set":
            setattr(tgt, o[2], copy.deepcopy(o[3]))
        elif k == "load":
            if not isinstance(o[2], dict):
                raise LookupError("not a tree")
            tgt.load_tree(copy.deepcopy(o[2]))
        else:
            cc.reset_value(tgt, o[2])
    elif k in ("append", "setitem"):
        if not isinstance(tgt, list):
            raise LookupError("not a list")
        if k == "append":
            tgt.append(copy.deepcopy(o[2]))
        else:
            tgt[o[2]] = copy.deepcopy(o[3])
    elif k == "dset":
        if not isinstance(tgt, dict):
            raise LookupError("not a dict")
        tgt[o[2]] = copy.deepcopy(o[3])
    else:
        raise Broken("bad op %r" % (o,))


def _render(ex):
    """what a caller does with an error: message, repr, path, arguments, traceback.  Rendering must not change anything
    (checked by the snapshots taken after the event).  Never hasattr/getattr-with-default on a Schema here: only on the
    exception object."""
    import traceback
    for fn in (str, repr, lambda e: getattr(e, "ref_path", None), lambda e: getattr(e, "friendly_name", None),
               lambda e: [repr(a) for a in e.args], lambda e: [str(a) for a in e.args],
               lambda e: traceback.format_exception(type(e), e, e.__traceback__), lambda e: str(e.__cause__), lambda e: str(e.__context__)):
        try:
            fn(ex)
        except Exception:  # noqa
            pass


def _read(cfg, schema, kind):
    import cincoconfig as cc
    if kind == "to_tree":
        cfg.to_tree()
    elif kind == "dumps":
        cfg.dumps("json")
    elif kind == "asdict":
        cc.asdict(cfg)
    elif kind == "validate":
        cfg.validate()
    elif kind == "get_all_fields":
        cc.get_all_fields(schema)
        cc.get_all_fields(cfg)
    else:
        raise Broken("bad observer %r" % (kind,))


def _scalar_only(v):
    if isinstance(v, (list, dict)):
        return False
    if isinstance(v, tuple):
        return all(_scalar_only(x) for x in v)
    return True


def _has_tuple(v):
    if isinstance(v, tuple):
        return True
    if isinstance(v, dict):
        return any(_has_tuple(x) for x in v.values())
    if isinstance(v, list):
        return any(_has_tuple(x) for x in v)
    return False


def _fresh_value(field, v):
    """does to_tree() give a fresh container at every depth for value v of this field (see reg_C13 assumptions)"""
    import cincoconfig as cc
    from cincoconfig.core import Config, AnyField
    if isinstance(v, Config):
        return _clone_safe(v)
    if isinstance(field, cc.ListField):
        if v is None:
            return field.field is None            # to_python(None) of a typed list gives an empty proxy
        if not isinstance(v, list):
            return False
        if field.field is None or isinstance(field.field, AnyField):
            return all(_scalar_only(x) for x in v)
        return all(_fresh_value(field.field, x) for x in v)
    if isinstance(field, cc.DictField):
        if v is None:
            return not field._use_proxy
        if not isinstance(v, dict):
            return False
        if not field._use_proxy:
            return all(_scalar_only(x) for x in v.values())
        return all(_fresh_value(field.value_field, x) for x in v.values())
    if _schema_of(field) is not None:
        return False                              # a configuration position holding something else
    return _scalar_only(v)


def _clone_safe(cfg):
    for k, v in cfg._data.items():
        f = cfg._get_field(k)
        if f is None or not _fresh_value(f, v):
            return False
    return True


def _clone(cfgs, e):
    """returns False when the clone is not executed (origin outside the copied kinds)"""
    from cincoconfig.core import Config
    _, i, j, path, variant = e
    src = _nav(cfgs[i], path)
    dst = _nav(cfgs[j], path)
    if not isinstance(src, Config) or not isinstance(dst, Config):
        raise LookupError("not a configuration")
    if not _clone_safe(src) or (variant == "json" and _has_tuple(_snap(src))):
        return False
    if variant == "json":
        dst.loads(src.dumps("json"), "json")
    else:
        dst.load_tree(src.to_tree())
    return True


def _share(x, y):
    ax, ay = {}, {}
    _containers(x, ax)
    _containers(y, ay)
    return [type(ax[i_]).__name__ for i_ in ax if i_ in ay]


def _cross(cfgs, e):
    from cincoconfig.core import Config
    i, j, path, n = e[1:5]
    spath, sn = (e[5], e[6]) if (e[0] == "cross" and len(e) > 5) else (path, n)
    src = _nav(cfgs[j], spath)
    dst = _nav(cfgs[i], path)
    if not isinstance(src, Config) or not isinstance(dst, Config) or sn not in src._data or n not in dst._data:
        raise LookupError("no such value")
    val = getattr(src, sn)
    if e[0] == "xupdate":
        tgt = getattr(dst, n)
        if not isinstance(tgt, dict) or not isinstance(val, dict):
            raise LookupError("not a dict")
        if e[5] == "update":
            tgt.update(val)
        else:
            tgt |= val
        return None
    setattr(dst, n, val)
    got = getattr(dst, n)
    if isinstance(val, (list, dict)) and got is val and not (dst is src and n == sn):
        return "the %s object read from %s was stored as it is (no copy)" % (type(val).__name__, "another field" if dst is src else "another configuration")
    return None


def impl(c):
    import os
    import shutil
    import tempfile
    old = os.getcwd()
    _CASE_DIR[0] = tempfile.mkdtemp(prefix="verif_alias_") if include_sites_any(c["schema"]) else None
    try:
        return _impl(c)
    finally:
        os.chdir(old)
        if _CASE_DIR[0] is not None:
            shutil.rmtree(_CASE_DIR[0], ignore_errors=True)
        _CASE_DIR[0] = None


def include_sites_any(spec):
    k = spec[0]
    if k == "sub":
        return any(include_sites_any(f) for _, f in spec[2])
    if k == "any":
        return spec[2].startswith("include")
    return spec[1] is not None and include_sites_any(spec[1])


def _impl(c):
    import cincoconfig as cc
    viol = []
    stats = {"ok": 0, "err": 0}
    try:
        schema = _mk(c["schema"], {})
    except Broken:
        raise
    except Exception as e:  # noqa
        c["_viol"] = []
        c["_stats"] = stats
        return ("schema-error", type(e).__name__)
    cfgs = []
    skip = []
    names0 = _names(schema)
    opts0 = _options(schema)
    dfl0 = [_snap(d) for d in _defaults(schema)]
    snaps = []
    dicts = []
    for n, e in enumerate(c["events"]):
        if e[0] == "build":
            try:
                cfgs.append(schema())
            except Exception as ex:  # noqa
                c["_viol"] = viol
                c["_stats"] = stats
                c["_skip"] = skip
                return ("build-error", type(ex).__name__)
            snaps.append(_snap(cfgs[-1]))
            dicts.append(_plain(cc.asdict(cfgs[-1])))
            target = len(cfgs) - 1
        else:
            target = e[2] if e[0] == "clone" else e[1]
            if target >= len(cfgs) or (e[0] in ("cross", "clone", "xupdate") and max(e[1], e[2]) >= len(cfgs)):
                raise Broken("event addresses a configuration that does not exist")
            try:
                if e[0] == "op":
                    _apply(cfgs[target], e[2])
                elif e[0] in ("cross", "xupdate"):
                    msg_ = _cross(cfgs, e)
                    if msg_:
                        viol.append("event %d: %s" % (n, msg_))
                elif e[0] == "clone":
                    if not _clone(cfgs, e):
                        skip.append(n)
                        stats["skipped"] = stats.get("skipped", 0) + 1
                    else:
                        stats["cloned"] = stats.get("cloned", 0) + 1
                        for tn in _share(cfgs[e[1]], cfgs[e[2]]):
                            viol.append("event %d: after cloning configuration %d into %d through %s they share a mutable %s object"
                                        % (n, e[1], e[2], "to_tree/load_tree" if e[4] == "tree" else "dumps/loads", tn))
                else:
                    _read(cfgs[target], schema, e[2])
                stats["ok"] += 1
            except Broken:
                raise
            except Exception as ex:  # noqa
                stats["err"] += 1
                _render(ex)
            if e[0] == "read":
                if _snap(cfgs[target]) != snaps[target]:
                    viol.append("event %d (observer %s) changed the configuration it was called on" % (n, e[2]))
            snaps[target] = _snap(cfgs[target])
            dicts[target] = _plain(cc.asdict(cfgs[target]))
        # --- the property, evaluated directly ---
        for j, cj in enumerate(cfgs):
            if j == target:
                continue
            if _snap(cj) != snaps[j]:
                viol.append("event %d (%s on configuration %d) changed a value of configuration %d" % (n, e[0], target, j))
                snaps[j] = _snap(cj)
            if _plain(cc.asdict(cj)) != dicts[j]:
                viol.append("event %d (%s on configuration %d) changed asdict() of configuration %d" % (n, e[0], target, j))
                dicts[j] = _plain(cc.asdict(cj))
        for j, cj in enumerate(cfgs):
            allc = []
            _all_configs(cj, allc)
            for sub_ in allc:
                try:
                    got = getattr(sub_, IM)()
                except Exception as ex:  # noqa
                    got = ex
                if got is not sub_:
                    viol.append("event %d: an instance method of configuration %d (%s) ran against %s"
                                % (n, j, "root" if sub_ is cj else "a nested configuration",
                                   "another configuration object" if not isinstance(got, Exception) else "nothing: " + type(got).__name__))
        d1 = [_snap(d) for d in _defaults(schema)]
        if d1 != dfl0:
            viol.append("event %d (%s on configuration %d) changed a declared default of the schema" % (n, e[0], target))
            dfl0 = d1
        n1 = _names(schema)
        if n1 != names0:
            viol.append("event %d (%s on configuration %d) changed the field set of the schema" % (n, e[0], target))
            names0 = n1
        o1 = _options(schema)
        if o1 != opts0:
            viol.append("event %d (%s on configuration %d) changed field objects / options of the schema" % (n, e[0], target))
            opts0 = o1
    # identity walk: no mutable container is reachable from two configurations or from a default
    owners = {}
    for j, cj in enumerate(cfgs):
        acc = {}
        _containers(cj, acc)
        for i_ in acc:
            if i_ in owners:
                viol.append("configurations %d and %d share a mutable %s object" % (owners[i_], j, type(acc[i_]).__name__))
            else:
                owners[i_] = j
    for d in _defaults(schema):
        acc = {}
        _containers(d, acc)
        for i_ in acc:
            if i_ in owners:
                viol.append("configuration %d shares a mutable %s object with a schema default" % (owners[i_], type(acc[i_]).__name__))
    c["_viol"] = sorted(set(viol))
    c["_stats"] = stats
    c["_skip"] = skip
    return ([_snap(x) for x in cfgs], [_snap(d) for d in _defaults(schema)], _names(schema))


def oracle(c, obs):
    return list(c.get("_viol", []))


def classify(c, msg):
    if has_cfgs(c["schema"]):
        return "F46"
    return None


def tags(c, obs):
    t = {"kind:" + c["kind"]}
    if isinstance(obs, tuple) and obs and isinstance(obs[0], str):
        t.add("outcome:" + obs[0])
        return t
    nb = sum(1 for e in c["events"] if e[0] == "build")
    t.add("configs:%d" % nb)
    seen_op = False
    for e in c["events"]:
        if e[0] == "cross":
            seen_op = True
            t.add("op:cross-assign" if len(e) <= 5 else ("op:cross-field-same-config" if e[1] == e[2] else "op:cross-field"))
        elif e[0] == "xupdate":
            seen_op = True
            t.add("op:cross-" + e[5])
        elif e[0] == "read":
            t.add("read:" + e[2])
        elif e[0] == "clone":
            seen_op = True
            t.add("op:clone-" + e[4])
        elif e[0] == "op":
            seen_op = True
            t.add("op:" + e[2][0])
            if e[2][0] == "badleaf":
                t.add("rejected-leaf:" + e[2][4])
            elif e[2][0].startswith("bad"):
                o_ = e[2]
                v_ = o_[3] if o_[0] == "badset" else (list(o_[2].values())[0] if o_[0] == "badload" else o_[2])
                t.add("rejected-value:" + type(v_).__name__)
            t.add("depth:%d" % min(len(e[2][1]), 4))
            if e[1] != 0:
                t.add("op-on-other")
        elif seen_op:
            t.add("build-after-mutation")

    def kinds(sp, pre):
        k = sp[0]
        if k == "sub":
            t.add(pre + ("dyn-" if sp[1] else "") + sp[3])
            for _, f in sp[2]:
                kinds(f, "")
            return
        d = dflt_of(sp)
        t.add("%s:%s:%s" % (k, "typed" if k != "any" and sp[1] is not None else "plain", d[0] if d else "none"))
        if k == "any":
            t.add("leaf:" + sp[2])
        if k in ("list", "dict") and sp[1] is not None:
            kinds(sp[1], "item-")
    kinds(c["schema"], "")
    st = c.get("_stats", {})
    if st.get("err"):
        t.add("op-raised")
    if st.get("skipped"):
        t.add("clone-skipped")
    if st.get("cloned"):
        t.add("clone-executed")
    return t


def nontrivial(c, obs):
    st = c.get("_stats", {})
    nb = sum(1 for e in c["events"] if e[0] == "build")
    return nb >= 2 and st.get("ok", 0) >= 1
