from registry import KERNEL, TIE, HARNESS
PROP = "C02"
SPEC = {
    "manifest": {
        "technique": "machine-checked proof in Coq (induction on the schema, with a size measure, over the configuration model Config.v: "
                     "to_tree followed by load_tree into a fresh configuration reproduces every value; rendered tree is plain data; corollary "
                     "through any document codec) + model/implementation correspondence by vm_compute + direct round-trip oracle over all "
                     "built-in persistent field types, containers, nesting, key files and the five formats",
        "text": "Eight theorems (coq/theories/RoundtripLemmas.v, Props/C02.v) for ALL schemas (nested schemas, lists of configurations, dynamic "
                "schemas, feature flags, schema validators) and ALL states: C02_tree_roundtrip -- if every configuration object at every depth "
                "passes validation and every stored leaf is a validated fixed point (deep_valid), to_tree succeeds, load_tree of the result into "
                "build_cfg of the same schema succeeds including its final validation, the loaded values are the same (same_values: ids, default "
                "marks and storage order ignored; the one normalisation is a list-of-configurations slot None -> []) and the loaded state is "
                "deeply valid again; C02_roundtrip_partial -- the same conclusion from the library's own premises (Normal state, validate() "
                "reports nothing -- list items included, via validated_means --, no configuration with its feature flag off = known_F36 false); C02_tree_plain -- the tree is plain data when "
                "fields render plain data and dynamic fields hold plain data; C02_codec_roundtrip -- loads(dumps c) ~ c for any codec with "
                "dec(enc t) = t on its domain; C02_inst_tree_roundtrip -- no hypothesis left for the concrete Int/String/Bool/FeatureFlag/Any "
                "field model; C02_same_values_verdict; witness C02_roundtrip_refuted_F36 computed on the model; C02_stale_item_rejected: the former F50 witness (a list item made "
                "invalid after insertion) is now rejected by whole-configuration validation, which descends into list items. Leaf laws (to_python(to_basic v) validates back to v; to_basic renders plain data) are premises: they are C05's "
                "theorems. Tied to /repo by stream `roundtrip`: the model-sized part of every case (state reached by a real history, real "
                "to_tree, real load_tree into a fresh configuration, verdict) is compared with run_roundtrip inside Coq; the direct oracle "
                "saves and re-loads real configurations over every persistent built-in field type (bytes base64/hex, challenge digests, "
                "secrets xor/aes with per-case key files, typed/untyped lists and dicts incl. of encoded items, config types, dynamic fields, "
                "virtual fields and instance methods) in json/yaml/bson/xml/pickle with their options and compares values with type.",
        "note": "Trusted: Coq kernel + vm_compute; harness; leaf to_basic/to_python/validate abstract in the theorems (C05); third-party codecs "
                "enter as an abstract law dec(enc t) = t (Formats.v's C04 theorems are over its own pdata type; not instantiated here) and are "
                "sampled by the oracle. Open findings: F34 (key file named below the root), F35 (include field holding a path) -- field kinds "
                "outside Config.v, classified by the oracle only; F36 (required field unset inside a disabled feature) -- reproduced by the model (refuted witness); F50 (validate() did not "
                "descend into list items) is repaired: its cases are regression cases of the stream; F53 (a typed dict with an int/float/bool key field "
                "renders non-string keys into the tree) -- plain-data clause of the oracle. No axioms.",
        "design_ref": "DESIGN.md section 6 C02"},
    "streams": ["roundtrip"],
    "witnesses": ["F1", "F14", "F15", "F41", "F50"],
    "rule": "deterministic matrix (one case per persistent field type and container kind x every format/option, typed dicts with binary (hex/base64) and "
            "integer KEY fields at the root / nested / in list items, the finding regions F34/F35/F36/F53, stale list items (F50 regression), "
            "secrets of every method with UTF-8 lengths 31..1000 around the 32-byte key and the AES block (ASCII and multi-byte) at the root / nested / "
            "in list items / in typed lists and dicts, long strings (<= 2000) and binary values (<= 300), "
            "format options colliding with the configuration's own names (YAML root_key = a top-level / nested field name or a key of a dict value, "
            "XML root_tag = a field name, 'item', 'config', a type word; every kind for matrix cases, two at random otherwise), "
            "the FILE route save()/load() next to dumps()/loads() (all formats for matrix cases, BSON + one other otherwise) with one-field configurations "
            "whose BSON document length starts with an ASCII white-space byte (9..13, 32, 0x120, 0x2009, 0x200a), challenge values given as DigestValue "
            "objects with salts shorter than / equal to / longer than the digest (same challenges pass and fail after the reload), "
            "virtual/method fields, normalisation cases) plus seeded random schemas (depth <= 3, lists of schemas, config types, dynamic) with "
            "states reached by random valid assignments; cases that fit Config.v's vocabulary (int/str/bool/flag/any leaves, sub-schemas, lists "
            "of configurations, validators) reach their state by a configops history and are also evaluated by the model; non-trivial = at least "
            "one persistent non-default value went through a round trip; distinct = distinct (schema, history/assignments)",
    "trusted_base": [KERNEL, "Print Assumptions: closed under the global context (no axioms)", TIE, HARNESS,
                     "modelled, not verified: leaf fields are opaque in Config.v; their laws (leaf_roundtrip, leaf_basic_plain) are premises of the "
                     "theorems (C05) and hold trivially for the concrete leaves of ConfigInst.v (identity to_basic/to_python); the richer field "
                     "types (bytes, secrets, digests, typed containers, network fields) are covered by the direct oracle only",
                     "the five document codecs (json, PyYAML, bson, ElementTree, pickle) enter the proof as one abstract law dec(enc t) = t on "
                     "the codec's domain; on the implementation they are exercised for real by the oracle inside the representability filters "
                     "the property states (XML characters / NCName keys, 64-bit integers for BSON)"],
    "assumptions": ["schema validators are functions of the configuration's values by key (vrun_lookup); an absent key and a key holding None are not distinguished",
                    "no environment variable binding is in effect during the load (C14 makes the variable win, by design)",
                    "declared defaults are normal values of their fields (a default that its own field would change on validation is the schema author's business)",
                    "schemas have distinct field names and dynamic fields never shadow declared ones (true of every Python dict-based schema)"],
}
