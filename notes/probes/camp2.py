import os, sys, tempfile, random
exec(open("camp.py").read().split("fails = {}")[0])   # reuse generators
fails = {}
def fail(tag, msg):
    fails.setdefault(tag, [0, []]); fails[tag][0] += 1
    if len(fails[tag][1]) < 3: fails[tag][1].append(msg)
BAD = [object(), [1,2], {"a": 1}, "###bad###", -99999, 3.5, b"\xff\xfe", None, True, "", float("nan"), float("inf"), ("t",), {1,2}, "x"*50]
def leaves(s, prefix=""):
    out = []
    for k, f in s._fields.items():
        p = prefix + k
        if isinstance(f, Schema): out += leaves(f, p + ".")
        else: out.append((p, f))
    return out
def defined_map(cfg, s):
    return {p: is_value_defined(cfg, p) for p, f in leaves(s)}
def ids(cfg, out=None, pre=""):
    out = {} if out is None else out
    for k, v in cfg._data.items():
        if isinstance(v, Config): out[pre+k] = id(v); ids(v, out, pre+k+".")
    return out
def revalidate(cfg, pre=""):
    # C01 oracle: every stored value is None or a fixed point of its field's validate
    for k, v in cfg._data.items():
        f = cfg._get_field(k)
        if isinstance(v, Config): revalidate(v, pre+k+"."); continue
        if isinstance(f, Field) and v is not None and not isinstance(f, (VirtualField,)):
            try:
                v2 = f.validate(cfg, v)
            except Exception as e:
                fail("C01:invalid-stored", "%s%s=%r : %r" % (pre, k, v, e)); continue
            n1, n2 = norm(v), norm(v2)
            if n1 != n2 and not (isinstance(v, list) and any(isinstance(i, Config) for i in v)):
                fail("C01:not-normal", "%s%s %r -> %r (%s)" % (pre, k, v, v2, type(f).__name__))
            if isinstance(v, list):
                for i in v:
                    if isinstance(i, Config): revalidate(i, pre+k+"[].")
N = int(sys.argv[2]) if len(sys.argv) > 2 else 300
for it in range(N):
    s, gens = mkschema()
    try:
        c = Config(s, key_filename=KF); setall(c, gens, gentree(gens))
    except Exception as e: continue
    lv = leaves(s)
    for step in range(15):
        p, f = rnd.choice(lv)
        if isinstance(f, (VirtualField,)): continue
        val = rnd.choice(BAD)
        before, dbefore, idb = snap(c), defined_map(c, s), ids(c)
        route = rnd.choice(["item", "attr", "tree"])
        try:
            if route == "item": c[p] = val
            elif route == "attr":
                path, _, key = p.rpartition("."); setattr(c[path] if path else c, key, val)
            else:
                t = val
                for part in reversed(p.split(".")): t = {part: t}
                c.load_tree(t)
            ok = True
        except VE as e:
            ok = False
            if route != "tree":
                if e.ref_path != p and not e.ref_path.startswith(p + "[") and not e.ref_path.startswith(p + "."):
                    fail("C15:path", "%s: got %r for %r (%s) route=%s" % (p, e.ref_path, val, type(f).__name__, route))
            else:
                if not (e.ref_path == p or e.ref_path.startswith(p+"[") or e.ref_path.startswith(p + ".") or p.startswith(e.ref_path)):
                    fail("C15:path-tree", "%s: got %r for %r (%s)" % (p, e.ref_path, val, type(f).__name__))
        except Exception as e:
            ok = False
            fail("C15:exc:" + type(e).__name__, "%s (%s) <- %r via %s : %r" % (p, type(f).__name__, val, route, e))
        if not ok and route != "tree":
            if snap(c) != before: fail("C06:changed", "%s <- %r" % (p, val))
            if defined_map(c, s) != dbefore: fail("C06:defined-changed", "%s <- %r" % (p, val))
            if ids(c) != idb: fail("C06:ids", p)
        if ok and route != "tree":
            d = defined_map(c, s)
            if not d[p]: fail("C12:not-defined-after-set", p)
            for q in dbefore:
                if q != p and not q.startswith(p + ".") and not p.startswith(q + ".") and d[q] != dbefore[q]: fail("C12:other-mark-changed", "%s by %s" % (q, p))
        revalidate(c)
    # reset
    p, f = rnd.choice(lv)
    try:
        other = {q: v for q, v in defined_map(c, s).items() if q != p and not q.startswith(p + ".")}
        reset_value(c, p)
        if is_value_defined(c, p): fail("C12:reset-still-defined", p)
        now = defined_map(c, s)
        if any(now[q] != other[q] for q in other): fail("C12:reset-touched-other", p)
    except Exception as e:
        fail("C12:reset-exc:" + type(e).__name__, "%s %r" % (p, e))
print("iterations", N)
for k, v in sorted(fails.items()):
    print("==", k, v[0])
    for m in v[1]: print("    ", m[:300])
