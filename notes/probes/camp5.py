import os, sys, tempfile, random, json, hashlib, argparse, copy
HOME = tempfile.mkdtemp(); os.environ['HOME'] = HOME
from cincoconfig import *
from cincoconfig.core import Config, ValidationError as VE
from cincoconfig.encryption import KeyFile, EncryptionError, SecureValue
rnd = random.Random(int(sys.argv[1])); N = int(sys.argv[2])
D = tempfile.mkdtemp()
fails = {}
def fail(tag, msg):
    fails.setdefault(tag, [0, []]); fails[tag][0] += 1
    if len(fails[tag][1]) < 4: fails[tag][1].append(msg)
# ---------- C07 ----------
PT = bytes(range(64))
def recover(ct): return bytes(a ^ b for a, b in zip(ct, PT))[:32]
for it in range(N):
    path = os.path.join(D, "kf%d" % it)
    kind = rnd.choice(["absent", "valid", "empty", "short", "long"])
    content = {"absent": None, "valid": os.urandom(32), "empty": b"", "short": b"12345", "long": b"x" * 40}[kind]
    if content is not None: open(path, "wb").write(content)
    objs = [KeyFile(path)]; depth = [0]; sessionkey = None
    for step in range(20):
        i = rnd.randrange(len(objs)); o = objs[i]
        op = rnd.choice(["enter", "exit", "enc", "dec", "new", "ext"])
        cur = open(path, "rb").read() if os.path.exists(path) else None
        if op == "enter":
            try:
                o.__enter__(); depth[i] += 1
                if cur is not None and len(cur) != 32: fail("C07:malformed-accepted", "%s step %d" % (kind, step))
            except EncryptionError:
                if cur is None or len(cur) == 32: fail("C07:valid-rejected", kind)
            except Exception as e: fail("C07:enter-exc:" + type(e).__name__, kind)
            now = open(path, "rb").read() if os.path.exists(path) else None
            if cur is not None and now != cur: fail("C07:file-modified", kind)
            if cur is None and depth[i] and (now is None or len(now) != 32): fail("C07:not-created", kind)
        elif op == "exit":
            if depth[i] > 0:
                o.__exit__(None, None, None); depth[i] -= 1
                if depth[i] == 0 and o._KeyFile__key is not None: fail("C07:key-retained", kind)
        elif op == "enc":
            try:
                sv = o.encrypt(PT, "xor")
                if depth[i] == 0: fail("C07:enc-outside-context", kind)
                k = recover(sv.ciphertext)
                filek = open(path, "rb").read()
                if depth[i] and len(filek) == 32 and k != filek and all(d == 0 for j, d in enumerate(depth) if j != i) and False: pass
            except TypeError:
                if depth[i] > 0: fail("C07:enc-failed-inside", kind)
        elif op == "new": objs.append(KeyFile(path)); depth.append(0)
        elif op == "ext" and all(d == 0 for d in depth):
            k2 = rnd.choice(["absent", "valid", "short"])
            if os.path.exists(path): os.remove(path)
            if k2 == "valid": open(path, "wb").write(os.urandom(32))
            if k2 == "short": open(path, "wb").write(b"abc")
        for j, ob in enumerate(objs):
            if depth[j] == 0 and ob._KeyFile__key is not None: fail("C07:key-retained-any", "%s after %s" % (kind, op))
# ---------- C14 / C12 precedence ----------
for it in range(N):
    senv = rnd.choice([None, True, "APP", False]); fenv = rnd.choice([None, True, "FV", False])
    s = Schema(env=senv); s.sub.f = IntField(env=fenv, default=1); s.g = IntField(default=2)
    name = s.sub.f.env
    exp = None
    if fenv is False: exp = None
    elif isinstance(fenv, str): exp = fenv
    elif fenv is True: exp = ("APP_SUB_F" if senv == "APP" else "SUB_F" if senv is True else "F")
    else: exp = ("APP_SUB_F" if senv == "APP" else "SUB_F" if senv is True else None)
    if (name if isinstance(name, str) else None) != exp: fail("C14:name", "schema=%r field=%r got %r exp %r" % (senv, fenv, name, exp))
    if not exp: continue
    envv = rnd.choice([None, "", "7", "bad"])
    os.environ.pop(exp, None)
    if envv is not None: os.environ[exp] = envv
    try:
        c = s()
        if envv == "bad": fail("C14:invalid-env-accepted", exp)
    except VE as e:
        if envv != "bad": fail("C14:build-failed", repr(e))
        elif e.ref_path != "sub.f": fail("C14:path", e.ref_path)
        os.environ.pop(exp, None); continue
    want = 7 if envv == "7" else 1
    if c.sub.f != want: fail("C14:build-value", "%r %r" % (envv, c.sub.f))
    c.load_tree({"sub": {"f": 5}})
    want = 7 if envv == "7" else 5
    if c.sub.f != want: fail("C14:after-load", "%r %r" % (envv, c.sub.f))
    c.sub.f = 9
    if c.sub.f != 9: fail("C14:after-assign", "")
    c.loads(b'{"sub": {"f": 6}}', "json")
    want = 7 if envv == "7" else 6
    if c.sub.f != want: fail("C14:after-load2", "%r %r" % (envv, c.sub.f))
    os.environ.pop(exp, None)
# ---------- C16 ----------
for it in range(N):
    s = Schema(); paths = {}
    def build(sch, pre, depth):
        for i in range(rnd.randint(1, 4)):
            k = rnd.choice("abcdefgh") + rnd.choice(["", "_x", "y"]) + str(i)
            r = rnd.random()
            if r < 0.3 and depth < 3: build(getattr(sch, k), pre + k + ".", depth + 1)
            elif r < 0.5: setattr(sch, k, BoolField(default=rnd.choice([True, False, None]))); paths[pre + k] = "bool"
            elif r < 0.7: setattr(sch, k, IntField(default=rnd.randint(0, 9), max=99)); paths[pre + k] = "int"
            elif r < 0.85: setattr(sch, k, StringField(default="d")); paths[pre + k] = "str"
            else: setattr(sch, k, ListField(IntField(), default=[1])); paths[pre + k] = "list"
    build(s, "", 0)
    c = s()
    for p, sch, f in get_all_fields(s):
        if s[p] is not f or item_ref_path(f) != p: fail("C16:lookup", p)
        if (p in c) is not True: fail("C16:in", p)
        v = c
        for part in p.split("."): v = getattr(v, part)
        if not isinstance(v, Config) and c[p] != v: fail("C16:getitem", p)
    parser = generate_argparse_parser(s)
    opts = {a.dest: a for a in parser._actions if a.dest != "help"}
    scal = {p for p, k in paths.items() if k != "list"}
    if set(opts) != scal: fail("C16:options", "%r vs %r" % (sorted(opts), sorted(scal)))
    argv = []; supplied = {}
    for p in sorted(scal):
        if rnd.random() < 0.4:
            o = "--" + p.replace(".", "-").replace("_", "-")
            if paths[p] == "bool":
                b = rnd.random() < 0.5; argv.append(o if b else "--no-" + o[2:]); supplied[p] = b
            elif paths[p] == "int":
                v = rnd.choice(["5", "100", "zz"]); argv += [o, v]; supplied[p] = v
            else: argv += [o, "hello"]; supplied[p] = "hello"
    ignore = [p for p in supplied if rnd.random() < 0.3]
    try: args = parser.parse_args(argv)
    except SystemExit: fail("C16:parse", repr(argv)); continue
    before = asdict(c); dbefore = {p: is_value_defined(c, p) for p in paths}
    bad = [p for p, v in supplied.items() if p not in ignore and paths[p] == "int" and v in ("100", "zz")]
    try:
        cmdline_args_override(c, args, ignore=ignore)
        if bad: fail("C16:invalid-accepted", repr(bad))
    except VE:
        if not bad: fail("C16:valid-rejected", repr(argv))
        continue
    for p in paths:
        cur = c[p]
        if p in supplied and p not in ignore:
            want = supplied[p] if paths[p] != "int" else int(supplied[p])
            if cur != want: fail("C16:not-applied", "%s %r %r" % (p, cur, want))
            if not is_value_defined(c, p): fail("C16:mark", p)
        else:
            b = before
            for part in p.split("."): b = b[part]
            if cur != b or is_value_defined(c, p) != dbefore[p]: fail("C16:touched", "%s %r->%r argv=%r ign=%r" % (p, b, cur, argv, ignore))
# ---------- C18 ----------
def rtree(d=0):
    t = {}
    for k in rnd.sample(["x", "y", "m", "n", "sub"], rnd.randint(0, 4)):
        if k in ("m", "sub") and d < 3: t[k] = rtree(d + 1) if rnd.random() < 0.8 else rnd.randint(0, 9)
        else: t[k] = rnd.choice([rnd.randint(0, 9), None])
    return t
def merge(b, c):
    r = dict(b)
    for k, v in c.items():
        r[k] = merge(b[k], v) if k in b and isinstance(b[k], dict) and isinstance(v, dict) else v
    return r
inc = IncludeField()
for it in range(N * 3):
    b, ch = rtree(), rtree(); b0, c0 = copy.deepcopy(b), copy.deepcopy(ch)
    r = inc.combine_trees(b, ch)
    if r != merge(b0, c0): fail("C18:merge", "%r %r -> %r" % (b0, c0, r))
    if b != b0 or ch != c0: fail("C18:mutated", "")
    if list(r.keys()) != list(b0.keys()) + [k for k in c0 if k not in b0]: fail("C18:order", "")
for it in range(N):
    s = Schema(); s.include = IncludeField(startdir=D); s.inc2 = IncludeField(startdir=D); s.x = IntField(); s.y = IntField(); s.m = DictField(); s.n = Field()
    s.sub.include = IncludeField(startdir=D); s.sub.x = IntField(); s.sub.y = IntField(); s.sub.m = DictField(); s.sub.n = Field(); s.sub.sub.x = IntField(); s.sub.sub.y = IntField(); s.sub.sub.m = DictField(); s.sub.sub.n = Field()
    def fit(t, depth=0):  # make tree type-correct for schema
        o = {}
        for k, v in t.items():
            if k in ("x", "y", "n"): o[k] = v if not isinstance(v, dict) else 1
            elif k == "m": o[k] = v if isinstance(v, dict) else {"k": v}
            elif k == "sub" and depth < 2: o[k] = fit(v, depth + 1) if isinstance(v, dict) else {}
        return o
    doc, i1, i2, isub = fit(rtree()), fit(rtree()), fit(rtree()), fit(rtree(), 1)
    fmt = rnd.choice(["json", "yaml", "xml", "bson", "pickle"])
    from cincoconfig.core import ConfigFormat
    F = ConfigFormat.get(fmt)
    for name, t in [("i1", i1), ("i2", i2), ("isub", isub)]: open(os.path.join(D, name), "wb").write(F.dumps(None, t))
    use1, use2, usesub = rnd.random() < 0.7, rnd.random() < 0.5, rnd.random() < 0.6
    if use1: doc["include"] = "i1"
    if use2: doc["inc2"] = os.path.join(D, "i2")
    if usesub: doc.setdefault("sub", {})["include"] = "isub"
    exp = copy.deepcopy(doc)
    if use1: exp = merge(exp, i1)
    if use2 and exp.get("inc2") is not None: exp = merge(exp, i2)   # note: i1 may override inc2? (no inc2 keys in i1)
    if isinstance(exp.get("sub"), dict) and exp["sub"].get("include") is not None:
        exp["sub"] = merge(exp["sub"], isub)
    c1, c2 = s(), s()
    try: c1.loads(F.dumps(None, doc), fmt); r1 = asdict(c1)
    except Exception as e: r1 = ("err", type(e).__name__)
    try: c2.load_tree(copy.deepcopy(exp)); r2 = asdict(c2)
    except Exception as e: r2 = ("err", type(e).__name__)
    if r1 != r2: fail("C18:equiv", "%s doc=%r i1=%r isub=%r\n        %r\n        %r" % (fmt, doc, i1, isub, r1, r2))
print("iterations", N)
for k, v in sorted(fails.items()):
    print("==", k, v[0])
    for m in v[1]: print("    ", m[:400])
