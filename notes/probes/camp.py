import os, sys, tempfile, random, json, copy, traceback, math
HOME = tempfile.mkdtemp(); os.environ['HOME'] = HOME
from cincoconfig import *
from cincoconfig.core import Config, ConfigFormat, ValidationError as VE
rnd = random.Random(int(sys.argv[1]) if len(sys.argv) > 1 else 1)
D = tempfile.mkdtemp()
KF = os.path.join(D, "kf.key")
def rstr(n=None, alpha="abcXYZ 09_-é"):
    n = rnd.randint(0, 6) if n is None else n
    return "".join(rnd.choice(alpha) for _ in range(n))
def ident(): return rnd.choice("abcdefgh") + rstr(rnd.randint(0,3), "abcdef0")
# field factories: (ctor, valid value generator)
def leaf():
    k = rnd.choice(["str","int","float","bool","port","ip","net","host","bytes","bytes_hex","secure","challenge","url","any","list_int","list_bytes","dict_si","list_any","dict_any","list_secure","loglevel","file"])
    sens = rnd.random() < 0.2
    kw = dict(sensitive=sens) if k != "secure" else {}
    if k == "str": return StringField(min_len=rnd.choice([None,0,1]), max_len=rnd.choice([None,8,20]), transform_strip=rnd.choice([None, True]), transform_case=rnd.choice([None,"lower","upper"]), **kw), lambda: rstr()
    if k == "int": return IntField(min=rnd.choice([None,-5]), max=rnd.choice([None,100]), **kw), lambda: rnd.choice([rnd.randint(-5,100), str(rnd.randint(0,9)), float(rnd.randint(0,9))])
    if k == "float": return FloatField(**kw), lambda: rnd.choice([rnd.random()*100, rnd.randint(0,5), "1.5", float("inf"), -0.0])
    if k == "bool": return BoolField(**kw), lambda: rnd.choice([True, False, "yes", "OFF", 0, 1])
    if k == "port": return PortField(**kw), lambda: rnd.randint(1,65535)
    if k == "ip": return IPv4AddressField(**kw), lambda: ".".join(str(rnd.randint(0,255)) for _ in range(4))
    if k == "net": return IPv4NetworkField(**kw), lambda: "10.%d.0.0/16" % rnd.randint(0,255)
    if k == "host": return HostnameField(**kw), lambda: rnd.choice(["localhost", "a.b-c.example", "10.0.0.1", "MYPC"])
    if k == "bytes": return BytesField(**kw), lambda: rnd.choice([bytes(rnd.randrange(256) for _ in range(rnd.randint(0,5))), rstr()])
    if k == "bytes_hex": return BytesField(encoding="hex", **kw), lambda: bytes(rnd.randrange(256) for _ in range(rnd.randint(0,5)))
    if k == "secure": return SecureField(method=rnd.choice(["xor","aes","best"])), lambda: rstr(rnd.randint(0,20))
    if k == "challenge": return ChallengeField(rnd.choice(["md5","sha1","sha256","sha512"]), **kw), lambda: rstr(rnd.randint(0,8))
    if k == "url": return UrlField(**kw), lambda: "http://" + rstr(3, "abc") + ".com/x"
    if k == "any": return Field(**kw), lambda: rnd.choice([1, "x", None, [1, {"a": None}], {"k": [1.5, True]}])
    if k == "list_int": return ListField(IntField(), **kw), lambda: [rnd.randint(0,9) for _ in range(rnd.randint(0,3))]
    if k == "list_bytes": return ListField(BytesField(), **kw), lambda: [bytes([rnd.randrange(256)]) for _ in range(rnd.randint(0,3))]
    if k == "list_secure": return ListField(SecureField(method="xor")), lambda: [rstr(3) for _ in range(rnd.randint(0,3))]
    if k == "dict_si": return DictField(StringField(), IntField(), **kw), lambda: {rstr(2, "abc"): rnd.randint(0,9) for _ in range(rnd.randint(0,3))}
    if k == "list_any": return ListField(**kw), lambda: [rnd.choice([1,"a",None,[2]]) for _ in range(rnd.randint(0,3))]
    if k == "dict_any": return DictField(**kw), lambda: {rstr(2, "abc"): rnd.choice([1,"a",None,[2]]) for _ in range(rnd.randint(0,3))}
    if k == "loglevel": return LogLevelField(**kw), lambda: rnd.choice(["debug", " INFO ", "Error"])
    if k == "file": return FilenameField(startdir=rnd.choice([None, D]), **kw), lambda: rnd.choice(["a.txt", "/abs/x", ""])
def mkschema(depth=0):
    s = Schema(dynamic=False); gens = {}
    for _ in range(rnd.randint(1, 5)):
        key = ident()
        if key in gens: continue
        r = rnd.random()
        if r < 0.2 and depth < 3:
            sub, g = mkschema(depth+1); setattr(s, key, sub); gens[key] = ("sub", g)
        elif r < 0.3 and depth < 3:
            sub, g = mkschema(depth+1); setattr(s, key, ListField(sub)); gens[key] = ("listsub", g, sub)
        elif r < 0.4 and depth < 3:
            sub, g = mkschema(depth+1); setattr(s, key, make_type(sub, "T"+key)); gens[key] = ("sub", g)
        else:
            f, g = leaf(); setattr(s, key, f); gens[key] = ("leaf", g)
    return s, gens
def gentree(gens):
    t = {}
    for k, gg in gens.items():
        kind, g = gg[0], gg[1]
        if rnd.random() < 0.25: continue
        if kind == "leaf": t[k] = g()
        elif kind == "sub": t[k] = gentree(g)
        else: t[k] = [gentree(g) for _ in range(rnd.randint(0,2))]
    return t
def setall(cfg, gens, tree):
    for k, v in tree.items():
        kind = gens[k][0]
        if kind == "leaf": setattr(cfg, k, v)
        elif kind == "sub": setall(getattr(cfg, k), gens[k][1], v)
        else:
            items = []
            for sub in v:
                ic = Config(gens[k][2]); setall(ic, gens[k][1], sub); items.append(ic)
            setattr(cfg, k, items)
def norm(v):
    if isinstance(v, float): return ("f", v.hex())
    if isinstance(v, bool): return ("b", v)
    if isinstance(v, dict): return {k: norm(x) for k, x in v.items()}
    if isinstance(v, (list, tuple)): return [norm(x) for x in v]
    if isinstance(v, DigestValue): return ("dig", v.salt, v.digest)
    return v
def snap(cfg): return norm(asdict(cfg))
def equalish(a, b):
    # allowed normalisations: None typed list/dict <-> empty ; "" secret <-> None
    if a == b: return True
    if a in (None, [], {}, "") and b in (None, [], {}, ""): return True
    if isinstance(a, dict) and isinstance(b, dict) and a.keys() == b.keys(): return all(equalish(a[k], b[k]) for k in a)
    if isinstance(a, list) and isinstance(b, list) and len(a) == len(b): return all(equalish(x, y) for x, y in zip(a, b))
    return False
fails = {}
def fail(tag, msg):
    fails.setdefault(tag, [])
    if len(fails[tag]) < 3: fails[tag].append(msg)
N = int(sys.argv[2]) if len(sys.argv) > 2 else 300
for it in range(N):
    s, gens = mkschema()
    try:
        c = Config(s, key_filename=KF)
        setall(c, gens, gentree(gens))
    except Exception as e:
        fail("setup:" + type(e).__name__, repr(e)[:200]); continue
    before = snap(c)
    for fmt in ["json", "yaml", "bson", "pickle", "xml"]:
        try:
            out = c.dumps(fmt)
        except Exception as e:
            fail("dumps:%s:%s" % (fmt, type(e).__name__), repr(e)[:300]); continue
        c2 = Config(s, key_filename=KF)
        try:
            c2.loads(out, fmt)
        except Exception as e:
            fail("loads:%s:%s" % (fmt, type(e).__name__), repr(e)[:300] + " :: " + repr(before)[:300]); continue
        after = snap(c2)
        if not equalish(before, after):
            ks = [k for k in before if not equalish(before[k], after.get(k))]
            fail("rt:%s" % fmt, repr({k: (before[k], after.get(k)) for k in ks})[:400])
    if os.path.exists(os.path.join(HOME, ".cincokey")): fail("defaultkey", "created"); os.remove(os.path.join(HOME, ".cincokey"))
    # mask
    try:
        tm = c.to_tree(sensitive_mask="#"); t0 = c.to_tree()
    except Exception as e:
        fail("mask:"+type(e).__name__, repr(e)[:200])
print("iterations", N)
for k, v in sorted(fails.items()):
    print("==", k, len(v))
    for m in v: print("    ", m)
