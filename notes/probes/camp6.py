import os, sys, tempfile, random, json, hashlib, ast, io, contextlib, copy, typing, inspect
HOME = tempfile.mkdtemp(); os.environ['HOME'] = HOME
from cincoconfig import *
from cincoconfig.core import Config, ValidationError as VE
rnd = random.Random(int(sys.argv[1])); N = int(sys.argv[2])
fails = {}
def fail(tag, msg):
    fails.setdefault(tag, [0, []]); fails[tag][0] += 1
    if len(fails[tag][1]) < 4: fails[tag][1].append(msg)
# ---------- C09 ----------
for it in range(N):
    alg = rnd.choice(["md5", "sha1", "sha224", "sha256", "sha384", "sha512"])
    s = Schema(); s.pw = ChallengeField(alg); s.sub.pw = ChallengeField(alg, default=rnd.choice([None, "dflt"]))
    c = s(); p = rnd.choice(["", "hunter2", "pä☃ss", "x" * 1000, b"\xff\x00raw"]); q = rnd.choice(["hunter3", "", "P", b"\xff\x00raW"])
    c.pw = p; v1 = c.pw; c.pw = p; v2 = c.pw
    h = getattr(hashlib, alg)
    pb = p.encode() if isinstance(p, str) else p; qb = q.encode() if isinstance(q, str) else q
    if v1.digest != h(v1.salt + pb).digest() or len(v1.salt) != h().digest_size: fail("C09:digest", alg)
    if v1.salt == v2.salt: fail("C09:salt-reuse", alg)
    try: v1.challenge(p)
    except Exception: fail("C09:challenge-p", alg)
    if qb != pb:
        try: v1.challenge(q); fail("C09:challenge-q-ok", alg)
        except ValueError: pass
    for fmt in ["json", "yaml", "xml", "bson", "pickle"]:
        out = c.dumps(fmt)
        if len(pb) >= 5 and pb in out: fail("C09:plaintext-in-output", fmt)
        c2 = s(); c2.loads(out, fmt)
        if (c2.pw.salt, c2.pw.digest) != (v2.salt, v2.digest): fail("C09:roundtrip", fmt)
        if c.sub.pw is not None and (c2.sub.pw.salt, c2.sub.pw.digest) != (c.sub.pw.salt, c.sub.pw.digest): fail("C09:roundtrip-default", fmt)
    if isinstance(p, str) and p:
        c3 = s(); c3.load_tree({"pw": p})
        try: c3.pw.challenge(p)
        except Exception: fail("C09:plaintext-load", alg)
# ---------- C11 ----------
for it in range(N):
    log = []
    def mk(depth, pre):
        s = Schema(); meta = {"req": [], "flag": None, "subs": {}, "pre": pre, "vfail": rnd.random() < 0.15}
        for i in range(rnd.randint(0, 3)):
            k = "r%d" % i; kind = rnd.choice(["int", "str", "list", "dict"])
            f = {"int": IntField, "str": StringField, "list": lambda **kw: ListField(IntField(), **kw), "dict": lambda **kw: DictField(**kw)}[kind](required=True, default=rnd.choice([None, {"int": 1, "str": "a", "list": [1], "dict": {"a": 1}}[kind], {"int": None, "str": "", "list": [], "dict": {}}[kind]]))
            setattr(s, k, f); meta["req"].append((k, kind))
        if rnd.random() < 0.4: s.flag = FeatureFlagField(default=rnd.choice([True, False, None])); meta["flag"] = True
        def v(cfg, _pre=pre, _m=meta):
            log.append(_pre)
            if _m["vfail"]: raise ValueError("nope")
        validator(s)(v)
        if depth < 3:
            for i in range(rnd.randint(0, 2)):
                k = "s%d" % i; sub, m = mk(depth + 1, pre + k + "."); setattr(s, k, sub); meta["subs"][k] = m
        return s, meta
    s, meta = mk(0, "")
    c = s()
    def gentree(m):
        t = {}
        for k, kind in m["req"]:
            if rnd.random() < 0.6: t[k] = rnd.choice({"int": [1, None], "str": ["a", "", None], "list": [[1], [], None], "dict": [{"a": 1}, {}, None]}[kind])
        if m["flag"] and rnd.random() < 0.6: t["flag"] = rnd.choice([True, False])
        for k, mm in m["subs"].items():
            if rnd.random() < 0.6: t[k] = gentree(mm)
        return t
    def expect_ok(cfg, m):
        # independent oracle over the final state
        if m["flag"] and not cfg.flag: return True, []
        ok = True; ran = [m["pre"]]
        for k, kind in m["req"]:
            v = getattr(cfg, k)
            if v is None or (kind in ("str", "list", "dict") and len(v) == 0): ok = False
        if m["vfail"]: ok = False
        for k, mm in m["subs"].items():
            o, r = expect_ok(getattr(cfg, k), mm); ok = ok and o; ran += r
        return ok, ran
    t = gentree(meta); del log[:]
    try: c.load_tree(t); res = True
    except VE: res = False
    except Exception as e: fail("C11:exc:" + type(e).__name__, repr(e)); continue
    if res:
        ok, ran = expect_ok(c, meta)
        if not ok: fail("C11:returned-but-invalid", repr(t))
        if not set(ran) <= set(log): fail("C11:validator-not-run", "%r vs %r" % (ran, log))
    # explicit validate: raise vs collect agree with the oracle
    ok, ran = expect_ok(c, meta)
    try: c.validate(); r1 = True
    except VE: r1 = False
    errs = c.validate(collect_errors=True)
    if r1 != ok: fail("C11:validate-vs-oracle", "%r %r" % (r1, ok))
    if (len(errs) == 0) != r1: fail("C11:collect-vs-raise", "")
# ---------- C13 ----------
for it in range(N):
    s = Schema()
    s.a = ListField(DictField(), default=[{"a": [1]}]); s.b = DictField(StringField(), ListField(), default={"k": [[1]]}); s.c = ListField(default=[[1], {"x": [2]}]); s.d = DictField(default={"k": {"z": [1]}})
    s.e = ListField(ListField(IntField()), default=[[1]]); it_s = Schema(); it_s.v = ListField(default=[1]); s.items = ListField(it_s, default=[{"v": [5]}]); s.sub.l = ListField(IntField(), default=[1]); s.ct = make_type(it_s, "IT")
    s2 = Schema(dynamic=True); 
    defaults0 = copy.deepcopy({k: f.default for k, f in s._fields.items() if isinstance(f, Field)})
    A = s(); B = s(); b0 = copy.deepcopy(asdict(B))
    for step in range(10):
        op = rnd.randrange(10)
        try:
            if op == 0: A.a[0]["a"].append(9); A.a[0]["new"] = 1
            elif op == 1: A.b["k"][0].append(9); A.b["k"].append(3)
            elif op == 2: A.c[0].append(9); A.c[1]["x"].append(9)
            elif op == 3: A.d["k"]["z"].append(9)
            elif op == 4: A.e[0].append(9)
            elif op == 5: A.items[0].v.append(9); A.items.append({"v": [1]})
            elif op == 6: A.sub.l.append(9); A.ct.v.append(9)
            elif op == 7: reset_value(A, rnd.choice(["a", "b", "c", "d", "e", "items", "sub", "ct"]))
            elif op == 8: A.load_tree({"a": [{"q": 1}], "sub": {"l": [4]}})
            elif op == 9: C2 = s(); 
        except Exception as e: fail("C13:exc", repr(e))
    if copy.deepcopy(asdict(B)) != b0: fail("C13:other-config-changed", "")
    if {k: f.default for k, f in s._fields.items() if isinstance(f, Field)} != defaults0: fail("C13:schema-default-changed", "")
    fresh = s()
    if asdict(fresh) != b0: fail("C13:fresh-differs", "")
    d1 = Config(s2); d2 = Config(s2); d1.extra = 5
    if "extra" in s2._fields or "extra" in d2._fields or d2.extra is not None: fail("C13:dynamic-leak", "")
# ---------- C20 ----------
def rsig(i):
    params = ["cfg"]; ann = rnd.choice(["", ": int", ": str", ": typing.Optional[int]", ": 'Foo'", ": typing.List[str]"])
    for j in range(rnd.randint(0, 2)): params.append("a%d%s%s" % (j, rnd.choice(["", ": int", ": typing.Optional[int]", ": 'X'"]), rnd.choice(["", "", " = None"]) if j else ""))
    # defaults must be trailing
    fixed = []; seen_def = False
    for p_ in params:
        if "=" in p_: seen_def = True
        elif seen_def and p_ != "cfg": p_ += " = 1"
        fixed.append(p_)
    params = fixed
    star = rnd.choice(["", "*args", "*"])
    kwonly = ["k%d%s" % (j, rnd.choice(["", ": int", " = 3"])) for j in range(rnd.randint(0, 2))]
    if star == "*" and not kwonly: star = ""
    if star: params.append(star)
    if star: params += kwonly
    if rnd.random() < 0.4: params.append("**kw")
    ret = rnd.choice(["", " -> int", " -> None", " -> typing.List[int]", " -> 'Foo'"])
    return "def m%d(%s)%s: pass" % (i, ", ".join(params), ret)
for it in range(N):
    s = Schema(); kinds = {}
    sub = Schema(); sub.q = IntField(); CT = make_type(sub, "CT")
    for i in range(rnd.randint(0, 6)):
        k = "f%d" % i
        f = rnd.choice([lambda: IntField(), lambda: StringField(), lambda: FloatField(), lambda: BoolField(), lambda: ListField(IntField()), lambda: ListField(), lambda: ListField(sub), lambda: ListField(CT), lambda: DictField(StringField(), IntField()), lambda: DictField(), lambda: ChallengeField(), lambda: SecureField(), lambda: BytesField(), lambda: Field(), lambda: VirtualField(lambda c: 1), lambda: CT, lambda: Schema(), lambda: IPv4AddressField(), lambda: FilenameField(), lambda: UrlField(), lambda: PortField(), lambda: LogLevelField(), lambda: ApplicationModeField(), lambda: IncludeField(), lambda: FeatureFlagField(), lambda: HostnameField(), lambda: IPv4NetworkField()])()
        setattr(s, k, f); 
    sigs = {}
    for i in range(rnd.randint(0, 3)):
        src = rsig(i); ns = {"typing": typing}; exec(src, ns); fn = ns["m%d" % i]; instance_method(s, "m%d" % i)(fn); sigs["m%d" % i] = fn
    before_fields = list(s._fields.keys())
    buf = io.StringIO()
    try:
        with contextlib.redirect_stdout(buf): stub = generate_stub(s, "Foo")
    except Exception as e: fail("C20:exc:" + type(e).__name__, repr(e)[:200]); continue
    if buf.getvalue(): fail("C20:stdout", buf.getvalue()[:80])
    if list(s._fields.keys()) != before_fields: fail("C20:schema-changed", "")
    try: tree = ast.parse(stub)
    except SyntaxError as e: fail("C20:syntax", stub[:300]); continue
    cls = tree.body[0]
    attrs = [n.target.id for n in cls.body if isinstance(n, ast.AnnAssign)]
    exp_attrs = [k for k, f in s._fields.items() if not isinstance(f, InstanceMethodField)]
    if attrs != exp_attrs: fail("C20:attrs", "%r vs %r" % (attrs, exp_attrs))
    fns = {n.name: n for n in cls.body if isinstance(n, ast.FunctionDef)}
    init = [a.arg for a in fns["__init__"].args.args]
    exp_init = ["self"] + [k for k, f in s._fields.items() if not isinstance(f, (InstanceMethodField, VirtualField))]
    if init != exp_init: fail("C20:init", "%r vs %r" % (init, exp_init))
    for name, fn in sigs.items():
        if name not in fns: fail("C20:method-missing", name); continue
        a = fns[name].args; sp = inspect.getfullargspec(fn)
        got = ([x.arg for x in a.args][1:], a.vararg.arg if a.vararg else None, [x.arg for x in a.kwonlyargs], a.kwarg.arg if a.kwarg else None)
        want = (sp.args[1:], sp.varargs, sp.kwonlyargs, sp.varkw)
        if got != want: fail("C20:signature", "%r vs %r :: %s" % (got, want, stub.splitlines()[-1]))
print("iterations", N)
for k, v in sorted(fails.items()):
    print("==", k, v[0])
    for m in v[1]: print("    ", m[:400])
