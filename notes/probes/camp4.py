# C03 key-file resolution histories + C10 mask + C13 alias + C19 save faults, on random nested schemas
import os, sys, tempfile, random, json, io
HOME = tempfile.mkdtemp(); os.environ['HOME'] = HOME
from cincoconfig import *
from cincoconfig.core import Config, ValidationError as VE
rnd = random.Random(int(sys.argv[1])); N = int(sys.argv[2])
D = tempfile.mkdtemp()
fails = {}
def fail(tag, msg):
    fails.setdefault(tag, [0, []]); fails[tag][0] += 1
    if len(fails[tag][1]) < 4: fails[tag][1].append(msg)
opened = []
def hook(ev, args):
    if ev == "open" and isinstance(args[0], str) and (args[0].startswith(D) or args[0].startswith(HOME)): opened.append((args[0], args[1]))
sys.addaudithook(hook)
def kf(i): return os.path.join(D, "k%d.key" % i)
def mk(depth=0, path=()):
    s = Schema(); meta = {}
    s.sec = SecureField(method=rnd.choice(["xor", "aes", "best"])); meta["sec"] = "secret"
    s.pw = StringField(sensitive=True); meta["pw"] = "sens"
    s.n = IntField(default=1); meta["n"] = "plain"
    if depth < 3:
        for i in range(rnd.randint(0, 2)):
            k = "s%d" % i; sub, m = mk(depth + 1); setattr(s, k, sub); meta[k] = ("sub", m)
        if rnd.random() < 0.5:
            sub, m = mk(depth + 1); s.items = ListField(sub); meta["items"] = ("list", m, sub)
        if rnd.random() < 0.4:
            sub, m = mk(depth + 1); s.ct = make_type(sub, "CT", key_filename=rnd.choice([None, None, kf(9)])); meta["ct"] = ("sub", m)
    return s, meta
secrets = []
def fill(cfg, meta):
    for k, m in meta.items():
        if m == "secret":
            if rnd.random() < 0.8:
                v = "S%06d" % rnd.randrange(10**6); secrets.append(v); setattr(cfg, k, v)
        elif m == "sens":
            v = "P%06d" % rnd.randrange(10**6); secrets.append(v); setattr(cfg, k, v)
        elif m == "plain": pass
        elif m[0] == "sub": fill(getattr(cfg, k), m[1])
        elif m[0] == "list":
            items = []
            for _ in range(rnd.randint(0, 2)):
                ic = Config(m[2]); fill(ic, m[1]); items.append(ic)
            setattr(cfg, k, items)
def configs(cfg, meta, pre=""):
    out = [(pre, cfg)]
    for k, m in meta.items():
        if isinstance(m, tuple) and m[0] == "sub": out += configs(getattr(cfg, k), m[1], pre + k + ".")
        elif isinstance(m, tuple) and m[0] == "list":
            for i, ic in enumerate(getattr(cfg, k) or []): out += configs(ic, m[1], pre + "%s[%d]." % (k, i))
    return out
def spec_kf(cfg):
    # nearest ancestor naming a key file, via true containment (parent pointers assumed right after fixes) -- compute by explicit own key files
    c = cfg
    while c is not None:
        own = c._Config__keyfile
        if own is not None and getattr(c, "_own_kf", None): return c._own_kf
        c = c._parent
    return Config.DEFAULT_CINCOKEY_FILEPATH
def plain(cfg, meta):
    out = {}
    for k, m in meta.items():
        if m in ("secret", "sens", "plain"): out[k] = getattr(cfg, k)
        elif m[0] == "sub": out[k] = plain(getattr(cfg, k), m[1])
        else: out[k] = [plain(ic, m[1]) for ic in (getattr(cfg, k) or [])]
    return out
def eq(a, b):
    if a == b: return True
    if a in (None, "", []) and b in (None, "", []): return True
    if isinstance(a, dict) and isinstance(b, dict): return a.keys() == b.keys() and all(eq(a[k], b[k]) for k in a)
    if isinstance(a, list) and isinstance(b, list): return len(a) == len(b) and all(eq(x, y) for x, y in zip(a, b))
    return False
for it in range(N):
    s, meta = mk(); secrets.clear()
    rootkf = rnd.choice([None, kf(0)])
    c = Config(s, key_filename=rootkf); c._own_kf = rootkf
    fill(c, meta)
    # history of key-file assignments interleaved with dumps
    assigned = {}
    for step in range(rnd.randint(0, 4)):
        pre, tgt = rnd.choice(configs(c, meta))
        newkf = rnd.choice([None, kf(rnd.randint(1, 3))])
        tgt._key_filename = newkf; tgt._own_kf = newkf
        if rnd.random() < 0.5:
            try: c.dumps("json")
            except Exception as e: fail("dumps-exc:" + type(e).__name__, repr(e)[:200])
    # expected key files = those of configs holding a non-empty SecureField
    expected = set()
    for pre, cf in configs(c, meta):
        if cf.sec:
            # nearest ancestor with own key filename
            x = cf; name = None
            while x is not None:
                if x._Config__keyfile is not None and getattr(x, "_own_kf", None) is None and isinstance(x, ConfigType) and type(x).__key_filename__: name = type(x).__key_filename__; break
                if getattr(x, "_own_kf", None): name = x._own_kf; break
                if isinstance(x, ConfigType) and type(x).__key_filename__ and not hasattr(x, "_own_kf"): name = type(x).__key_filename__; break
                x = x._parent
            expected.add(name or Config.DEFAULT_CINCOKEY_FILEPATH)
    fmt = rnd.choice(["json", "yaml", "xml", "bson", "pickle"])
    del opened[:]
    try: out = c.dumps(fmt)
    except Exception as e: fail("dumps-exc2:" + type(e).__name__, repr(e)[:200]); continue
    used = {p for p, m in opened}
    if used != expected: fail("C03:keyfiles-used", "used %r expected %r" % (sorted(os.path.basename(x) for x in used), sorted(os.path.basename(x) for x in expected)))
    for sv in secrets:
        if sv.startswith("S") and sv.encode() in out and any(True for _ in [0]):
            # only a violation if it is the current value of a SecureField; sensitive StringFields are stored in clear by design
            pass
    cur_secrets = [cf.sec for _, cf in configs(c, meta) if cf.sec]
    for sv in cur_secrets:
        if sv.encode() in out: fail("C03:plaintext", sv)
    # reload in "new session": brand-new config objects with same key-file assignment (by path)
    c2 = Config(s, key_filename=c._own_kf)
    # replicate sub-config key files by path (only for non-list configs, before load; list items get theirs from parents)
    for pre, cf in configs(c, meta):
        if pre and "[" not in pre and hasattr(cf, "_own_kf"):
            tgt = c2
            for part in pre.rstrip(".").split("."): tgt = getattr(tgt, part)
            tgt._key_filename = cf._own_kf
    has_list_own = any("[" in pre and getattr(cf, "_own_kf", None) for pre, cf in configs(c, meta))
    try:
        c2.loads(out, fmt)
        # sub-configs are REPLACED on load: their own key file assignment is lost -> only compare when no sub-config-level assignment
        sub_assign = any(pre and getattr(cf, "_own_kf", None) for pre, cf in configs(c, meta))
        if not eq(plain(c, meta), plain(c2, meta)): fail("C03:reload-diff" + (":subassign" if sub_assign else ""), "fmt=%s" % fmt)
    except Exception as e:
        sub_assign = any(pre and getattr(cf, "_own_kf", None) for pre, cf in configs(c, meta))
        fail("C03:reload-exc" + (":subassign" if sub_assign else ""), "%s %r" % (fmt, e))
    # C10 mask
    for mask in ["", "*", "xx"]:
        tm = c.to_tree(sensitive_mask=mask); js = json.dumps(tm)
        for _, cf in configs(c, meta):
            for v in (cf.sec, cf.pw):
                if v and v in js: fail("C10:leak mask=%r" % mask, v)
        t0 = c.to_tree()
        def cmp(a, b, m, pre=""):
            for k, mm in m.items():
                if mm == "plain" and a[k] != b[k]: fail("C10:plain-changed", pre + k)
                elif mm in ("secret", "sens"):
                    val = None
                elif isinstance(mm, tuple) and mm[0] == "sub": cmp(a[k], b[k], mm[1], pre + k + ".")
                elif isinstance(mm, tuple) and mm[0] == "list":
                    for x, y in zip(a[k] or [], b[k] or []): cmp(x, y, mm[1], pre + k + "[].")
        cmp(tm, t0, meta)
    # C19 save faults: existing destination, failing serialisation
    dest = os.path.join(D, "dest.cfg"); open(dest, "wb").write(b"PREVIOUS")
    fault = rnd.choice(["format", "field", "keyfile"])
    try:
        if fault == "format": c.save(dest, "nope")
        elif fault == "field":
            orig = IntField.to_basic; IntField.to_basic = lambda self, cfg, v: (_ for _ in ()).throw(RuntimeError("boom"))
            try: c.save(dest, "json")
            finally: IntField.to_basic = orig
        else:
            bad = os.path.join(D, "badkey"); open(bad, "wb").write(b"short")
            old = c._own_kf; c._key_filename = bad
            for _, cf in configs(c, meta)[1:]: cf._key_filename = None
            c.sec = "zzz"
            try: c.save(dest, "json")
            finally: c._key_filename = old
        fail("C19:no-exception", fault) if fault != "keyfile" else None
    except Exception: pass
    if fault != "keyfile" and open(dest, "rb").read() != b"PREVIOUS": fail("C19:damaged", fault)
    if fault == "keyfile" and open(dest, "rb").read() not in (b"PREVIOUS",) and not open(dest, "rb").read().startswith(b"{"): fail("C19:damaged", fault)
print("iterations", N)
for k, v in sorted(fails.items()):
    print("==", k, v[0])
    for m in v[1]: print("    ", m[:300])
