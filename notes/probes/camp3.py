import os, sys, tempfile, random, copy
os.environ['HOME'] = tempfile.mkdtemp()
from cincoconfig import *
rnd = random.Random(int(sys.argv[1]))
fails = {}
def fail(tag, msg):
    fails.setdefault(tag, [0, []]); fails[tag][0] += 1
    if len(fails[tag][1]) < 4: fails[tag][1].append(msg)
s = Schema(); s.l = ListField(IntField(min=0), default=[]); s.l2 = ListField(IntField(min=0), default=[]); s.o = ListField(StringField(), default=[])
s.d = DictField(StringField(transform_case="lower"), IntField(min=0), default={}); s.d2 = DictField(StringField(), StringField(), default={})
def vint(): return rnd.choice([rnd.randint(0, 9), str(rnd.randint(0, 9)), float(rnd.randint(0,9))])
def norm_int(x): return int(x)
def items(n=None): return [vint() for _ in range(rnd.randint(0, 3) if n is None else n)]
def wrap(xs, c):
    k = rnd.choice(["list", "tuple", "iter", "gen", "proxy_same", "proxy_other"])
    if k == "list": return list(xs), k
    if k == "tuple": return tuple(xs), k
    if k == "iter": return iter(list(xs)), k
    if k == "gen": return (x for x in list(xs)), k
    if k == "proxy_same":
        c.l2 = list(xs); return c.l2, k
    c.o = [str(x) for x in xs]; return c.o, k
def rslice(n):
    a = rnd.choice([None] + list(range(-n-1, n+2))); b = rnd.choice([None] + list(range(-n-1, n+2))); st = rnd.choice([None, None, 1, 2, -1, -2])
    return slice(a, b, st)
def run(f):
    try: return ("ok", f())
    except Exception as e: return ("err", type(e).__name__)
N = int(sys.argv[2])
for it in range(N):
    c = s(); ref = []
    c.l = items(); ref = [norm_int(x) for x in c.l]
    for step in range(25):
        op = rnd.choice(["append","insert","extend","setidx","setslice","iadd","add","mul","imul","copy","pop","remove","delidx","delslice","sort","reverse","clear","index","count","contains","getslice","eq"])
        n = len(ref); p = c.l
        if op == "append": x = vint(); a = run(lambda: p.append(x)); b = run(lambda: ref.append(norm_int(x)))
        elif op == "insert": i = rnd.randint(-n-2, n+2); x = vint(); a = run(lambda: p.insert(i, x)); b = run(lambda: ref.insert(i, norm_int(x)))
        elif op == "extend": xs = items(); w, k = wrap(xs, c); a = run(lambda: p.extend(w)); b = run(lambda: ref.extend([norm_int(x) for x in xs]))
        elif op == "setidx": i = rnd.randint(-n-1, n+1); x = vint(); a = run(lambda: p.__setitem__(i, x)); b = run(lambda: ref.__setitem__(i, norm_int(x)))
        elif op == "setslice": sl = rslice(n); xs = items(); w, k = wrap(xs, c); a = run(lambda: p.__setitem__(sl, w)); b = run(lambda: ref.__setitem__(sl, [norm_int(x) for x in xs])); op += ":" + k
        elif op == "iadd":
            xs = items(); w, k = wrap(xs, c)
            def fa():
                q = p; q += w; return q is p
            def fb():
                q = ref; q += [norm_int(x) for x in xs]; return q is ref
            a = run(fa); b = run(fb)
        elif op == "add":
            xs = items(); w = list(xs)
            a = run(lambda: (lambda r: (list(r), isinstance(r, ListProxy)))(p + w)); b = run(lambda: (ref + [norm_int(x) for x in xs], True))
        elif op == "mul": m = rnd.randint(-1, 3); a = run(lambda: list(p * m)); b = run(lambda: ref * m)
        elif op == "imul":
            m = rnd.randint(0, 2)
            def fa():
                q = p; q *= m; return q is p
            def fb():
                q = ref; q *= m; return q is ref
            a = run(fa); b = run(fb)
        elif op == "copy": a = run(lambda: (lambda r: (list(r), isinstance(r, ListProxy)))(p.copy())); b = run(lambda: (ref.copy(), True))
        elif op == "pop": i = rnd.choice([None, rnd.randint(-n-1, n+1)]); a = run(lambda: p.pop() if i is None else p.pop(i)); b = run(lambda: ref.pop() if i is None else ref.pop(i))
        elif op == "remove": x = rnd.randint(0, 9); a = run(lambda: p.remove(x)); b = run(lambda: ref.remove(x))
        elif op == "delidx": i = rnd.randint(-n-1, n+1); a = run(lambda: p.__delitem__(i)); b = run(lambda: ref.__delitem__(i))
        elif op == "delslice": sl = rslice(n); a = run(lambda: p.__delitem__(sl)); b = run(lambda: ref.__delitem__(sl))
        elif op == "sort": r = rnd.random() < 0.5; a = run(lambda: p.sort(reverse=r)); b = run(lambda: ref.sort(reverse=r))
        elif op == "reverse": a = run(lambda: p.reverse()); b = run(lambda: ref.reverse())
        elif op == "clear": a = run(lambda: p.clear()); b = run(lambda: ref.clear())
        elif op == "index": x = rnd.randint(0, 9); a = run(lambda: p.index(x)); b = run(lambda: ref.index(x))
        elif op == "count": x = rnd.randint(0, 9); a = run(lambda: p.count(x)); b = run(lambda: ref.count(x))
        elif op == "contains": x = rnd.randint(0, 9); a = run(lambda: x in p); b = run(lambda: x in ref)
        elif op == "getslice": sl = rslice(n); a = run(lambda: p[sl]); b = run(lambda: ref[sl])
        elif op == "eq": a = run(lambda: p == ref); b = ("ok", True)
        if a != b: fail("list:" + op, "%r vs %r ; now %r / %r" % (a, b, list(c.l), ref))
        if list(c.l) != ref: fail("list-content:" + op, "%r vs %r" % (list(c.l), ref)); ref = list(c.l)
        if not isinstance(c.l, ListProxy): fail("list-type", op)
    # dict
    c = s(); ref = {}
    def kv(): return rnd.choice(["a","B","c","D"]), vint()
    def nk(k): return k.lower()
    for step in range(25):
        op = rnd.choice(["set","update_dict","update_pairs","update_iter","update_kw","update_both","update_proxy","setdefault","setdefault1","ior","or","pop","popd","popitem","del","clear","copy","get","contains","keys","eq"])
        p = c.d
        pairs = [kv() for _ in range(rnd.randint(0, 3))]; npairs = [(nk(k), norm_int(v)) for k, v in pairs]
        if op == "set": k, v = kv(); a = run(lambda: p.__setitem__(k, v)); b = run(lambda: ref.__setitem__(nk(k), norm_int(v)))
        elif op == "update_dict": a = run(lambda: p.update(dict(pairs))); b = run(lambda: ref.update(dict((nk(k), norm_int(v)) for k, v in dict(pairs).items())))
        elif op == "update_pairs": a = run(lambda: p.update(list(pairs))); b = run(lambda: ref.update(npairs))
        elif op == "update_iter": a = run(lambda: p.update(iter(pairs))); b = run(lambda: ref.update(npairs))
        elif op == "update_kw": kw = dict(pairs); a = run(lambda: p.update(**kw)); b = run(lambda: ref.update(**{nk(k): norm_int(v) for k, v in kw.items()}))
        elif op == "update_both": kw = dict(pairs); a = run(lambda: p.update({"z": 1}, **kw)); b = run(lambda: ref.update({"z": 1}, **{nk(k): norm_int(v) for k, v in kw.items()}))
        elif op == "update_proxy":
            c2 = s(); c2.d = dict(pairs); a = run(lambda: p.update(c2.d)); b = run(lambda: ref.update(dict((nk(k), norm_int(v)) for k, v in dict(pairs).items())))
        elif op == "setdefault": k, v = kv(); a = run(lambda: p.setdefault(k, v)); b = run(lambda: ref.setdefault(nk(k), norm_int(v)))
        elif op == "setdefault1": k, v = kv(); a = run(lambda: p.setdefault(k)); b = run(lambda: ref.setdefault(nk(k)))
        elif op == "ior":
            def fa():
                q = p; q |= dict(pairs); return q is p
            def fb():
                q = ref; q |= dict((nk(k), norm_int(v)) for k, v in dict(pairs).items()); return q is ref
            a = run(fa); b = run(fb)
        elif op == "or": a = run(lambda: dict(p | {"q": 1})); b = run(lambda: ref | {"q": 1})
        elif op == "pop": k = rnd.choice("abcd"); a = run(lambda: p.pop(k)); b = run(lambda: ref.pop(k))
        elif op == "popd": k = rnd.choice("abcd"); a = run(lambda: p.pop(k, 7)); b = run(lambda: ref.pop(k, 7))
        elif op == "popitem": a = run(lambda: p.popitem()); b = run(lambda: ref.popitem())
        elif op == "del": k = rnd.choice("abcd"); a = run(lambda: p.__delitem__(k)); b = run(lambda: ref.__delitem__(k))
        elif op == "clear": a = run(lambda: p.clear()); b = run(lambda: ref.clear())
        elif op == "copy": a = run(lambda: (lambda r: (dict(r), isinstance(r, DictProxy)))(p.copy())); b = run(lambda: (ref.copy(), True))
        elif op == "get": k = rnd.choice("abcd"); a = run(lambda: p.get(k)); b = run(lambda: ref.get(k))
        elif op == "contains": k = rnd.choice("abcd"); a = run(lambda: k in p); b = run(lambda: k in ref)
        elif op == "keys": a = run(lambda: list(p.items())); b = run(lambda: list(ref.items()))
        elif op == "eq": a = run(lambda: (p == ref, ref == p, p != ref)); b = ("ok", (True, True, False))
        if a != b: fail("dict:" + op, "%r vs %r ; now %r / %r" % (a, b, dict(c.d), ref))
        if list(c.d.items()) != list(ref.items()): fail("dict-content:" + op, "%r vs %r" % (dict(c.d), ref)); ref = dict(c.d)
print("iterations", N)
for k, v in sorted(fails.items()):
    print("==", k, v[0])
    for m in v[1]: print("    ", m[:300])
